package verifmodel

import (
	"fmt"
	"sort"
	"strconv"
	"strings"
)

// Match decides whether the implementation's reply (parsed from the wire) is the one the model
// prescribes. The returned string explains a mismatch.
func Match(want, got Reply) (bool, string) {
	fail := func() (bool, string) { return false, fmt.Sprintf("want %s got %s", want, got) }
	switch want.K {
	case KAny:
		return true, ""
	case KPred:
		if want.Pred(got) {
			return true, ""
		}
		return fail()
	case KBlocked:
		return fail()
	case KNil:
		if got.K == KNil {
			return true, ""
		}
		return fail()
	case KStatus:
		if got.K == KStatus && got.S == want.S {
			return true, ""
		}
		return fail()
	case KErr:
		if got.IsErr() && got.ErrClass() == want.ErrClass() {
			return true, ""
		}
		return fail()
	case KInt:
		if got.K == KInt && got.I == want.I {
			return true, ""
		}
		return fail()
	case KBulk:
		if got.K == KBulk && got.S == want.S {
			return true, ""
		}
		return fail()
	case KDouble:
		switch got.K {
		case KDouble:
			if got.F == want.F {
				return true, ""
			}
		case KBulk, KStatus:
			f, err := strconv.ParseFloat(got.S, 64)
			if err == nil && f == want.F {
				return true, ""
			}
		}
		return fail()
	case KArray:
		if got.K != KArray || len(got.A) != len(want.A) {
			return fail()
		}
		for i := range want.A {
			if ok, _ := Match(want.A[i], got.A[i]); !ok {
				return fail()
			}
		}
		return true, ""
	case KUSet:
		if got.K != KArray && got.K != KSet {
			return fail()
		}
		if want.Note == "array" && got.K != KArray {
			return fail()
		}
		if len(got.A) != len(want.A) {
			return fail()
		}
		a, b := canonList(want.A), canonList(got.A)
		for i := range a {
			if a[i] != b[i] {
				return fail()
			}
		}
		return true, ""
	case KUMap:
		if got.K != KArray && got.K != KMap {
			return fail()
		}
		if (want.Proto == 2 && got.K != KArray) || (want.Proto == 3 && got.K != KMap) {
			return false, fmt.Sprintf("connection speaks RESP%d but the reply is %s", want.Proto, got)
		}
		if len(got.A) != len(want.A) || len(got.A)%2 != 0 {
			return fail()
		}
		a, b := canonPairs(want.A), canonPairs(got.A)
		for i := range a {
			if a[i] != b[i] {
				return fail()
			}
		}
		return true, ""
	}
	return false, "model reply kind not comparable: " + want.String()
}

func canonList(rs []Reply) []string {
	out := make([]string, len(rs))
	for i, r := range rs {
		out[i] = Canon(r)
	}
	sort.Strings(out)
	return out
}

func canonPairs(rs []Reply) []string {
	out := make([]string, 0, len(rs)/2)
	for i := 0; i+1 < len(rs); i += 2 {
		out = append(out, Canon(rs[i])+"=>"+Canon(rs[i+1]))
	}
	sort.Strings(out)
	return out
}

// Shape abstracts a reply for finding signatures: kind, small integers, error class.
func Shape(r Reply) string {
	switch r.K {
	case KNil:
		return "nil"
	case KStatus:
		return "+" + r.S
	case KErr, KBlobErr:
		return "err:" + r.ErrClass()
	case KInt:
		if r.I >= -3 && r.I <= 3 {
			return fmt.Sprintf("int%d", r.I)
		}
		return "int"
	case KBulk:
		if r.S == "" {
			return "bulk-empty"
		}
		return "bulk"
	case KArray, KUSet, KSet, KPairs:
		if len(r.A) <= 2 {
			return fmt.Sprintf("arr%d", len(r.A))
		}
		return "arr"
	case KMap, KUMap:
		if len(r.A) == 0 {
			return "map0"
		}
		return "map"
	case KDouble:
		return "double"
	case KAny:
		return "any"
	case KPred:
		return "pred"
	case KBlocked:
		return "blocked"
	case KBool:
		return "bool"
	case KVerbatim:
		return "verbatim"
	}
	return "other"
}

// family type of every typed command (used by MatchCmd)
var cmdFamily = map[string]byte{}

func init() {
	for _, n := range strings.Fields("get getset getdel getex append strlen getrange substr setrange incr decr incrby decrby incrbyfloat lcs setbit getbit bitcount bitpos bitfield bitfield_ro bitop") {
		cmdFamily[n] = 's'
	}
	for _, n := range strings.Fields("lpush rpush lpushx rpushx lpop rpop llen lindex lrange lset linsert lrem ltrim lpos lmove rpoplpush lmpop blpop brpop blmove brpoplpush blmpop") {
		cmdFamily[n] = 'l'
	}
	for _, n := range strings.Fields("hset hmset hsetnx hget hmget hgetall hkeys hvals hlen hexists hstrlen hdel hincrby hincrbyfloat hrandfield hscan") {
		cmdFamily[n] = 'h'
	}
	for _, n := range strings.Fields("sadd srem scard sismember smismember smembers smove srandmember sscan sinter sunion sdiff sinterstore sunionstore sdiffstore sintercard") {
		cmdFamily[n] = 'z'
	}
}

// MatchCmd is Match plus one tolerance: when a command is ill-formed in its arguments (it fails
// on an empty database too) AND names a key that holds another type than the command's family,
// both the argument error and WRONGTYPE are acceptable - Redis' own order of the two checks
// differs from command to command and no property depends on it.
func MatchCmd(pre *Model, sess int, args []string, want, got Reply) (bool, string) {
	ok, why := Match(want, got)
	if ok || !want.IsErr() || !got.IsErr() {
		return ok, why
	}
	wc, gc := want.ErrClass(), got.ErrClass()
	if !((wc == "WRONGTYPE" && gc == "ERR") || (wc == "ERR" && gc == "WRONGTYPE")) {
		return ok, why
	}
	fam, typed := cmdFamily[strings.ToLower(args[0])]
	if !typed {
		return ok, why
	}
	db := pre.Sess[sess].DB
	wrong := false
	for _, a := range args[1:] {
		if o := pre.DBs[db][a]; o != nil && o.T != fam && !(o.Exp != 0 && o.Exp <= pre.Now) {
			wrong = true
		}
	}
	if !wrong {
		return ok, why
	}
	empty := NewModel(pre.Now)
	for range pre.Sess {
		empty.NewSession()
	}
	if r := empty.Exec(sess, args); r.IsErr() {
		return true, ""
	}
	return ok, why
}
