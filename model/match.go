package verifmodel

import (
	"fmt"
	"sort"
	"strconv"
)

// Match decides whether the implementation's reply (parsed from the wire) is the one the model
// prescribes. The returned string explains a mismatch.
func Match(want, got Reply) (bool, string) {
	fail := func() (bool, string) { return false, fmt.Sprintf("want %s got %s", want, got) }
	switch want.K {
	case KAny:
		return true, ""
	case KPred:
		if want.Pred(got) {
			return true, ""
		}
		return fail()
	case KBlocked:
		return fail()
	case KNil:
		if got.K == KNil {
			return true, ""
		}
		return fail()
	case KStatus:
		if got.K == KStatus && got.S == want.S {
			return true, ""
		}
		return fail()
	case KErr:
		if got.IsErr() && got.ErrClass() == want.ErrClass() {
			return true, ""
		}
		return fail()
	case KInt:
		if got.K == KInt && got.I == want.I {
			return true, ""
		}
		return fail()
	case KBulk:
		if got.K == KBulk && got.S == want.S {
			return true, ""
		}
		return fail()
	case KDouble:
		switch got.K {
		case KDouble:
			if got.F == want.F {
				return true, ""
			}
		case KBulk, KStatus:
			f, err := strconv.ParseFloat(got.S, 64)
			if err == nil && f == want.F {
				return true, ""
			}
		}
		return fail()
	case KArray:
		if got.K != KArray || len(got.A) != len(want.A) {
			return fail()
		}
		for i := range want.A {
			if ok, _ := Match(want.A[i], got.A[i]); !ok {
				return fail()
			}
		}
		return true, ""
	case KUSet:
		if got.K != KArray && got.K != KSet {
			return fail()
		}
		if want.Note == "array" && got.K != KArray {
			return fail()
		}
		if len(got.A) != len(want.A) {
			return fail()
		}
		a, b := canonList(want.A), canonList(got.A)
		for i := range a {
			if a[i] != b[i] {
				return fail()
			}
		}
		return true, ""
	case KUMap:
		if got.K != KArray && got.K != KMap {
			return fail()
		}
		if len(got.A) != len(want.A) || len(got.A)%2 != 0 {
			return fail()
		}
		a, b := canonPairs(want.A), canonPairs(got.A)
		for i := range a {
			if a[i] != b[i] {
				return fail()
			}
		}
		return true, ""
	}
	return false, "model reply kind not comparable: " + want.String()
}

func canonList(rs []Reply) []string {
	out := make([]string, len(rs))
	for i, r := range rs {
		out[i] = Canon(r)
	}
	sort.Strings(out)
	return out
}

func canonPairs(rs []Reply) []string {
	out := make([]string, 0, len(rs)/2)
	for i := 0; i+1 < len(rs); i += 2 {
		out = append(out, Canon(rs[i])+"=>"+Canon(rs[i+1]))
	}
	sort.Strings(out)
	return out
}

// Shape abstracts a reply for finding signatures: kind, small integers, error class.
func Shape(r Reply) string {
	switch r.K {
	case KNil:
		return "nil"
	case KStatus:
		return "+" + r.S
	case KErr, KBlobErr:
		return "err:" + r.ErrClass()
	case KInt:
		if r.I >= -3 && r.I <= 3 {
			return fmt.Sprintf("int%d", r.I)
		}
		return "int"
	case KBulk:
		if r.S == "" {
			return "bulk-empty"
		}
		return "bulk"
	case KArray, KUSet, KSet, KPairs:
		if len(r.A) <= 2 {
			return fmt.Sprintf("arr%d", len(r.A))
		}
		return "arr"
	case KMap, KUMap:
		if len(r.A) == 0 {
			return "map0"
		}
		return "map"
	case KDouble:
		return "double"
	case KAny:
		return "any"
	case KPred:
		return "pred"
	case KBlocked:
		return "blocked"
	case KBool:
		return "bool"
	case KVerbatim:
		return "verbatim"
	}
	return "other"
}
