package verifmodel

import (
	"math"
	"strconv"
	"strings"
)

func init() {
	reg("set", 3, -1, mSet)
	reg("setnx", 3, 3, func(m *Model, s *Session, a []string) Reply {
		if m.get(s.DB, a[1]) != nil {
			return Int(0)
		}
		m.set(s.DB, a[1], &Obj{T: 's', S: a[2]})
		return Int(1)
	})
	reg("setex", 4, 4, func(m *Model, s *Session, a []string) Reply { return m.setex(s, a, 1000) })
	reg("psetex", 4, 4, func(m *Model, s *Session, a []string) Reply { return m.setex(s, a, 1) })
	reg("get", 2, 2, mGet)
	reg("getset", 3, 3, func(m *Model, s *Session, a []string) Reply {
		o, wt := m.typed(s.DB, a[1], 's')
		if wt {
			return errWrongType
		}
		r := Nil()
		if o != nil {
			r = Bulk(o.S)
		}
		m.set(s.DB, a[1], &Obj{T: 's', S: a[2]})
		return r
	})
	reg("getdel", 2, 2, func(m *Model, s *Session, a []string) Reply {
		o, wt := m.typed(s.DB, a[1], 's')
		if wt {
			return errWrongType
		}
		if o == nil {
			return Nil()
		}
		m.del(s.DB, a[1])
		return Bulk(o.S)
	})
	reg("getex", 2, -1, mGetEx)
	reg("mget", 2, -1, func(m *Model, s *Session, a []string) Reply {
		out := make([]Reply, 0, len(a)-1)
		for _, k := range a[1:] {
			o, _ := m.typed(s.DB, k, 's')
			if o == nil {
				out = append(out, Nil())
			} else {
				out = append(out, Bulk(o.S))
			}
		}
		return Arr(out...)
	})
	reg("mset", 3, -1, func(m *Model, s *Session, a []string) Reply {
		if len(a)%2 != 1 {
			return errArity("mset")
		}
		for i := 1; i+1 < len(a); i += 2 {
			m.set(s.DB, a[i], &Obj{T: 's', S: a[i+1]})
		}
		return OK()
	})
	reg("msetnx", 3, -1, func(m *Model, s *Session, a []string) Reply {
		if len(a)%2 != 1 {
			return errArity("msetnx")
		}
		for i := 1; i+1 < len(a); i += 2 {
			if m.get(s.DB, a[i]) != nil {
				return Int(0)
			}
		}
		for i := 1; i+1 < len(a); i += 2 {
			m.set(s.DB, a[i], &Obj{T: 's', S: a[i+1]})
		}
		return Int(1)
	})
	reg("append", 3, 3, func(m *Model, s *Session, a []string) Reply {
		o, wt := m.typed(s.DB, a[1], 's')
		if wt {
			return errWrongType
		}
		if o == nil {
			o = &Obj{T: 's'}
		}
		o.S += a[2]
		m.set(s.DB, a[1], o)
		return Int(int64(len(o.S)))
	})
	reg("strlen", 2, 2, func(m *Model, s *Session, a []string) Reply {
		o, wt := m.typed(s.DB, a[1], 's')
		if wt {
			return errWrongType
		}
		if o == nil {
			return Int(0)
		}
		return Int(int64(len(o.S)))
	})
	reg("getrange", 4, 4, mGetRange)
	reg("substr", 4, 4, mGetRange)
	reg("setrange", 4, 4, mSetRange)
	reg("incr", 2, 2, func(m *Model, s *Session, a []string) Reply { return m.incrBy(s, a[1], 1) })
	reg("decr", 2, 2, func(m *Model, s *Session, a []string) Reply { return m.incrBy(s, a[1], -1) })
	reg("incrby", 3, 3, func(m *Model, s *Session, a []string) Reply {
		d, ok := parseInt(a[2])
		if !ok {
			return errNotInt
		}
		return m.incrBy(s, a[1], d)
	})
	reg("decrby", 3, 3, func(m *Model, s *Session, a []string) Reply {
		d, ok := parseInt(a[2])
		if !ok {
			return errNotInt
		}
		if d == math.MinInt64 {
			return Err("ERR decrement would overflow")
		}
		return m.incrBy(s, a[1], -d)
	})
	reg("incrbyfloat", 3, 3, mIncrByFloat)
	reg("lcs", 3, -1, mLcs)
}

// expire option parsing shared by SET and GETEX. unit: ms per unit; abs: absolute timestamp.
func (m *Model) expireAt(cmd string, v string, unitMs int64, abs bool) (int64, *Reply) {
	n, ok := parseInt(v)
	if !ok {
		r := errNotInt
		return 0, &r
	}
	bad := Err("ERR invalid expire time in '" + cmd + "' command")
	if n <= 0 {
		return 0, &bad
	}
	if unitMs > 1 && n > math.MaxInt64/unitMs {
		return 0, &bad
	}
	n *= unitMs
	if !abs {
		if n > math.MaxInt64-m.Now {
			return 0, &bad
		}
		n += m.Now
	}
	return n, nil
}

func mSet(m *Model, s *Session, a []string) Reply {
	var nx, xx, get, keepttl bool
	var exp int64
	hasExp := false
	for i := 3; i < len(a); i++ {
		opt := strings.ToLower(a[i])
		switch opt {
		case "nx":
			if xx {
				return errSyntax
			}
			nx = true
		case "xx":
			if nx {
				return errSyntax
			}
			xx = true
		case "get":
			get = true
		case "keepttl":
			if hasExp {
				return errSyntax
			}
			keepttl = true
		case "ex", "px", "exat", "pxat":
			if hasExp || keepttl || i+1 >= len(a) {
				return errSyntax
			}
			unit := int64(1)
			if opt == "ex" || opt == "exat" {
				unit = 1000
			}
			e, er := m.expireAt("set", a[i+1], unit, opt == "exat" || opt == "pxat")
			if er != nil {
				return *er
			}
			exp, hasExp = e, true
			i++
		default:
			return errSyntax
		}
	}
	old := m.get(s.DB, a[1])
	ret := OK()
	if get {
		if old != nil && old.T != 's' {
			return errWrongType
		}
		if old != nil {
			ret = Bulk(old.S)
		} else {
			ret = Nil()
		}
	}
	if (nx && old != nil) || (xx && old == nil) {
		if get {
			return ret
		}
		return Nil()
	}
	n := &Obj{T: 's', S: a[2]}
	if keepttl && old != nil {
		n.Exp = old.Exp
	}
	if hasExp {
		n.Exp = exp
	}
	m.set(s.DB, a[1], n)
	return ret
}

func (m *Model) setex(s *Session, a []string, unit int64) Reply {
	e, er := m.expireAt(strings.ToLower(a[0]), a[2], unit, false)
	if er != nil {
		return *er
	}
	m.set(s.DB, a[1], &Obj{T: 's', S: a[3], Exp: e})
	return OK()
}

func mGet(m *Model, s *Session, a []string) Reply {
	o, wt := m.typed(s.DB, a[1], 's')
	if wt {
		return errWrongType
	}
	if o == nil {
		return Nil()
	}
	return Bulk(o.S)
}

func mGetEx(m *Model, s *Session, a []string) Reply {
	var exp int64
	mode := 0 // 0 none, 1 set, 2 persist
	for i := 2; i < len(a); i++ {
		opt := strings.ToLower(a[i])
		switch opt {
		case "persist":
			if mode != 0 {
				return errSyntax
			}
			mode = 2
		case "ex", "px", "exat", "pxat":
			if mode != 0 || i+1 >= len(a) {
				return errSyntax
			}
			unit := int64(1)
			if opt == "ex" || opt == "exat" {
				unit = 1000
			}
			e, er := m.expireAt("getex", a[i+1], unit, opt == "exat" || opt == "pxat")
			if er != nil {
				return *er
			}
			exp, mode = e, 1
			i++
		default:
			return errSyntax
		}
	}
	o, wt := m.typed(s.DB, a[1], 's')
	if wt {
		return errWrongType
	}
	if o == nil {
		return Nil()
	}
	r := Bulk(o.S)
	switch mode {
	case 1:
		o.Exp = exp
		m.touch(s.DB, a[1])
		if exp <= m.Now {
			m.del(s.DB, a[1])
			m.Lazy++
		}
	case 2:
		if o.Exp != 0 {
			o.Exp = 0
			m.touch(s.DB, a[1])
		}
	}
	return r
}

func mGetRange(m *Model, s *Session, a []string) Reply {
	start, ok1 := parseInt(a[2])
	end, ok2 := parseInt(a[3])
	if !ok1 || !ok2 {
		return errNotInt
	}
	o, wt := m.typed(s.DB, a[1], 's')
	if wt {
		return errWrongType
	}
	if o == nil {
		return Bulk("")
	}
	n := int64(len(o.S))
	if start < 0 && end < 0 && start > end {
		return Bulk("")
	}
	if start < 0 {
		start += n
	}
	if end < 0 {
		end += n
	}
	if start < 0 {
		start = 0
	}
	if end < 0 {
		end = 0
	}
	if end >= n {
		end = n - 1
	}
	if start > end || n == 0 {
		return Bulk("")
	}
	return Bulk(o.S[start : end+1])
}

func mSetRange(m *Model, s *Session, a []string) Reply {
	off, ok := parseInt(a[2])
	if !ok {
		return errNotInt
	}
	if off < 0 {
		return Err("ERR offset is out of range")
	}
	if off > 512*1024*1024 {
		off = 512*1024*1024 + 1 // avoid overflow below; still too large
	}
	o, wt := m.typed(s.DB, a[1], 's')
	if wt {
		return errWrongType
	}
	v := a[3]
	if o == nil {
		if len(v) == 0 {
			return Int(0)
		}
		if off+int64(len(v)) > 512*1024*1024 {
			return Err("ERR string exceeds maximum allowed size (proto-max-bulk-len)")
		}
		o = &Obj{T: 's'}
	} else {
		if len(v) == 0 {
			return Int(int64(len(o.S)))
		}
		if off+int64(len(v)) > 512*1024*1024 {
			return Err("ERR string exceeds maximum allowed size (proto-max-bulk-len)")
		}
	}
	b := []byte(o.S)
	for int64(len(b)) < off+int64(len(v)) {
		b = append(b, 0)
	}
	copy(b[off:], v)
	o.S = string(b)
	m.set(s.DB, a[1], o)
	return Int(int64(len(o.S)))
}

func (m *Model) incrBy(s *Session, key string, d int64) Reply {
	o, wt := m.typed(s.DB, key, 's')
	if wt {
		return errWrongType
	}
	v := int64(0)
	if o != nil {
		var ok bool
		v, ok = parseInt(o.S)
		if !ok {
			if !LaxInt(o.S) {
				return errNotInt
			}
			// "+1", "01", "-0": integers for Go's parser, not for Redis' string2ll. Treated as
			// unspecified: the model follows the lenient reading and counts the step.
			m.Unspec++
			v, _ = strconv.ParseInt(o.S, 10, 64)
		}
	}
	if (d > 0 && v > math.MaxInt64-d) || (d < 0 && v < math.MinInt64-d) {
		return errOverflow
	}
	v += d
	if o == nil {
		o = &Obj{T: 's'}
	}
	o.S = itoa(v)
	m.set(s.DB, key, o)
	return Int(v)
}

// parseFloat follows Redis' string2ld as far as the alphabet needs: full consumption, no
// leading/trailing space, nan refused.
func parseFloat(sv string) (float64, bool) {
	if sv == "" || sv[0] == ' ' || sv[len(sv)-1] == ' ' {
		return 0, false
	}
	f, err := strconv.ParseFloat(sv, 64)
	if err != nil {
		// strtold reports ERANGE overflow as error too
		return 0, false
	}
	if math.IsNaN(f) {
		return 0, false
	}
	return f, true
}

func fmtFloat(f float64) string { return strconv.FormatFloat(f, 'f', -1, 64) }

func mIncrByFloat(m *Model, s *Session, a []string) Reply {
	o, wt := m.typed(s.DB, a[1], 's')
	if wt {
		return errWrongType
	}
	v := 0.0
	if o != nil {
		var ok bool
		v, ok = parseFloat(o.S)
		if !ok {
			return errNotFloat
		}
	}
	d, ok := parseFloat(a[2])
	if !ok {
		return errNotFloat
	}
	v += d
	if math.IsNaN(v) || math.IsInf(v, 0) {
		return Err("ERR increment would produce NaN or Infinity")
	}
	if o == nil {
		o = &Obj{T: 's'}
	}
	o.S = fmtFloat(v)
	m.set(s.DB, a[1], o)
	return Bulk(o.S)
}

// LCS key1 key2 [LEN] [IDX] [MINMATCHLEN n] [WITHMATCHLEN]
func mLcs(m *Model, s *Session, a []string) Reply {
	var wantLen, wantIdx, withLen bool
	minLen := int64(0)
	for i := 3; i < len(a); i++ {
		switch strings.ToLower(a[i]) {
		case "len":
			wantLen = true
		case "idx":
			wantIdx = true
		case "withmatchlen":
			withLen = true
		case "minmatchlen":
			if i+1 >= len(a) {
				return errSyntax
			}
			v, ok := parseInt(a[i+1])
			if !ok {
				return errNotInt
			}
			if v < 0 {
				v = 0
			}
			minLen = v
			i++
		default:
			return errSyntax
		}
	}
	oa, wt1 := m.typed(s.DB, a[1], 's')
	ob, wt2 := m.typed(s.DB, a[2], 's')
	if wt1 || wt2 {
		// Redis words this as a plain ERR; WRONGTYPE (what the keyspace property asks for) is accepted too
		return Pred("error (ERR or WRONGTYPE)", func(r Reply) bool { return r.IsErr() && (r.ErrClass() == "ERR" || r.ErrClass() == "WRONGTYPE") })
	}
	if wantIdx && wantLen {
		return Err("ERR If you want both the length and indexes, please just use IDX.")
	}
	A, B := "", ""
	if oa != nil {
		A = oa.S
	}
	if ob != nil {
		B = ob.S
	}
	// classic DP
	la, lb := len(A), len(B)
	dp := make([][]int, la+1)
	for i := range dp {
		dp[i] = make([]int, lb+1)
	}
	for i := 1; i <= la; i++ {
		for j := 1; j <= lb; j++ {
			if A[i-1] == B[j-1] {
				dp[i][j] = dp[i-1][j-1] + 1
			} else if dp[i-1][j] > dp[i][j-1] {
				dp[i][j] = dp[i-1][j]
			} else {
				dp[i][j] = dp[i][j-1]
			}
		}
	}
	L := dp[la][lb]
	if wantLen {
		return Int(int64(L))
	}
	isSubseq := func(sub, str string) bool {
		j := 0
		for i := 0; i < len(str) && j < len(sub); i++ {
			if str[i] == sub[j] {
				j++
			}
		}
		return j == len(sub)
	}
	if !wantIdx {
		return Pred("a longest common subsequence (length "+strconv.Itoa(L)+")", func(r Reply) bool {
			return r.K == KBulk && len(r.S) == L && isSubseq(r.S, A) && isSubseq(r.S, B)
		})
	}
	// IDX: {matches: [[ [a0,a1],[b0,b1] (,len) ] ...], len: L}; the ranges must denote equal
	// substrings, be strictly decreasing (Redis reports from the end), and - without MINMATCHLEN -
	// add up to L.
	_ = withLen
	return Pred("LCS IDX structure for length "+strconv.Itoa(L), func(r Reply) bool {
		var matches, ln *Reply
		switch r.K {
		case KMap, KArray:
			if len(r.A) != 4 {
				return false
			}
			for i := 0; i < 4; i += 2 {
				switch r.A[i].S {
				case "matches":
					matches = &r.A[i+1]
				case "len":
					ln = &r.A[i+1]
				}
			}
		default:
			return false
		}
		if matches == nil || ln == nil || ln.K != KInt || ln.I != int64(L) || matches.K != KArray {
			return false
		}
		total := 0
		prevA, prevB := la, lb
		for _, mt := range matches.A {
			want := 2
			if withLen {
				want = 3
			}
			if mt.K != KArray || len(mt.A) != want {
				return false
			}
			ra, rb := mt.A[0], mt.A[1]
			if ra.K != KArray || rb.K != KArray || len(ra.A) != 2 || len(rb.A) != 2 {
				return false
			}
			a0, a1, b0, b1 := int(ra.A[0].I), int(ra.A[1].I), int(rb.A[0].I), int(rb.A[1].I)
			if a0 < 0 || a1 < a0 || a1 >= prevA || b0 < 0 || b1 < b0 || b1 >= prevB || a1-a0 != b1-b0 {
				return false
			}
			if A[a0:a1+1] != B[b0:b1+1] {
				return false
			}
			if int64(a1-a0+1) < minLen {
				return false
			}
			if withLen && (mt.A[2].K != KInt || int(mt.A[2].I) != a1-a0+1) {
				return false
			}
			total += a1 - a0 + 1
			prevA, prevB = a0, b0
		}
		if minLen <= 1 && total != L {
			return false
		}
		return total <= L
	})
}
