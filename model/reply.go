// Package verifmodel holds the reference model of Redis 7 semantics used as oracle, the strict
// RESP parser of the harness and the reply comparison rules. It knows nothing about the
// implementation's data structures.
package verifmodel

import (
	"fmt"
	"sort"
	"strconv"
	"strings"
)

type Kind uint8

const (
	KNil      Kind = iota // RESP2 nil bulk / nil array, RESP3 null
	KStatus               // +simple
	KErr                  // -error (S = full text)
	KInt                  // :n
	KBulk                 // $n
	KArray                // *n
	KMap                  // %n  (A = k0,v0,k1,v1,...)
	KSet                  // ~n
	KDouble               // ,f
	KBool                 // #t/#f
	KVerbatim             // =n
	KBigNum               // (n
	KPush                 // >n
	KBlobErr              // !n
	KAttr                 // |n
	// model-only kinds
	KUSet   // unordered collection of elements (A)
	KUMap   // unordered field/value pairs (A = k0,v0,...)
	KAny    // unspecified: anything is accepted
	KPred   // accepted iff Pred(actual)
	KPairs  // ordered list of pairs: RESP3 array of 2-arrays, RESP2 flat (A = k0,v0,...)
	KBlocked // the command does not return (connection stays blocked)
)

type Reply struct {
	K    Kind
	S    string
	I    int64
	F    float64
	A    []Reply
	Pred func(Reply) bool
	Note string
	// Proto, when set on a model reply, demands the protocol-specific wire form (map vs. flat array)
	Proto int
}

func Nil() Reply               { return Reply{K: KNil} }
func Status(s string) Reply    { return Reply{K: KStatus, S: s} }
func OK() Reply                { return Reply{K: KStatus, S: "OK"} }
func Err(s string) Reply       { return Reply{K: KErr, S: s} }
func Int(i int64) Reply        { return Reply{K: KInt, I: i} }
func Bulk(s string) Reply      { return Reply{K: KBulk, S: s} }
func Arr(a ...Reply) Reply     { return Reply{K: KArray, A: append([]Reply{}, a...)} }
func USet(a ...Reply) Reply    { return Reply{K: KUSet, A: append([]Reply{}, a...)} }
func UMap(a ...Reply) Reply    { return Reply{K: KUMap, A: append([]Reply{}, a...)} }
func Pairs(a ...Reply) Reply   { return Reply{K: KPairs, A: append([]Reply{}, a...)} }
func Double(f float64) Reply   { return Reply{K: KDouble, F: f} }
func Any(note string) Reply    { return Reply{K: KAny, Note: note} }
func Blocked() Reply           { return Reply{K: KBlocked} }
func Pred(note string, f func(Reply) bool) Reply { return Reply{K: KPred, Pred: f, Note: note} }
func Bulks(ss ...string) []Reply {
	out := make([]Reply, len(ss))
	for i, s := range ss {
		out[i] = Bulk(s)
	}
	return out
}
func BulkArr(ss ...string) Reply { return Reply{K: KArray, A: Bulks(ss...)} }

func (r Reply) IsErr() bool { return r.K == KErr || r.K == KBlobErr }

// ErrClass is the first word of an error reply ("ERR", "WRONGTYPE", ...).
func (r Reply) ErrClass() string {
	if !r.IsErr() {
		return ""
	}
	s := r.S
	if i := strings.IndexByte(s, ' '); i >= 0 {
		s = s[:i]
	}
	return s
}

func q(s string) string {
	if len(s) > 48 {
		return strconv.Quote(s[:40]) + fmt.Sprintf("...(%d bytes)", len(s))
	}
	return strconv.Quote(s)
}

func (r Reply) String() string {
	switch r.K {
	case KNil:
		return "nil"
	case KStatus:
		return "+" + r.S
	case KErr:
		return "-" + r.S
	case KBlobErr:
		return "!" + r.S
	case KInt:
		return fmt.Sprintf(":%d", r.I)
	case KBulk:
		return q(r.S)
	case KVerbatim:
		return "=" + q(r.S)
	case KBigNum:
		return "(" + r.S
	case KDouble:
		return "," + strconv.FormatFloat(r.F, 'g', -1, 64)
	case KBool:
		if r.I != 0 {
			return "#t"
		}
		return "#f"
	case KAny:
		return "<any:" + r.Note + ">"
	case KPred:
		return "<pred:" + r.Note + ">"
	case KBlocked:
		return "<blocked>"
	}
	open, cl := "[", "]"
	switch r.K {
	case KMap:
		open, cl = "%{", "}"
	case KSet:
		open, cl = "~{", "}"
	case KUSet:
		open, cl = "uset{", "}"
	case KUMap:
		open, cl = "umap{", "}"
	case KPairs:
		open, cl = "pairs[", "]"
	case KPush:
		open, cl = ">[", "]"
	case KAttr:
		open, cl = "|{", "}"
	}
	parts := make([]string, len(r.A))
	for i, e := range r.A {
		parts[i] = e.String()
	}
	return open + strings.Join(parts, " ") + cl
}

// ---- strict RESP2/RESP3 parser ---------------------------------------------------------------

type ParseError struct {
	Pos int
	Msg string
}

func (e *ParseError) Error() string { return fmt.Sprintf("RESP parse error at byte %d: %s", e.Pos, e.Msg) }

// ParseOne parses exactly one value starting at pos; returns the next position.
// incomplete is true when the data ends in the middle of an otherwise well-formed value.
func ParseOne(b []byte, pos int) (r Reply, next int, incomplete bool, err error) {
	line := func(p int) (string, int, bool, error) {
		for i := p; i < len(b); i++ {
			if b[i] == '\n' {
				return "", 0, false, &ParseError{i, "bare LF inside a line"}
			}
			if b[i] == '\r' {
				if i+1 >= len(b) {
					return "", 0, true, nil
				}
				if b[i+1] != '\n' {
					return "", 0, false, &ParseError{i, "CR not followed by LF inside a line"}
				}
				return string(b[p:i]), i + 2, false, nil
			}
		}
		return "", 0, true, nil
	}
	if pos >= len(b) {
		return r, pos, true, nil
	}
	t := b[pos]
	l, np, inc, e := line(pos + 1)
	if e != nil {
		return r, pos, false, e
	}
	if inc {
		return r, pos, true, nil
	}
	num := func() (int64, error) {
		n, e := strconv.ParseInt(l, 10, 64)
		if e != nil {
			return 0, &ParseError{pos, fmt.Sprintf("bad number %q after %q", l, string(t))}
		}
		return n, nil
	}
	blob := func(k Kind) (Reply, int, bool, error) {
		n, e := num()
		if e != nil {
			return r, pos, false, e
		}
		if n < 0 {
			if k == KBulk && n == -1 {
				return Reply{K: KNil}, np, false, nil
			}
			return r, pos, false, &ParseError{pos, "negative length"}
		}
		end := np + int(n)
		if end+2 > len(b) {
			return r, pos, true, nil
		}
		if b[end] != '\r' || b[end+1] != '\n' {
			return r, pos, false, &ParseError{end, "blob not terminated by CRLF"}
		}
		return Reply{K: k, S: string(b[np:end])}, end + 2, false, nil
	}
	agg := func(k Kind, mult int) (Reply, int, bool, error) {
		n, e := num()
		if e != nil {
			return r, pos, false, e
		}
		if n < 0 {
			if k == KArray && n == -1 {
				return Reply{K: KNil}, np, false, nil
			}
			return r, pos, false, &ParseError{pos, "negative count"}
		}
		out := Reply{K: k, A: []Reply{}}
		p := np
		for i := int64(0); i < n*int64(mult); i++ {
			el, p2, inc, e := ParseOne(b, p)
			if e != nil || inc {
				return r, pos, inc, e
			}
			out.A = append(out.A, el)
			p = p2
		}
		return out, p, false, nil
	}
	switch t {
	case '+':
		return Reply{K: KStatus, S: l}, np, false, nil
	case '-':
		return Reply{K: KErr, S: l}, np, false, nil
	case ':':
		n, e := num()
		if e != nil {
			return r, pos, false, e
		}
		return Reply{K: KInt, I: n}, np, false, nil
	case '$':
		return blob(KBulk)
	case '!':
		return blob(KBlobErr)
	case '=':
		v, p, inc, e := blob(KVerbatim)
		if e == nil && !inc && (len(v.S) < 4 || v.S[3] != ':') {
			return r, pos, false, &ParseError{pos, "verbatim string without 3-letter format prefix"}
		}
		return v, p, inc, e
	case '*':
		return agg(KArray, 1)
	case '~':
		return agg(KSet, 1)
	case '>':
		return agg(KPush, 1)
	case '%':
		return agg(KMap, 2)
	case '|':
		return agg(KAttr, 2)
	case '_':
		if l != "" {
			return r, pos, false, &ParseError{pos, "junk after _"}
		}
		return Reply{K: KNil, Note: "resp3"}, np, false, nil
	case '#':
		switch l {
		case "t":
			return Reply{K: KBool, I: 1}, np, false, nil
		case "f":
			return Reply{K: KBool, I: 0}, np, false, nil
		}
		return r, pos, false, &ParseError{pos, "bad boolean"}
	case ',':
		var f float64
		switch l {
		case "inf":
			f = posInf
		case "-inf":
			f = negInf
		case "nan":
			f = nan
		default:
			var e error
			f, e = strconv.ParseFloat(l, 64)
			if e != nil {
				return r, pos, false, &ParseError{pos, "bad double " + l}
			}
		}
		return Reply{K: KDouble, F: f, S: l}, np, false, nil
	case '(':
		if l == "" {
			return r, pos, false, &ParseError{pos, "empty big number"}
		}
		for i, c := range l {
			if !(c >= '0' && c <= '9') && !(i == 0 && (c == '-' || c == '+')) {
				return r, pos, false, &ParseError{pos, "bad big number"}
			}
		}
		return Reply{K: KBigNum, S: l}, np, false, nil
	}
	return r, pos, false, &ParseError{pos, fmt.Sprintf("unknown type byte %q", string(t))}
}

// ParseAll parses a reply stream that must consist of complete values only.
func ParseAll(b []byte) ([]Reply, error) {
	var out []Reply
	p := 0
	for p < len(b) {
		r, np, inc, err := ParseOne(b, p)
		if err != nil {
			return out, err
		}
		if inc {
			return out, &ParseError{p, "truncated value at end of stream"}
		}
		out = append(out, r)
		p = np
	}
	return out, nil
}

// Parse1 parses a buffer that must hold exactly one value.
func Parse1(b []byte) (Reply, error) {
	rs, err := ParseAll(b)
	if err != nil {
		return Reply{}, err
	}
	if len(rs) != 1 {
		return Reply{}, &ParseError{0, fmt.Sprintf("expected exactly one value, got %d", len(rs))}
	}
	return rs[0], nil
}

// Encode builds a request: array of bulk strings.
func Encode(args ...string) []byte {
	var sb strings.Builder
	sb.WriteString("*" + strconv.Itoa(len(args)) + "\r\n")
	for _, a := range args {
		sb.WriteString("$" + strconv.Itoa(len(a)) + "\r\n")
		sb.WriteString(a)
		sb.WriteString("\r\n")
	}
	return []byte(sb.String())
}

// Canon returns a canonical string of an implementation reply in which unordered RESP3
// collections are sorted (used for state keys and multiset comparison).
func Canon(r Reply) string {
	switch r.K {
	case KSet, KUSet:
		parts := make([]string, len(r.A))
		for i, e := range r.A {
			parts[i] = Canon(e)
		}
		sort.Strings(parts)
		return "{" + strings.Join(parts, ",") + "}"
	case KMap, KUMap:
		var parts []string
		for i := 0; i+1 < len(r.A); i += 2 {
			parts = append(parts, Canon(r.A[i])+"=>"+Canon(r.A[i+1]))
		}
		sort.Strings(parts)
		return "%{" + strings.Join(parts, ",") + "}"
	case KArray, KPush, KPairs:
		parts := make([]string, len(r.A))
		for i, e := range r.A {
			parts[i] = Canon(e)
		}
		return "[" + strings.Join(parts, ",") + "]"
	}
	return r.String()
}
