package verifmodel

import (
	"math/big"
	"strings"
)

// Bitmap commands on a big-endian bit array: bit i of the string is bit (7 - i%8) of byte i/8.
// Field arithmetic is done with math/big so that the reference shares nothing with the
// implementation's shifting and masking code.

func init() {
	reg("setbit", 4, 4, mSetBit)
	reg("getbit", 3, 3, mGetBit)
	reg("bitcount", 2, 5, mBitCount)
	reg("bitpos", 3, 6, mBitPos)
	reg("bitop", 4, -1, mBitOp)
	reg("bitfield", 2, -1, func(m *Model, s *Session, a []string) Reply { return m.bitfield(s, a, false) })
	reg("bitfield_ro", 2, -1, func(m *Model, s *Session, a []string) Reply { return m.bitfield(s, a, true) })
}

var errBitOffset = Err("ERR bit offset is not an integer or out of range")

func getBitAt(b []byte, i int64) int {
	if i>>3 >= int64(len(b)) {
		return 0
	}
	return int(b[i>>3]>>(7-uint(i&7))) & 1
}

func setBitAt(b []byte, i int64, v int) {
	mask := byte(1) << (7 - uint(i&7))
	if v != 0 {
		b[i>>3] |= mask
	} else {
		b[i>>3] &^= mask
	}
}

func grow(s string, n int64) []byte {
	b := []byte(s)
	for int64(len(b)) < n {
		b = append(b, 0)
	}
	return b
}

func mSetBit(m *Model, s *Session, a []string) Reply {
	off, ok := parseInt(a[2])
	if !ok || off < 0 || off >= 1<<32 {
		return errBitOffset
	}
	v, ok := parseInt(a[3])
	if !ok || (v != 0 && v != 1) {
		return Err("ERR bit is not an integer or out of range")
	}
	o, wt := m.typed(s.DB, a[1], 's')
	if wt {
		return errWrongType
	}
	if o == nil {
		o = &Obj{T: 's'}
	}
	b := grow(o.S, off>>3+1)
	old := getBitAt(b, off)
	setBitAt(b, off, int(v))
	o.S = string(b)
	m.set(s.DB, a[1], o)
	return Int(int64(old))
}

func mGetBit(m *Model, s *Session, a []string) Reply {
	off, ok := parseInt(a[2])
	if !ok || off < 0 || off >= 1<<32 {
		return errBitOffset
	}
	o, wt := m.typed(s.DB, a[1], 's')
	if wt {
		return errWrongType
	}
	if o == nil {
		return Int(0)
	}
	return Int(int64(getBitAt([]byte(o.S), off)))
}

func parseUnit(s string) (isBit bool, ok bool) {
	switch strings.ToLower(s) {
	case "bit":
		return true, true
	case "byte":
		return false, true
	}
	return false, false
}

func mBitCount(m *Model, s *Session, a []string) Reply {
	o, wt := m.typed(s.DB, a[1], 's')
	if wt {
		return errWrongType
	}
	if o == nil {
		// Redis answers 0 for a missing key before looking at the range arguments; rejecting
		// malformed arguments first is accepted too
		bad := len(a) == 3
		if len(a) >= 4 {
			_, ok1 := parseInt(a[2])
			_, ok2 := parseInt(a[3])
			bad = !ok1 || !ok2
		}
		if len(a) == 5 {
			if _, ok := parseUnit(a[4]); !ok {
				bad = true
			}
		}
		if bad {
			return Pred("0 or error", func(r Reply) bool { return (r.K == KInt && r.I == 0) || r.IsErr() })
		}
		return Int(0)
	}
	b := []byte(o.S)
	tot := int64(len(b))
	start, end := int64(0), tot-1
	isBit := false
	switch len(a) {
	case 2:
	case 4, 5:
		var ok1, ok2 bool
		start, ok1 = parseInt(a[2])
		end, ok2 = parseInt(a[3])
		if !ok1 || !ok2 {
			return errNotInt
		}
		if len(a) == 5 {
			var ok bool
			isBit, ok = parseUnit(a[4])
			if !ok {
				return errSyntax
			}
		}
		if start < 0 && end < 0 && start > end {
			return Int(0)
		}
		if isBit {
			tot <<= 3
		}
		if start < 0 {
			start += tot
		}
		if end < 0 {
			end += tot
		}
		if start < 0 {
			start = 0
		}
		if end < 0 {
			end = 0
		}
		if end >= tot {
			end = tot - 1
		}
	default:
		return errSyntax
	}
	if start > end {
		return Int(0)
	}
	lo, hi := start, end
	if !isBit {
		lo, hi = start*8, end*8+7
	}
	n := int64(0)
	for i := lo; i <= hi; i++ {
		n += int64(getBitAt(b, i))
	}
	return Int(n)
}

func mBitPos(m *Model, s *Session, a []string) Reply {
	bit, ok := parseInt(a[2])
	if !ok {
		return errNotInt
	}
	if bit != 0 && bit != 1 {
		return Err("ERR The bit argument must be 1 or 0.")
	}
	o, wt := m.typed(s.DB, a[1], 's')
	if o == nil && !wt {
		want := int64(0)
		if bit == 1 {
			want = -1
		}
		bad := false
		for i := 3; i < len(a) && i < 5; i++ {
			if _, ok := parseInt(a[i]); !ok {
				bad = true
			}
		}
		if len(a) == 6 {
			if _, ok := parseUnit(a[5]); !ok {
				bad = true
			}
		}
		if bad {
			return Pred("missing key answer or error", func(r Reply) bool { return (r.K == KInt && r.I == want) || r.IsErr() })
		}
		return Int(want)
	}
	if wt {
		return errWrongType
	}
	b := []byte(o.S)
	tot := int64(len(b))
	start, end := int64(0), tot-1
	endGiven, isBit := false, false
	if len(a) >= 4 {
		var ok bool
		start, ok = parseInt(a[3])
		if !ok {
			return errNotInt
		}
		if len(a) == 6 {
			isBit, ok = parseUnit(a[5])
			if !ok {
				return errSyntax
			}
		}
		if len(a) >= 5 {
			end, ok = parseInt(a[4])
			if !ok {
				return errNotInt
			}
			endGiven = true
		}
		if isBit {
			tot <<= 3
		}
		if start < 0 {
			start += tot
		}
		if end < 0 {
			end += tot
		}
		if start < 0 {
			start = 0
		}
		if end < 0 {
			end = 0
		}
		if end >= tot {
			end = tot - 1
		}
	}
	if start > end {
		return Int(-1)
	}
	lo, hi := start, end
	if !isBit {
		lo, hi = start*8, end*8+7
	}
	for i := lo; i <= hi; i++ {
		if int64(getBitAt(b, i)) == bit {
			return Int(i)
		}
	}
	if bit == 1 || endGiven {
		return Int(-1)
	}
	// looking for a clear bit without an explicit end: the string is zero padded on the right
	return Int(hi + 1)
}

func mBitOp(m *Model, s *Session, a []string) Reply {
	op := strings.ToLower(a[1])
	switch op {
	case "and", "or", "xor", "not":
	default:
		return errSyntax
	}
	if op == "not" && len(a) != 4 {
		return Err("ERR BITOP NOT must be called with a single source key.")
	}
	var srcs [][]byte
	maxLen := 0
	for _, k := range a[3:] {
		o, wt := m.typed(s.DB, k, 's')
		if wt {
			return errWrongType
		}
		var b []byte
		if o != nil {
			b = []byte(o.S)
		}
		if len(b) > maxLen {
			maxLen = len(b)
		}
		srcs = append(srcs, b)
	}
	if maxLen == 0 {
		m.del(s.DB, a[2])
		return Int(0)
	}
	res := make([]byte, maxLen)
	at := func(b []byte, i int) byte {
		if i < len(b) {
			return b[i]
		}
		return 0
	}
	for i := 0; i < maxLen; i++ {
		v := at(srcs[0], i)
		switch op {
		case "not":
			v = ^v
		default:
			for _, sb := range srcs[1:] {
				switch op {
				case "and":
					v &= at(sb, i)
				case "or":
					v |= at(sb, i)
				case "xor":
					v ^= at(sb, i)
				}
			}
		}
		res[i] = v
	}
	m.set(s.DB, a[2], &Obj{T: 's', S: string(res)})
	return Int(int64(maxLen))
}

type bfOp struct {
	kind   string // get set incrby
	signed bool
	bits   int64
	off    int64
	val    int64
	ovf    string
}

func parseBfType(t string) (signed bool, bits int64, ok bool) {
	if len(t) < 2 {
		return
	}
	switch t[0] {
	case 'i', 'I':
		signed = true
	case 'u', 'U':
	default:
		return
	}
	n, good := parseInt(t[1:])
	if !good {
		return
	}
	if (signed && (n < 1 || n > 64)) || (!signed && (n < 1 || n > 63)) {
		return
	}
	return signed, n, true
}

func parseBfOffset(o string, bits int64) (int64, bool) {
	mult := int64(1)
	if strings.HasPrefix(o, "#") {
		o = o[1:]
		mult = bits
	}
	n, ok := parseInt(o)
	if !ok || n < 0 {
		return 0, false
	}
	if n > (1<<32)/mult+1 {
		return 0, false
	}
	n *= mult
	if n+bits > 1<<32 {
		return 0, false
	}
	return n, true
}

func (m *Model) bitfield(s *Session, a []string, ro bool) Reply {
	var ops []bfOp
	ovf := "wrap"
	readonly := true
	highest := int64(-1)
	for i := 2; i < len(a); {
		sub := strings.ToLower(a[i])
		switch sub {
		case "overflow":
			if i+1 >= len(a) {
				return errSyntax
			}
			switch strings.ToLower(a[i+1]) {
			case "wrap", "sat", "fail":
				ovf = strings.ToLower(a[i+1])
			default:
				return Err("ERR Invalid OVERFLOW type specified")
			}
			i += 2
			continue
		case "get", "set", "incrby":
			need := 3
			if sub != "get" {
				need = 4
			}
			if i+need > len(a) {
				return errSyntax
			}
			signed, bits, ok := parseBfType(a[i+1])
			if !ok {
				return Err("ERR Invalid bitfield type. Use something like i16 u8. Note that u64 is not supported but i64 is.")
			}
			off, ok := parseBfOffset(a[i+2], bits)
			if !ok {
				return errBitOffset
			}
			op := bfOp{kind: sub, signed: signed, bits: bits, off: off, ovf: ovf}
			if sub != "get" {
				v, ok := parseInt(a[i+3])
				if !ok {
					return errNotInt
				}
				op.val = v
				readonly = false
				if off+bits-1 > highest {
					highest = off + bits - 1
				}
			}
			ops = append(ops, op)
			i += need
		default:
			return errSyntax
		}
	}
	if ro && !readonly {
		return Err("ERR BITFIELD_RO only supports the GET subcommand")
	}
	o, wt := m.typed(s.DB, a[1], 's')
	if wt {
		return errWrongType
	}
	var b []byte
	if o != nil {
		b = []byte(o.S)
	}
	if !readonly {
		if o == nil {
			o = &Obj{T: 's'}
		}
		b = grow(string(b), highest>>3+1)
	}
	one := big.NewInt(1)
	read := func(op bfOp) *big.Int {
		v := new(big.Int)
		for i := int64(0); i < op.bits; i++ {
			v.Lsh(v, 1)
			if getBitAt(b, op.off+i) == 1 {
				v.Or(v, one)
			}
		}
		if op.signed && v.Bit(int(op.bits-1)) == 1 {
			v.Sub(v, new(big.Int).Lsh(one, uint(op.bits)))
		}
		return v
	}
	write := func(op bfOp, v *big.Int) {
		// two's complement representation in op.bits bits
		u := new(big.Int).Set(v)
		mod := new(big.Int).Lsh(one, uint(op.bits))
		u.Mod(u, mod)
		for i := int64(0); i < op.bits; i++ {
			setBitAt(b, op.off+i, int(u.Bit(int(op.bits-1-i))))
		}
	}
	limits := func(op bfOp) (*big.Int, *big.Int) {
		if op.signed {
			max := new(big.Int).Sub(new(big.Int).Lsh(one, uint(op.bits-1)), one)
			min := new(big.Int).Neg(new(big.Int).Lsh(one, uint(op.bits-1)))
			return min, max
		}
		return big.NewInt(0), new(big.Int).Sub(new(big.Int).Lsh(one, uint(op.bits)), one)
	}
	// fit applies the overflow policy to an exact result; returns (value, failed)
	fit := func(op bfOp, exact *big.Int) (*big.Int, bool) {
		min, max := limits(op)
		if exact.Cmp(min) >= 0 && exact.Cmp(max) <= 0 {
			return exact, false
		}
		switch op.ovf {
		case "fail":
			return nil, true
		case "sat":
			if exact.Cmp(max) > 0 {
				return max, false
			}
			return min, false
		}
		mod := new(big.Int).Lsh(one, uint(op.bits))
		w := new(big.Int).Mod(exact, mod)
		if op.signed && w.Bit(int(op.bits-1)) == 1 {
			w.Sub(w, mod)
		}
		return w, false
	}
	var out []Reply
	for _, op := range ops {
		old := read(op)
		switch op.kind {
		case "get":
			out = append(out, Int(old.Int64()))
		case "set":
			// the value argument is a signed 64-bit integer; for unsigned fields Redis looks at its
			// bit pattern as an unsigned number
			exact := big.NewInt(op.val)
			if !op.signed && op.val < 0 {
				exact.Add(exact, new(big.Int).Lsh(one, 64))
			}
			nv, failed := fit(op, exact)
			if failed {
				out = append(out, Nil())
				continue
			}
			write(op, nv)
			out = append(out, Int(old.Int64()))
		case "incrby":
			exact := new(big.Int).Add(old, big.NewInt(op.val))
			nv, failed := fit(op, exact)
			if failed {
				out = append(out, Nil())
				continue
			}
			write(op, nv)
			out = append(out, Int(nv.Int64()))
		}
	}
	if !readonly {
		o.S = string(b)
		m.set(s.DB, a[1], o)
	}
	return Arr(out...)
}
