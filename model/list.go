package verifmodel

import "strings"

func init() {
	reg("lpush", 3, -1, func(m *Model, s *Session, a []string) Reply { return m.push(s, a, true, false) })
	reg("rpush", 3, -1, func(m *Model, s *Session, a []string) Reply { return m.push(s, a, false, false) })
	reg("lpushx", 3, -1, func(m *Model, s *Session, a []string) Reply { return m.push(s, a, true, true) })
	reg("rpushx", 3, -1, func(m *Model, s *Session, a []string) Reply { return m.push(s, a, false, true) })
	reg("lpop", 2, 3, func(m *Model, s *Session, a []string) Reply { return m.pop(s, a, true) })
	reg("rpop", 2, 3, func(m *Model, s *Session, a []string) Reply { return m.pop(s, a, false) })
	reg("llen", 2, 2, mLLen)
	reg("lindex", 3, 3, mLIndex)
	reg("lrange", 4, 4, mLRange)
	reg("lset", 4, 4, mLSet)
	reg("linsert", 5, 5, mLInsert)
	reg("lrem", 4, 4, mLRem)
	reg("ltrim", 4, 4, mLTrim)
	reg("lpos", 3, -1, mLPos)
	reg("lmove", 5, 5, mLMove)
	reg("rpoplpush", 3, 3, func(m *Model, s *Session, a []string) Reply {
		return m.lmove(s, a[1], a[2], false, true)
	})
	reg("lmpop", 4, -1, mLMPop)
}

func (m *Model) push(s *Session, a []string, left, onlyIfExists bool) Reply {
	o, wt := m.typed(s.DB, a[1], 'l')
	if wt {
		return errWrongType
	}
	if o == nil {
		if onlyIfExists {
			return Int(0)
		}
		o = &Obj{T: 'l'}
	}
	for _, v := range a[2:] {
		if left {
			o.L = append([]string{v}, o.L...)
		} else {
			o.L = append(o.L, v)
		}
	}
	m.set(s.DB, a[1], o)
	return Int(int64(len(o.L)))
}

func (m *Model) pop(s *Session, a []string, left bool) Reply {
	hasCount := len(a) == 3
	count := int64(1)
	if hasCount {
		c, ok := parseInt(a[2])
		if !ok || c < 0 {
			return Err("ERR value is out of range, must be positive")
		}
		count = c
	}
	o, wt := m.typed(s.DB, a[1], 'l')
	if wt {
		return errWrongType
	}
	if o == nil {
		return Nil()
	}
	if !hasCount {
		var v string
		if left {
			v, o.L = o.L[0], o.L[1:]
		} else {
			v, o.L = o.L[len(o.L)-1], o.L[:len(o.L)-1]
		}
		m.touch(s.DB, a[1])
		m.dropIfEmpty(s.DB, a[1])
		return Bulk(v)
	}
	if count == 0 {
		return Arr()
	}
	var out []Reply
	for i := int64(0); i < count && len(o.L) > 0; i++ {
		var v string
		if left {
			v, o.L = o.L[0], o.L[1:]
		} else {
			v, o.L = o.L[len(o.L)-1], o.L[:len(o.L)-1]
		}
		out = append(out, Bulk(v))
	}
	m.touch(s.DB, a[1])
	m.dropIfEmpty(s.DB, a[1])
	return Arr(out...)
}

func mLLen(m *Model, s *Session, a []string) Reply {
	o, wt := m.typed(s.DB, a[1], 'l')
	if wt {
		return errWrongType
	}
	if o == nil {
		return Int(0)
	}
	return Int(int64(len(o.L)))
}

func mLIndex(m *Model, s *Session, a []string) Reply {
	idx, ok := parseInt(a[2])
	o, wt := m.typed(s.DB, a[1], 'l')
	if wt {
		return errWrongType
	}
	if !ok {
		return errNotInt
	}
	if o == nil {
		return Nil()
	}
	n := int64(len(o.L))
	if idx < 0 {
		idx += n
	}
	if idx < 0 || idx >= n {
		return Nil()
	}
	return Bulk(o.L[idx])
}

func mLRange(m *Model, s *Session, a []string) Reply {
	start, ok1 := parseInt(a[2])
	stop, ok2 := parseInt(a[3])
	if !ok1 || !ok2 {
		return errNotInt
	}
	o, wt := m.typed(s.DB, a[1], 'l')
	if wt {
		return errWrongType
	}
	if o == nil {
		return Arr()
	}
	n := int64(len(o.L))
	if start < 0 {
		start += n
	}
	if stop < 0 {
		stop += n
	}
	if start < 0 {
		start = 0
	}
	if start > stop || start >= n {
		return Arr()
	}
	if stop >= n {
		stop = n - 1
	}
	return BulkArr(o.L[start : stop+1]...)
}

func mLSet(m *Model, s *Session, a []string) Reply {
	idx, ok := parseInt(a[2])
	o, wt := m.typed(s.DB, a[1], 'l')
	if o == nil && !wt {
		return errNoKey
	}
	if wt {
		return errWrongType
	}
	if !ok {
		return errNotInt
	}
	n := int64(len(o.L))
	if idx < 0 {
		idx += n
	}
	if idx < 0 || idx >= n {
		return Err("ERR index out of range")
	}
	o.L[idx] = a[3]
	m.touch(s.DB, a[1])
	return OK()
}

func mLInsert(m *Model, s *Session, a []string) Reply {
	var before bool
	switch strings.ToLower(a[2]) {
	case "before":
		before = true
	case "after":
	default:
		return errSyntax
	}
	o, wt := m.typed(s.DB, a[1], 'l')
	if wt {
		return errWrongType
	}
	if o == nil {
		return Int(0)
	}
	for i, v := range o.L {
		if v == a[3] {
			pos := i
			if !before {
				pos = i + 1
			}
			nl := append([]string{}, o.L[:pos]...)
			nl = append(nl, a[4])
			nl = append(nl, o.L[pos:]...)
			o.L = nl
			m.touch(s.DB, a[1])
			return Int(int64(len(o.L)))
		}
	}
	return Int(-1)
}

func mLRem(m *Model, s *Session, a []string) Reply {
	count, ok := parseInt(a[2])
	if !ok {
		return errNotInt
	}
	o, wt := m.typed(s.DB, a[1], 'l')
	if wt {
		return errWrongType
	}
	if o == nil {
		return Int(0)
	}
	removed := int64(0)
	var nl []string
	if count >= 0 {
		for _, v := range o.L {
			if v == a[3] && (count == 0 || removed < count) {
				removed++
				continue
			}
			nl = append(nl, v)
		}
	} else {
		for i := len(o.L) - 1; i >= 0; i-- {
			v := o.L[i]
			if v == a[3] && removed < -count {
				removed++
				continue
			}
			nl = append([]string{v}, nl...)
		}
	}
	if removed > 0 {
		o.L = nl
		m.touch(s.DB, a[1])
		m.dropIfEmpty(s.DB, a[1])
	}
	return Int(removed)
}

func mLTrim(m *Model, s *Session, a []string) Reply {
	start, ok1 := parseInt(a[2])
	stop, ok2 := parseInt(a[3])
	if !ok1 || !ok2 {
		return errNotInt
	}
	o, wt := m.typed(s.DB, a[1], 'l')
	if wt {
		return errWrongType
	}
	if o == nil {
		return OK()
	}
	n := int64(len(o.L))
	if start < 0 {
		start += n
	}
	if stop < 0 {
		stop += n
	}
	if start < 0 {
		start = 0
	}
	if start > stop || start >= n {
		o.L = nil
	} else {
		if stop >= n {
			stop = n - 1
		}
		o.L = append([]string{}, o.L[start:stop+1]...)
	}
	if int64(len(o.L)) != n {
		m.touch(s.DB, a[1])
	}
	m.dropIfEmpty(s.DB, a[1])
	return OK()
}

func mLPos(m *Model, s *Session, a []string) Reply {
	rank, count, maxlen := int64(1), int64(-1), int64(0)
	for i := 3; i < len(a); i += 2 {
		if i+1 >= len(a) {
			return errSyntax
		}
		v, ok := parseInt(a[i+1])
		switch strings.ToLower(a[i]) {
		case "rank":
			if !ok {
				return errNotInt
			}
			if v == 0 {
				return Err("ERR RANK can't be zero: use 1 to start from the first match, 2 from the second ... or use negative to start from the end of the list")
			}
			if v == -9223372036854775808 {
				return Err("ERR value is out of range")
			}
			rank = v
		case "count":
			if !ok || v < 0 {
				return Err("ERR COUNT can't be negative")
			}
			count = v
		case "maxlen":
			if !ok || v < 0 {
				return Err("ERR MAXLEN can't be negative")
			}
			maxlen = v
		default:
			return errSyntax
		}
	}
	o, wt := m.typed(s.DB, a[1], 'l')
	if wt {
		return errWrongType
	}
	if o == nil {
		if count != -1 {
			return Arr()
		}
		return Nil()
	}
	n := int64(len(o.L))
	var matches []Reply
	matchcount := int64(0)
	idx := int64(0)
	step := int64(1)
	if rank < 0 {
		idx, step = n-1, -1
	}
	r := rank
	if r < 0 {
		r = -r
	}
	seen := int64(0)
	for idx >= 0 && idx < n && (maxlen == 0 || seen < maxlen) {
		if o.L[idx] == a[2] {
			matchcount++
			if matchcount >= r {
				matches = append(matches, Int(idx))
				if count == -1 || (count != 0 && int64(len(matches)) >= count) {
					break
				}
			}
		}
		idx += step
		seen++
	}
	if count != -1 {
		return Arr(matches...)
	}
	if len(matches) == 0 {
		return Nil()
	}
	return matches[0]
}

func parseLR(s string) (left bool, ok bool) {
	switch strings.ToLower(s) {
	case "left":
		return true, true
	case "right":
		return false, true
	}
	return false, false
}

func mLMove(m *Model, s *Session, a []string) Reply {
	sl, ok1 := parseLR(a[3])
	dl, ok2 := parseLR(a[4])
	if !ok1 || !ok2 {
		return errSyntax
	}
	return m.lmove(s, a[1], a[2], sl, dl)
}

func (m *Model) lmove(s *Session, src, dst string, srcLeft, dstLeft bool) Reply {
	so, wt := m.typed(s.DB, src, 'l')
	if wt {
		return errWrongType
	}
	if so == nil {
		return Nil()
	}
	if _, wt := m.typed(s.DB, dst, 'l'); wt {
		return errWrongType
	}
	var v string
	if srcLeft {
		v, so.L = so.L[0], so.L[1:]
	} else {
		v, so.L = so.L[len(so.L)-1], so.L[:len(so.L)-1]
	}
	m.touch(s.DB, src)
	if src == dst {
		// rotation: Redis pushes before it looks whether the source became empty, so the key
		// (and its expiry) survives even for a single element
		if dstLeft {
			so.L = append([]string{v}, so.L...)
		} else {
			so.L = append(so.L, v)
		}
		return Bulk(v)
	}
	m.dropIfEmpty(s.DB, src)
	do := m.get(s.DB, dst)
	if do == nil {
		do = &Obj{T: 'l'}
	}
	if dstLeft {
		do.L = append([]string{v}, do.L...)
	} else {
		do.L = append(do.L, v)
	}
	m.set(s.DB, dst, do)
	return Bulk(v)
}

// LMPOP numkeys key [key ...] LEFT|RIGHT [COUNT count]
func mLMPop(m *Model, s *Session, a []string) Reply {
	keys, left, count, e := parseMPop(a, 1)
	if e != nil {
		return *e
	}
	return m.lmpop(s, keys, left, count)
}

func parseMPop(a []string, at int) (keys []string, left bool, count int64, e *Reply) {
	fail := func(r Reply) ([]string, bool, int64, *Reply) { return nil, false, 0, &r }
	nk, ok := parseInt(a[at])
	if !ok || nk <= 0 {
		return fail(Err("ERR numkeys should be greater than 0"))
	}
	if int64(len(a)) < int64(at)+1+nk+1 {
		return fail(errSyntax)
	}
	keys = a[at+1 : at+1+int(nk)]
	rest := a[at+1+int(nk):]
	l, ok := parseLR(rest[0])
	if !ok {
		return fail(errSyntax)
	}
	count = 1
	rest = rest[1:]
	if len(rest) > 0 {
		if len(rest) != 2 || !eqFold(rest[0], "count") {
			return fail(errSyntax)
		}
		c, ok := parseInt(rest[1])
		if !ok || c <= 0 {
			return fail(Err("ERR count should be greater than 0"))
		}
		count = c
	}
	return keys, l, count, nil
}

func (m *Model) lmpop(s *Session, keys []string, left bool, count int64) Reply {
	for _, k := range keys {
		o, wt := m.typed(s.DB, k, 'l')
		if wt {
			return errWrongType
		}
		if o == nil {
			continue
		}
		var out []Reply
		for i := int64(0); i < count && len(o.L) > 0; i++ {
			var v string
			if left {
				v, o.L = o.L[0], o.L[1:]
			} else {
				v, o.L = o.L[len(o.L)-1], o.L[:len(o.L)-1]
			}
			out = append(out, Bulk(v))
		}
		m.touch(s.DB, k)
		m.dropIfEmpty(s.DB, k)
		return Arr(Bulk(k), Arr(out...))
	}
	return Nil()
}
