package verifmodel

import (
	"fmt"
	"sort"
	"strconv"
	"strings"
)

// Obj is the value of one key. Exactly one of the payloads is used, selected by T.
type Obj struct {
	T   byte // 's' string, 'l' list, 'h' hash, 'z' set
	S   string
	L   []string
	H   map[string]string
	Z   map[string]bool
	Exp int64 // absolute deadline in unix milliseconds; 0 = no expiry
}

func (o *Obj) clone() *Obj {
	c := &Obj{T: o.T, S: o.S, Exp: o.Exp}
	if o.L != nil {
		c.L = append([]string{}, o.L...)
	}
	if o.H != nil {
		c.H = make(map[string]string, len(o.H))
		for k, v := range o.H {
			c.H[k] = v
		}
	}
	if o.Z != nil {
		c.Z = make(map[string]bool, len(o.Z))
		for k := range o.Z {
			c.Z[k] = true
		}
	}
	return c
}

func (o *Obj) TypeName() string {
	switch o.T {
	case 's':
		return "string"
	case 'l':
		return "list"
	case 'h':
		return "hash"
	case 'z':
		return "set"
	}
	return "none"
}

func (o *Obj) size() int {
	switch o.T {
	case 'l':
		return len(o.L)
	case 'h':
		return len(o.H)
	case 'z':
		return len(o.Z)
	}
	return len(o.S)
}

type wkey struct {
	db  int
	key string
}

// Session is the per-connection state.
type Session struct {
	DB      int
	Proto   int
	Name    string
	Multi   bool
	Queue   [][]string
	QDB     []int // database bound to each queued command at queue time
	Abort   bool  // a command was rejected while queueing
	Watch   map[wkey]bool
	WSnap   map[wkey]string // what each watched key looked like when it was first watched
	WDirty  bool            // some watched key was modified
	Blocked bool // connection is parked in a blocking command (model-level)
	LibName string
	LibVer  string
	NoEvict bool
}

const NumDBs = 16

// Model is the reference state: 16 databases, sessions, a clock.
type Model struct {
	DBs  [NumDBs]map[string]*Obj
	Sess []*Session
	Now  int64 // unix ms
	// Opt tunes which documented Redis variants are followed where the property text leaves room.
	// Unspec counts comparisons skipped because Redis behaviour is unspecified/build dependent.
	Unspec int
	// touched keys of the last command (for WATCH cross-checks and TTL rules)
	lastTouched []wkey
	inExec      bool
	// Lazy counts keys that disappeared through expiry (deadline passed, or a deadline in the past
	// was set). Redis reclaims such keys at its own pace, so DBSIZE may still count them.
	Lazy int
}

func NewModel(nowMs int64) *Model {
	m := &Model{Now: nowMs}
	for i := range m.DBs {
		m.DBs[i] = map[string]*Obj{}
	}
	return m
}

func (m *Model) NewSession() int {
	m.Sess = append(m.Sess, &Session{Proto: 2, Watch: map[wkey]bool{}})
	return len(m.Sess) - 1
}

func (m *Model) Clone() *Model {
	c := &Model{Now: m.Now, Lazy: m.Lazy, Unspec: m.Unspec}
	for i := range m.DBs {
		c.DBs[i] = make(map[string]*Obj, len(m.DBs[i]))
		for k, o := range m.DBs[i] {
			c.DBs[i][k] = o.clone()
		}
	}
	for _, s := range m.Sess {
		ns := *s
		ns.Queue = append([][]string{}, s.Queue...)
		ns.QDB = append([]int{}, s.QDB...)
		ns.Watch = make(map[wkey]bool, len(s.Watch))
		for k, v := range s.Watch {
			ns.Watch[k] = v
		}
		ns.WSnap = make(map[wkey]string, len(s.WSnap))
		for k, v := range s.WSnap {
			ns.WSnap[k] = v
		}
		c.Sess = append(c.Sess, &ns)
	}
	return c
}

// Key is the canonical serialisation of the state (sorted; deadlines relative to Now).
func (m *Model) Key() string {
	var sb strings.Builder
	for i := range m.DBs {
		if len(m.DBs[i]) == 0 {
			continue
		}
		fmt.Fprintf(&sb, "db%d{", i)
		keys := make([]string, 0, len(m.DBs[i]))
		for k := range m.DBs[i] {
			keys = append(keys, k)
		}
		sort.Strings(keys)
		for _, k := range keys {
			o := m.DBs[i][k]
			if o.Exp != 0 && o.Exp <= m.Now {
				continue
			}
			fmt.Fprintf(&sb, "%q:%c", k, o.T)
			switch o.T {
			case 's':
				fmt.Fprintf(&sb, "%q", o.S)
			case 'l':
				fmt.Fprintf(&sb, "%q", o.L)
			case 'h':
				fs := make([]string, 0, len(o.H))
				for f, v := range o.H {
					fs = append(fs, strconv.Quote(f)+"="+strconv.Quote(v))
				}
				sort.Strings(fs)
				sb.WriteString("{" + strings.Join(fs, ",") + "}")
			case 'z':
				fs := make([]string, 0, len(o.Z))
				for f := range o.Z {
					fs = append(fs, strconv.Quote(f))
				}
				sort.Strings(fs)
				sb.WriteString("{" + strings.Join(fs, ",") + "}")
			}
			if o.Exp != 0 {
				fmt.Fprintf(&sb, "@+%d", o.Exp-m.Now)
			}
			sb.WriteByte(';')
		}
		sb.WriteByte('}')
	}
	for i, s := range m.Sess {
		fmt.Fprintf(&sb, "|s%d:db%d,p%d,n%q", i, s.DB, s.Proto, s.Name)
		if s.Multi {
			fmt.Fprintf(&sb, ",multi%q%v,abort=%v", s.Queue, s.QDB, s.Abort)
		}
		if len(s.Watch) > 0 {
			ws := make([]string, 0, len(s.Watch))
			for w := range s.Watch {
				ws = append(ws, fmt.Sprintf("%d/%q", w.db, w.key))
			}
			sort.Strings(ws)
			fmt.Fprintf(&sb, ",watch%v,wd=%v", ws, s.WDirty)
		}
		if s.Blocked {
			sb.WriteString(",blocked")
		}
	}
	return sb.String()
}

// purge drops keys whose deadline has passed (Redis: a key is gone from its deadline on).
func (m *Model) purge() {
	for i := range m.DBs {
		for k, o := range m.DBs[i] {
			if o.Exp != 0 && o.Exp <= m.Now {
				delete(m.DBs[i], k)
				m.touch(i, k)
				m.Lazy++
			}
		}
	}
}

// Expired reports whether key would be dropped by purge (used by harnesses before advancing).
func (m *Model) touch(db int, key string) {
	m.lastTouched = append(m.lastTouched, wkey{db, key})
	for _, s := range m.Sess {
		if s.Watch[wkey{db, key}] {
			s.WDirty = true
		}
	}
}

// Touched returns the keys (db,key) the last Exec modified.
func (m *Model) Touched() [][2]string {
	out := make([][2]string, 0, len(m.lastTouched))
	for _, w := range m.lastTouched {
		out = append(out, [2]string{strconv.Itoa(w.db), w.key})
	}
	return out
}

func (m *Model) get(db int, key string) *Obj { return m.DBs[db][key] }

// keySnap renders the complete observable state of one key (value and deadline).
func (m *Model) keySnap(db int, key string) string {
	o := m.DBs[db][key]
	if o == nil || (o.Exp != 0 && o.Exp <= m.Now) {
		return "none"
	}
	var h, z []string
	for k, v := range o.H {
		h = append(h, k+"="+v)
	}
	for k := range o.Z {
		z = append(z, k)
	}
	sort.Strings(h)
	sort.Strings(z)
	return fmt.Sprintf("%c|%q|%q|%q|%q|exp=%d", o.T, o.S, o.L, h, z, o.Exp)
}

// WatchTag classifies the watch state of a session for finding signatures: a transaction whose
// watched keys were all modified AND put back to what they were when watched is the one case the
// implementation's stamp comparison cannot see (recorded as a known finding of C10).
func (m *Model) WatchTag(sess int) string {
	s := m.Sess[sess]
	switch {
	case len(s.Watch) == 0:
		return "nowatch"
	case !s.WDirty:
		return "watch-clean"
	}
	for w := range s.Watch {
		if m.keySnap(w.db, w.key) != s.WSnap[w] {
			return "watch-dirty"
		}
	}
	return "watch-dirty-but-restored"
}

func (m *Model) del(db int, key string) bool {
	if _, ok := m.DBs[db][key]; ok {
		delete(m.DBs[db], key)
		m.touch(db, key)
		return true
	}
	return false
}

func (m *Model) set(db int, key string, o *Obj) {
	m.DBs[db][key] = o
	m.touch(db, key)
}

// dropIfEmpty removes an aggregate that became empty.
func (m *Model) dropIfEmpty(db int, key string) {
	if o := m.DBs[db][key]; o != nil && o.T != 's' && o.size() == 0 {
		delete(m.DBs[db], key)
	}
}

var (
	errWrongType = Err("WRONGTYPE Operation against a key holding the wrong kind of value")
	errSyntax    = Err("ERR syntax error")
	errNotInt    = Err("ERR value is not an integer or out of range")
	errNotFloat  = Err("ERR value is not a valid float")
	errNoKey     = Err("ERR no such key")
	errOverflow  = Err("ERR increment or decrement would overflow")
)

func errArity(cmd string) Reply {
	return Err("ERR wrong number of arguments for '" + strings.ToLower(cmd) + "' command")
}

type handler func(m *Model, s *Session, a []string) Reply

type cmdInfo struct {
	fn       handler
	minArgs  int  // including the command name
	maxArgs  int  // -1 = unbounded
	write    bool // may modify data (informational)
	noMulti  bool // control command: executed immediately inside MULTI
	blocking bool
}

var cmdTable = map[string]*cmdInfo{}

func reg(name string, min, max int, fn handler) *cmdInfo {
	ci := &cmdInfo{fn: fn, minArgs: min, maxArgs: max}
	cmdTable[name] = ci
	return ci
}

// Known reports whether the model implements the command (case-insensitive).
func Known(name string) bool { _, ok := cmdTable[strings.ToLower(name)]; return ok }

// Exec runs one command on behalf of session si and returns the expected reply.
func (m *Model) Exec(si int, args []string) Reply {
	m.lastTouched = m.lastTouched[:0]
	m.purge()
	s := m.Sess[si]
	if len(args) == 0 {
		return Err("ERR empty command")
	}
	name := strings.ToLower(args[0])
	ci, ok := cmdTable[name]
	var early *Reply
	if !ok {
		r := Err("ERR unknown command '" + args[0] + "'")
		early = &r
	} else if len(args) < ci.minArgs || (ci.maxArgs >= 0 && len(args) > ci.maxArgs) {
		r := errArity(args[0])
		early = &r
	}
	if s.Multi && (ci == nil || !ci.noMulti) {
		if early != nil {
			s.Abort = true
			return *early
		}
		s.Queue = append(s.Queue, args)
		s.QDB = append(s.QDB, s.DB)
		return Status("QUEUED")
	}
	if early != nil {
		return *early
	}
	r := ci.fn(m, s, args)
	if r.K == KUMap {
		r.Proto = s.Proto
	}
	return r
}

// ---- argument helpers ----------------------------------------------------------------------

// parseInt follows Redis' string2ll: optional '-', no '+', no leading zeros, no spaces.
func parseInt(s string) (int64, bool) {
	if s == "" || len(s) > 20 {
		return 0, false
	}
	if s == "0" {
		return 0, true
	}
	i := 0
	if s[0] == '-' {
		i = 1
		if len(s) == 1 {
			return 0, false
		}
	}
	if s[i] < '1' || s[i] > '9' {
		return 0, false
	}
	for j := i; j < len(s); j++ {
		if s[j] < '0' || s[j] > '9' {
			return 0, false
		}
	}
	v, err := strconv.ParseInt(s, 10, 64)
	if err != nil {
		return 0, false
	}
	return v, true
}

// LaxInt reports strings that Go's ParseInt accepts but Redis rejects ("+1", "01", "-0").
func LaxInt(s string) bool {
	if _, ok := parseInt(s); ok {
		return false
	}
	_, err := strconv.ParseInt(s, 10, 64)
	return err == nil
}

func eqFold(a, b string) bool { return strings.EqualFold(a, b) }

func itoa(i int64) string { return strconv.FormatInt(i, 10) }

func sortedKeys[V any](m map[string]V) []string {
	out := make([]string, 0, len(m))
	for k := range m {
		out = append(out, k)
	}
	sort.Strings(out)
	return out
}

// typed lookups: (obj, wrongType)
func (m *Model) typed(db int, key string, t byte) (*Obj, bool) {
	o := m.DBs[db][key]
	if o == nil {
		return nil, false
	}
	if o.T != t {
		return nil, true
	}
	return o, false
}

// SessionState renders the per-connection record (compared with the implementation's own
// session record when the private-state probe is available).
func (m *Model) SessionState(i int) string {
	s := m.Sess[i]
	return fmt.Sprintf("db=%d proto=%d name=%q multi=%v qlen=%d abort=%v watches=%d", s.DB, s.Proto, s.Name, s.Multi, len(s.Queue), s.Abort, len(s.Watch))
}
