package verifmodel

import "strings"

func init() {
	reg("hello", 1, -1, func(m *Model, s *Session, a []string) Reply {
		proto := s.Proto
		if len(a) >= 2 {
			v, ok := parseInt(a[1])
			if !ok {
				return Err("ERR Protocol version is not an integer or out of range")
			}
			if v < 2 || v > 3 {
				return Err("NOPROTO unsupported protocol version")
			}
			proto = int(v)
			for i := 2; i < len(a); i++ {
				switch strings.ToLower(a[i]) {
				case "setname":
					if i+1 >= len(a) {
						return errSyntax
					}
					s.Name = a[i+1]
					i++
				case "auth":
					if i+2 >= len(a) {
						return errSyntax
					}
					i += 2
				default:
					return errSyntax
				}
			}
		}
		s.Proto = proto
		want := int64(proto)
		return Pred("HELLO map with proto="+itoa(want), func(r Reply) bool {
			if r.K != KMap && r.K != KArray {
				return false
			}
			for i := 0; i+1 < len(r.A); i += 2 {
				if r.A[i].S == "proto" {
					return r.A[i+1].K == KInt && r.A[i+1].I == want
				}
			}
			return false
		})
	}).noMulti = false
	reg("client", 2, -1, func(m *Model, s *Session, a []string) Reply {
		switch strings.ToLower(a[1]) {
		case "setname":
			if len(a) != 3 {
				return errArity("client|setname")
			}
			for _, c := range []byte(a[2]) {
				if c < '!' || c > '~' {
					return Err("ERR Client names cannot contain spaces, newlines or special characters.")
				}
			}
			s.Name = a[2]
			return OK()
		case "getname":
			if len(a) != 2 {
				return errArity("client|getname")
			}
			if s.Name == "" {
				return Nil()
			}
			return Bulk(s.Name)
		case "id":
			return Pred("client id", func(r Reply) bool { return r.K == KInt && r.I > 0 })
		}
		m.Unspec++
		return Any("CLIENT " + a[1])
	})
}
