package verifmodel

import (
	"math"
	"strings"
)

func init() {
	reg("multi", 1, 1, func(m *Model, s *Session, a []string) Reply {
		if s.Multi {
			return Err("ERR MULTI calls can not be nested")
		}
		s.Multi = true
		s.Queue, s.QDB, s.Abort = nil, nil, false
		return OK()
	}).noMulti = true
	reg("discard", 1, 1, func(m *Model, s *Session, a []string) Reply {
		if !s.Multi {
			return Err("ERR DISCARD without MULTI")
		}
		s.resetTx()
		return OK()
	}).noMulti = true
	reg("watch", 2, -1, func(m *Model, s *Session, a []string) Reply {
		if s.Multi {
			return Err("ERR WATCH inside MULTI is not allowed")
		}
		for _, k := range a[1:] {
			w := wkey{s.DB, k}
			if !s.Watch[w] {
				if s.WSnap == nil {
					s.WSnap = map[wkey]string{}
				}
				s.WSnap[w] = m.keySnap(s.DB, k)
			}
			s.Watch[w] = true
		}
		return OK()
	}).noMulti = true
	reg("unwatch", 1, 1, func(m *Model, s *Session, a []string) Reply {
		s.Watch = map[wkey]bool{}
	s.WSnap = map[wkey]string{}
		s.WSnap = map[wkey]string{}
		s.WDirty = false
		return OK()
	})
	reg("exec", 1, 1, func(m *Model, s *Session, a []string) Reply {
		if !s.Multi {
			return Err("ERR EXEC without MULTI")
		}
		if s.Abort {
			s.resetTx()
			return Err("EXECABORT Transaction discarded because of previous errors.")
		}
		if s.WDirty {
			s.resetTx()
			return Nil()
		}
		q := s.Queue
		s.resetTx()
		out := make([]Reply, 0, len(q))
		m.inExec = true
		for _, c := range q {
			ci := cmdTable[strings.ToLower(c[0])]
			out = append(out, ci.fn(m, s, c))
		}
		m.inExec = false
		return Arr(out...)
	}).noMulti = true

	// blocking list commands
	reg("blpop", 3, -1, func(m *Model, s *Session, a []string) Reply { return m.bpop(s, a, true) }).blocking = true
	reg("brpop", 3, -1, func(m *Model, s *Session, a []string) Reply { return m.bpop(s, a, false) }).blocking = true
	reg("blmove", 6, 6, func(m *Model, s *Session, a []string) Reply {
		sl, ok1 := parseLR(a[3])
		dl, ok2 := parseLR(a[4])
		if !ok1 || !ok2 {
			return errSyntax
		}
		t, er := parseTimeout(a[5])
		if er != nil {
			return *er
		}
		r := m.lmove(s, a[1], a[2], sl, dl)
		return m.blockIfNil(s, r, t)
	}).blocking = true
	reg("brpoplpush", 4, 4, func(m *Model, s *Session, a []string) Reply {
		t, er := parseTimeout(a[3])
		if er != nil {
			return *er
		}
		r := m.lmove(s, a[1], a[2], false, true)
		return m.blockIfNil(s, r, t)
	}).blocking = true
	reg("blmpop", 5, -1, func(m *Model, s *Session, a []string) Reply {
		t, er := parseTimeout(a[1])
		if er != nil {
			return *er
		}
		keys, left, count, e := parseMPop(a, 2)
		if e != nil {
			return *e
		}
		r := m.lmpop(s, keys, left, count)
		return m.blockIfNil(s, r, t)
	}).blocking = true
}

func (s *Session) resetTx() {
	s.Multi = false
	s.Queue, s.QDB, s.Abort = nil, nil, false
	s.Watch = map[wkey]bool{}
	s.WSnap = map[wkey]string{}
	s.WDirty = false
}

// parseTimeout returns the timeout in milliseconds (0 = forever).
func parseTimeout(v string) (int64, *Reply) {
	f, ok := parseFloat(v)
	if !ok || math.IsInf(f, 0) {
		r := Err("ERR timeout is not a float or out of range")
		return 0, &r
	}
	if f < 0 {
		r := Err("ERR timeout is negative")
		return 0, &r
	}
	ms := f * 1000
	if ms > math.MaxInt64/2 {
		r := Err("ERR timeout is out of range")
		return 0, &r
	}
	return int64(math.Ceil(ms)), nil
}

// blockIfNil: in a single-connection history nothing can arrive, so a blocking command that
// finds no data returns null after its timeout (clock advanced) or blocks forever.
func (m *Model) blockIfNil(s *Session, r Reply, timeoutMs int64) Reply {
	if r.K != KNil || m.inExec {
		return r
	}
	if timeoutMs == 0 {
		s.Blocked = true
		return Blocked()
	}
	m.Now += timeoutMs
	return Nil()
}

func (m *Model) bpop(s *Session, a []string, left bool) Reply {
	t, er := parseTimeout(a[len(a)-1])
	if er != nil {
		return *er
	}
	for _, k := range a[1 : len(a)-1] {
		o, wt := m.typed(s.DB, k, 'l')
		if wt {
			return errWrongType
		}
		if o == nil {
			continue
		}
		var v string
		if left {
			v, o.L = o.L[0], o.L[1:]
		} else {
			v, o.L = o.L[len(o.L)-1], o.L[:len(o.L)-1]
		}
		m.touch(s.DB, k)
		m.dropIfEmpty(s.DB, k)
		return Arr(Bulk(k), Bulk(v))
	}
	return m.blockIfNil(s, Nil(), t)
}
