package verifmodel

import (
	"math"
	"strconv"
	"strings"
)

func init() {
	// ---- hashes
	reg("hset", 4, -1, func(m *Model, s *Session, a []string) Reply {
		if len(a)%2 != 0 {
			return errArity("hset")
		}
		r := m.hset(s, a, false)
		return r
	})
	reg("hmset", 4, -1, func(m *Model, s *Session, a []string) Reply {
		if len(a)%2 != 0 {
			return errArity("hmset")
		}
		r := m.hset(s, a, false)
		if r.IsErr() {
			return r
		}
		return OK()
	})
	reg("hsetnx", 4, 4, func(m *Model, s *Session, a []string) Reply { return m.hset(s, a, true) })
	reg("hget", 3, 3, func(m *Model, s *Session, a []string) Reply {
		o, wt := m.typed(s.DB, a[1], 'h')
		if wt {
			return errWrongType
		}
		if o == nil {
			return Nil()
		}
		if v, ok := o.H[a[2]]; ok {
			return Bulk(v)
		}
		return Nil()
	})
	reg("hmget", 3, -1, func(m *Model, s *Session, a []string) Reply {
		o, wt := m.typed(s.DB, a[1], 'h')
		if wt {
			return errWrongType
		}
		out := make([]Reply, 0, len(a)-2)
		for _, f := range a[2:] {
			if o != nil {
				if v, ok := o.H[f]; ok {
					out = append(out, Bulk(v))
					continue
				}
			}
			out = append(out, Nil())
		}
		return Arr(out...)
	})
	reg("hgetall", 2, 2, func(m *Model, s *Session, a []string) Reply {
		o, wt := m.typed(s.DB, a[1], 'h')
		if wt {
			return errWrongType
		}
		out := UMap()
		if o != nil {
			for _, f := range sortedKeys(o.H) {
				out.A = append(out.A, Bulk(f), Bulk(o.H[f]))
			}
		}
		return out
	})
	reg("hkeys", 2, 2, func(m *Model, s *Session, a []string) Reply {
		o, wt := m.typed(s.DB, a[1], 'h')
		if wt {
			return errWrongType
		}
		out := USet()
		if o != nil {
			for _, f := range sortedKeys(o.H) {
				out.A = append(out.A, Bulk(f))
			}
		}
		out.Note = "array"
		return out
	})
	reg("hvals", 2, 2, func(m *Model, s *Session, a []string) Reply {
		o, wt := m.typed(s.DB, a[1], 'h')
		if wt {
			return errWrongType
		}
		out := USet()
		if o != nil {
			for _, f := range sortedKeys(o.H) {
				out.A = append(out.A, Bulk(o.H[f]))
			}
		}
		out.Note = "array"
		return out
	})
	reg("hlen", 2, 2, func(m *Model, s *Session, a []string) Reply {
		o, wt := m.typed(s.DB, a[1], 'h')
		if wt {
			return errWrongType
		}
		if o == nil {
			return Int(0)
		}
		return Int(int64(len(o.H)))
	})
	reg("hexists", 3, 3, func(m *Model, s *Session, a []string) Reply {
		o, wt := m.typed(s.DB, a[1], 'h')
		if wt {
			return errWrongType
		}
		if o != nil {
			if _, ok := o.H[a[2]]; ok {
				return Int(1)
			}
		}
		return Int(0)
	})
	reg("hstrlen", 3, 3, func(m *Model, s *Session, a []string) Reply {
		o, wt := m.typed(s.DB, a[1], 'h')
		if wt {
			return errWrongType
		}
		if o != nil {
			return Int(int64(len(o.H[a[2]])))
		}
		return Int(0)
	})
	reg("hdel", 3, -1, func(m *Model, s *Session, a []string) Reply {
		o, wt := m.typed(s.DB, a[1], 'h')
		if wt {
			return errWrongType
		}
		if o == nil {
			return Int(0)
		}
		n := int64(0)
		for _, f := range a[2:] {
			if _, ok := o.H[f]; ok {
				delete(o.H, f)
				n++
			}
		}
		if n > 0 {
			m.touch(s.DB, a[1])
			m.dropIfEmpty(s.DB, a[1])
		}
		return Int(n)
	})
	reg("hincrby", 4, 4, func(m *Model, s *Session, a []string) Reply {
		d, ok := parseInt(a[3])
		if !ok {
			return errNotInt
		}
		o, wt := m.typed(s.DB, a[1], 'h')
		if wt {
			return errWrongType
		}
		v := int64(0)
		if o != nil {
			if cur, ok := o.H[a[2]]; ok {
				v, ok = parseInt(cur)
				if !ok {
					if !LaxInt(cur) {
						return Err("ERR hash value is not an integer")
					}
					m.Unspec++
					v, _ = strconv.ParseInt(cur, 10, 64)
				}
			}
		}
		if (d > 0 && v > math.MaxInt64-d) || (d < 0 && v < math.MinInt64-d) {
			return errOverflow
		}
		v += d
		if o == nil {
			o = &Obj{T: 'h', H: map[string]string{}}
		}
		o.H[a[2]] = itoa(v)
		m.set(s.DB, a[1], o)
		return Int(v)
	})
	reg("hincrbyfloat", 4, 4, func(m *Model, s *Session, a []string) Reply {
		d, ok := parseFloat(a[3])
		if !ok {
			return errNotFloat
		}
		if math.IsInf(d, 0) {
			return Err("ERR increment would produce NaN or Infinity")
		}
		o, wt := m.typed(s.DB, a[1], 'h')
		if wt {
			return errWrongType
		}
		v := 0.0
		if o != nil {
			if cur, ok := o.H[a[2]]; ok {
				v, ok = parseFloat(cur)
				if !ok {
					return Err("ERR hash value is not a float")
				}
			}
		}
		v += d
		if math.IsNaN(v) || math.IsInf(v, 0) {
			return Err("ERR increment would produce NaN or Infinity")
		}
		if o == nil {
			o = &Obj{T: 'h', H: map[string]string{}}
		}
		o.H[a[2]] = fmtFloat(v)
		m.set(s.DB, a[1], o)
		// Redis answers with a bulk string; a RESP3 double carrying the same number is accepted
		want := v
		return Pred("bulk/double "+fmtFloat(v), func(r Reply) bool {
			switch r.K {
			case KBulk, KStatus:
				f, ok := parseFloat(r.S)
				return ok && f == want
			case KDouble:
				return r.F == want
			}
			return false
		})
	})
	reg("hrandfield", 2, 4, mHRandField)

	// ---- sets
	reg("sadd", 3, -1, func(m *Model, s *Session, a []string) Reply {
		o, wt := m.typed(s.DB, a[1], 'z')
		if wt {
			return errWrongType
		}
		if o == nil {
			o = &Obj{T: 'z', Z: map[string]bool{}}
		}
		n := int64(0)
		for _, e := range a[2:] {
			if !o.Z[e] {
				o.Z[e] = true
				n++
			}
		}
		if n > 0 || m.get(s.DB, a[1]) == nil {
			m.set(s.DB, a[1], o)
		}
		return Int(n)
	})
	reg("srem", 3, -1, func(m *Model, s *Session, a []string) Reply {
		o, wt := m.typed(s.DB, a[1], 'z')
		if wt {
			return errWrongType
		}
		if o == nil {
			return Int(0)
		}
		n := int64(0)
		for _, e := range a[2:] {
			if o.Z[e] {
				delete(o.Z, e)
				n++
			}
		}
		if n > 0 {
			m.touch(s.DB, a[1])
			m.dropIfEmpty(s.DB, a[1])
		}
		return Int(n)
	})
	reg("scard", 2, 2, func(m *Model, s *Session, a []string) Reply {
		o, wt := m.typed(s.DB, a[1], 'z')
		if wt {
			return errWrongType
		}
		if o == nil {
			return Int(0)
		}
		return Int(int64(len(o.Z)))
	})
	reg("sismember", 3, 3, func(m *Model, s *Session, a []string) Reply {
		o, wt := m.typed(s.DB, a[1], 'z')
		if wt {
			return errWrongType
		}
		if o != nil && o.Z[a[2]] {
			return Int(1)
		}
		return Int(0)
	})
	reg("smismember", 3, -1, func(m *Model, s *Session, a []string) Reply {
		o, wt := m.typed(s.DB, a[1], 'z')
		if wt {
			return errWrongType
		}
		out := make([]Reply, 0, len(a)-2)
		for _, e := range a[2:] {
			if o != nil && o.Z[e] {
				out = append(out, Int(1))
			} else {
				out = append(out, Int(0))
			}
		}
		return Arr(out...)
	})
	reg("smembers", 2, 2, func(m *Model, s *Session, a []string) Reply {
		o, wt := m.typed(s.DB, a[1], 'z')
		if wt {
			return errWrongType
		}
		out := USet()
		if o != nil {
			out.A = Bulks(sortedKeys(o.Z)...)
		}
		return out
	})
	reg("smove", 4, 4, func(m *Model, s *Session, a []string) Reply {
		src, wt := m.typed(s.DB, a[1], 'z')
		if src == nil && !wt {
			return Int(0)
		}
		_, wt2 := m.typed(s.DB, a[2], 'z')
		if wt || wt2 {
			return errWrongType
		}
		if a[1] == a[2] {
			if src.Z[a[3]] {
				return Int(1)
			}
			return Int(0)
		}
		if !src.Z[a[3]] {
			return Int(0)
		}
		delete(src.Z, a[3])
		m.touch(s.DB, a[1])
		m.dropIfEmpty(s.DB, a[1])
		dst := m.get(s.DB, a[2])
		if dst == nil {
			dst = &Obj{T: 'z', Z: map[string]bool{}}
		}
		dst.Z[a[3]] = true
		m.set(s.DB, a[2], dst)
		return Int(1)
	})
	reg("srandmember", 2, 3, mSRandMember)
	reg("sinter", 2, -1, func(m *Model, s *Session, a []string) Reply { return m.setAlgebra(s, "inter", "", a[1:]) })
	reg("sunion", 2, -1, func(m *Model, s *Session, a []string) Reply { return m.setAlgebra(s, "union", "", a[1:]) })
	reg("sdiff", 2, -1, func(m *Model, s *Session, a []string) Reply { return m.setAlgebra(s, "diff", "", a[1:]) })
	reg("sinterstore", 3, -1, func(m *Model, s *Session, a []string) Reply { return m.setAlgebra(s, "inter", a[1], a[2:]) })
	reg("sunionstore", 3, -1, func(m *Model, s *Session, a []string) Reply { return m.setAlgebra(s, "union", a[1], a[2:]) })
	reg("sdiffstore", 3, -1, func(m *Model, s *Session, a []string) Reply { return m.setAlgebra(s, "diff", a[1], a[2:]) })
	reg("sintercard", 3, -1, func(m *Model, s *Session, a []string) Reply {
		nk, ok := parseInt(a[1])
		if !ok || nk <= 0 {
			return Err("ERR numkeys should be greater than 0")
		}
		if int64(len(a)-2) < nk {
			return Err("ERR Number of keys can't be greater than number of args")
		}
		keys := a[2 : 2+nk]
		rest := a[2+nk:]
		limit := int64(0)
		if len(rest) > 0 {
			if len(rest) != 2 || !eqFold(rest[0], "limit") {
				return errSyntax
			}
			l, ok := parseInt(rest[1])
			if !ok || l < 0 {
				return Err("ERR LIMIT can't be negative")
			}
			limit = l
		}
		res, er := m.algebra(s, "inter", keys)
		if er != nil {
			return *er
		}
		n := int64(len(res))
		if limit > 0 && n > limit {
			n = limit
		}
		return Int(n)
	})
}

func (m *Model) hset(s *Session, a []string, nx bool) Reply {
	o, wt := m.typed(s.DB, a[1], 'h')
	if wt {
		return errWrongType
	}
	if o == nil {
		o = &Obj{T: 'h', H: map[string]string{}}
	}
	added := int64(0)
	changed := m.get(s.DB, a[1]) == nil
	for i := 2; i+1 < len(a); i += 2 {
		if cur, ok := o.H[a[i]]; ok {
			if nx {
				continue
			}
			if cur != a[i+1] {
				changed = true
			}
		} else {
			added++
			changed = true
		}
		o.H[a[i]] = a[i+1]
	}
	_ = changed
	if nx && added == 0 {
		// HSETNX on an existing field changes nothing and does not count as a modification
		return Int(0)
	}
	m.set(s.DB, a[1], o)
	return Int(added)
}

// checks shared by HRANDFIELD / SRANDMEMBER replies
func distinctBulks(rs []Reply) bool {
	seen := map[string]bool{}
	for _, r := range rs {
		if r.K != KBulk || seen[r.S] {
			return false
		}
		seen[r.S] = true
	}
	return true
}

func mHRandField(m *Model, s *Session, a []string) Reply {
	hasCount := len(a) >= 3
	withValues := false
	count := int64(1)
	if hasCount {
		c, ok := parseInt(a[2])
		if !ok {
			return errNotInt
		}
		count = c
		if len(a) == 4 {
			if !eqFold(a[3], "withvalues") {
				return errSyntax
			}
			withValues = true
		}
	}
	o, wt := m.typed(s.DB, a[1], 'h')
	if wt {
		return errWrongType
	}
	if o == nil {
		if hasCount {
			return Arr()
		}
		return Nil()
	}
	H := map[string]string{}
	for k, v := range o.H {
		H[k] = v
	}
	if !hasCount {
		return Pred("one existing field", func(r Reply) bool {
			_, ok := H[r.S]
			return r.K == KBulk && ok
		})
	}
	if count == 0 {
		return Arr()
	}
	want := count
	unique := true
	if count < 0 {
		want, unique = -count, false
	} else if want > int64(len(H)) {
		want = int64(len(H))
	}
	return Pred("HRANDFIELD count reply", func(r Reply) bool {
		// RESP2: flat array; RESP3 with values: array of pairs
		var fields, vals []Reply
		switch {
		case r.K == KArray && !withValues:
			fields = r.A
		case r.K == KArray && withValues:
			if len(r.A) > 0 && r.A[0].K == KArray {
				for _, p := range r.A {
					if p.K != KArray || len(p.A) != 2 {
						return false
					}
					fields = append(fields, p.A[0])
					vals = append(vals, p.A[1])
				}
			} else {
				if len(r.A)%2 != 0 {
					return false
				}
				for i := 0; i < len(r.A); i += 2 {
					fields = append(fields, r.A[i])
					vals = append(vals, r.A[i+1])
				}
			}
		default:
			return false
		}
		if int64(len(fields)) != want {
			return false
		}
		for i, f := range fields {
			v, ok := H[f.S]
			if f.K != KBulk || !ok {
				return false
			}
			if withValues && (vals[i].K != KBulk || vals[i].S != v) {
				return false
			}
		}
		return !unique || distinctBulks(fields)
	})
}

func mSRandMember(m *Model, s *Session, a []string) Reply {
	hasCount := len(a) == 3
	count := int64(1)
	if hasCount {
		c, ok := parseInt(a[2])
		if !ok {
			return errNotInt
		}
		count = c
	}
	o, wt := m.typed(s.DB, a[1], 'z')
	if wt {
		return errWrongType
	}
	if o == nil {
		if hasCount {
			return Arr()
		}
		return Nil()
	}
	Z := map[string]bool{}
	for k := range o.Z {
		Z[k] = true
	}
	if !hasCount {
		return Pred("one existing member", func(r Reply) bool { return r.K == KBulk && Z[r.S] })
	}
	if count == 0 {
		return Arr()
	}
	want := count
	unique := true
	if count < 0 {
		want, unique = -count, false
	} else if want > int64(len(Z)) {
		want = int64(len(Z))
	}
	return Pred("SRANDMEMBER count reply", func(r Reply) bool {
		if (r.K != KArray && r.K != KSet) || int64(len(r.A)) != want {
			return false
		}
		for _, e := range r.A {
			if e.K != KBulk || !Z[e.S] {
				return false
			}
		}
		return !unique || distinctBulks(r.A)
	})
}

// algebra evaluates inter/union/diff over keys; every existing key must be a set.
func (m *Model) algebra(s *Session, op string, keys []string) (map[string]bool, *Reply) {
	sets := make([]map[string]bool, len(keys))
	for i, k := range keys {
		o, wt := m.typed(s.DB, k, 'z')
		if wt {
			r := errWrongType
			return nil, &r
		}
		if o != nil {
			sets[i] = o.Z
		} else {
			sets[i] = map[string]bool{}
		}
	}
	res := map[string]bool{}
	switch op {
	case "union":
		for _, z := range sets {
			for e := range z {
				res[e] = true
			}
		}
	case "inter":
		for e := range sets[0] {
			in := true
			for _, z := range sets[1:] {
				if !z[e] {
					in = false
					break
				}
			}
			if in {
				res[e] = true
			}
		}
	case "diff":
		for e := range sets[0] {
			in := false
			for _, z := range sets[1:] {
				if z[e] {
					in = true
					break
				}
			}
			if !in {
				res[e] = true
			}
		}
	}
	return res, nil
}

func (m *Model) setAlgebra(s *Session, op, dst string, keys []string) Reply {
	res, er := m.algebra(s, op, keys)
	if er != nil {
		return *er
	}
	if dst == "" {
		out := USet()
		out.A = Bulks(sortedKeys(res)...)
		return out
	}
	if len(res) == 0 {
		m.del(s.DB, dst)
		return Int(0)
	}
	m.set(s.DB, dst, &Obj{T: 'z', Z: res})
	return Int(int64(len(res)))
}

var _ = strings.ToLower
