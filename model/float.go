package verifmodel

import "math"

var posInf = math.Inf(1)
var negInf = math.Inf(-1)
var nan = math.NaN()
