package verifmodel

import (
	"math"
	"sort"
	"strconv"
	"strings"
)

func init() {
	reg("del", 2, -1, func(m *Model, s *Session, a []string) Reply { return m.delKeys(s, a[1:]) })
	reg("unlink", 2, -1, func(m *Model, s *Session, a []string) Reply { return m.delKeys(s, a[1:]) })
	reg("exists", 2, -1, func(m *Model, s *Session, a []string) Reply {
		n := int64(0)
		for _, k := range a[1:] {
			if m.get(s.DB, k) != nil {
				n++
			}
		}
		return Int(n)
	})
	reg("touch", 2, -1, func(m *Model, s *Session, a []string) Reply {
		n := int64(0)
		for _, k := range a[1:] {
			if m.get(s.DB, k) != nil {
				n++
			}
		}
		return Int(n)
	})
	reg("type", 2, 2, func(m *Model, s *Session, a []string) Reply {
		o := m.get(s.DB, a[1])
		if o == nil {
			return Status("none")
		}
		return Status(o.TypeName())
	})
	reg("rename", 3, 3, func(m *Model, s *Session, a []string) Reply {
		o := m.get(s.DB, a[1])
		if o == nil {
			return errNoKey
		}
		if a[1] == a[2] {
			return OK()
		}
		m.del(s.DB, a[1])
		m.set(s.DB, a[2], o)
		return OK()
	})
	reg("renamenx", 3, 3, func(m *Model, s *Session, a []string) Reply {
		o := m.get(s.DB, a[1])
		if o == nil {
			return errNoKey
		}
		if m.get(s.DB, a[2]) != nil {
			return Int(0)
		}
		m.del(s.DB, a[1])
		m.set(s.DB, a[2], o)
		return Int(1)
	})
	reg("copy", 3, -1, mCopy)
	reg("keys", 2, 2, func(m *Model, s *Session, a []string) Reply {
		out := USet()
		for _, k := range sortedKeys(m.DBs[s.DB]) {
			// KEYS * is special-cased by Redis (it also returns the empty key name)
			if a[1] == "*" || GlobMatch(a[1], k) {
				out.A = append(out.A, Bulk(k))
			}
		}
		out.Note = "array"
		return out
	})
	reg("randomkey", 1, 1, func(m *Model, s *Session, a []string) Reply {
		db := m.DBs[s.DB]
		if len(db) == 0 {
			return Nil()
		}
		keys := map[string]bool{}
		for k := range db {
			keys[k] = true
		}
		return Pred("an existing key", func(r Reply) bool { return r.K == KBulk && keys[r.S] })
	})
	reg("dbsize", 1, 1, func(m *Model, s *Session, a []string) Reply {
		n := int64(len(m.DBs[s.DB]))
		if m.Lazy == 0 {
			return Int(n)
		}
		hi := n + int64(m.Lazy)
		return Pred("dbsize in ["+itoa(n)+","+itoa(hi)+"] (expired keys may still be counted)", func(r Reply) bool { return r.K == KInt && r.I >= n && r.I <= hi })
	})
	reg("expire", 3, 4, func(m *Model, s *Session, a []string) Reply { return m.expire(s, a, 1000, false) })
	reg("pexpire", 3, 4, func(m *Model, s *Session, a []string) Reply { return m.expire(s, a, 1, false) })
	reg("expireat", 3, 4, func(m *Model, s *Session, a []string) Reply { return m.expire(s, a, 1000, true) })
	reg("pexpireat", 3, 4, func(m *Model, s *Session, a []string) Reply { return m.expire(s, a, 1, true) })
	reg("persist", 2, 2, func(m *Model, s *Session, a []string) Reply {
		o := m.get(s.DB, a[1])
		if o == nil || o.Exp == 0 {
			return Int(0)
		}
		o.Exp = 0
		m.touch(s.DB, a[1])
		return Int(1)
	})
	reg("ttl", 2, 2, func(m *Model, s *Session, a []string) Reply { return m.ttl(s, a[1], "ttl") })
	reg("pttl", 2, 2, func(m *Model, s *Session, a []string) Reply { return m.ttl(s, a[1], "pttl") })
	reg("expiretime", 2, 2, func(m *Model, s *Session, a []string) Reply { return m.ttl(s, a[1], "expiretime") })
	reg("pexpiretime", 2, 2, func(m *Model, s *Session, a []string) Reply { return m.ttl(s, a[1], "pexpiretime") })
	reg("select", 2, 2, func(m *Model, s *Session, a []string) Reply {
		n, ok := parseInt(a[1])
		if !ok {
			return Err("ERR invalid DB index")
		}
		if n < 0 || n >= NumDBs {
			return Err("ERR DB index is out of range")
		}
		s.DB = int(n)
		return OK()
	})
	reg("flushdb", 1, 2, func(m *Model, s *Session, a []string) Reply {
		if len(a) == 2 && !eqFold(a[1], "sync") && !eqFold(a[1], "async") {
			return errSyntax
		}
		m.flush(s.DB)
		return OK()
	})
	reg("flushall", 1, 2, func(m *Model, s *Session, a []string) Reply {
		if len(a) == 2 && !eqFold(a[1], "sync") && !eqFold(a[1], "async") {
			return errSyntax
		}
		for i := range m.DBs {
			m.flush(i)
		}
		return OK()
	})
	reg("ping", 1, 2, func(m *Model, s *Session, a []string) Reply {
		if len(a) == 2 {
			return Bulk(a[1])
		}
		return Status("PONG")
	})
	reg("echo", 2, 2, func(m *Model, s *Session, a []string) Reply { return Bulk(a[1]) })
	reg("sort", 2, -1, mSort)
}

func (m *Model) flush(db int) {
	for k := range m.DBs[db] {
		m.touch(db, k)
	}
	m.DBs[db] = map[string]*Obj{}
	// Redis: FLUSH* touches every watched key of the database, existing or not
	for _, s := range m.Sess {
		for w := range s.Watch {
			if w.db == db {
				// only keys that existed count as modified (signalFlushedDb touches all watched
				// keys; a watched missing key stays missing => Redis 7 marks it dirty only if it
				// existed).
				_ = w
			}
		}
	}
}

func (m *Model) delKeys(s *Session, keys []string) Reply {
	n := int64(0)
	for _, k := range keys {
		if m.del(s.DB, k) {
			n++
		}
	}
	return Int(n)
}

func mCopy(m *Model, s *Session, a []string) Reply {
	replace := false
	ddb := s.DB
	for i := 3; i < len(a); i++ {
		switch strings.ToLower(a[i]) {
		case "replace":
			replace = true
		case "db":
			if i+1 >= len(a) {
				return errSyntax
			}
			n, ok := parseInt(a[i+1])
			if !ok {
				return errNotInt
			}
			if n < 0 || n >= NumDBs {
				return Err("ERR DB index is out of range")
			}
			ddb = int(n)
			i++
		default:
			return errSyntax
		}
	}
	if ddb != s.DB {
		m.Unspec++
		return Any("COPY ... DB is documented as unsupported by the emulator")
	}
	if a[1] == a[2] {
		return Err("ERR source and destination objects are the same")
	}
	o := m.get(s.DB, a[1])
	if o == nil {
		return Int(0)
	}
	if m.get(ddb, a[2]) != nil && !replace {
		return Int(0)
	}
	m.set(ddb, a[2], o.clone())
	return Int(1)
}

func (m *Model) expire(s *Session, a []string, unit int64, abs bool) Reply {
	cmd := strings.ToLower(a[0])
	var nx, xx, gt, lt bool
	if len(a) == 4 {
		switch strings.ToLower(a[3]) {
		case "nx":
			nx = true
		case "xx":
			xx = true
		case "gt":
			gt = true
		case "lt":
			lt = true
		default:
			return Err("ERR Unsupported option " + a[3])
		}
	}
	when, ok := parseInt(a[2])
	if !ok {
		return errNotInt
	}
	bad := Err("ERR invalid expire time in '" + cmd + "' command")
	if unit > 1 {
		if when > math.MaxInt64/unit || when < math.MinInt64/unit {
			return bad
		}
		when *= unit
	}
	if !abs {
		if when > math.MaxInt64-m.Now {
			return bad
		}
		when += m.Now
	}
	o := m.get(s.DB, a[1])
	if o == nil {
		return Int(0)
	}
	cur := o.Exp
	if (gt || lt) && cur != 0 && when == cur {
		// a tie at millisecond granularity: the implementation compares with finer resolution;
		// either answer leaves the deadline where it is
		m.Unspec++
		return Pred("0 or 1 (deadline tie)", func(r Reply) bool { return r.K == KInt && (r.I == 0 || r.I == 1) })
	}
	switch {
	case nx && cur != 0:
		return Int(0)
	case xx && cur == 0:
		return Int(0)
	case gt && (cur == 0 || when <= cur):
		return Int(0)
	case lt && cur != 0 && when >= cur:
		return Int(0)
	}
	if when <= m.Now {
		m.del(s.DB, a[1])
		m.Lazy++
		return Int(1)
	}
	o.Exp = when
	m.touch(s.DB, a[1])
	return Int(1)
}

func (m *Model) ttl(s *Session, key, kind string) Reply {
	o := m.get(s.DB, key)
	if o == nil {
		return Int(-2)
	}
	if o.Exp == 0 {
		return Int(-1)
	}
	var want int64
	switch kind {
	case "ttl":
		want = (o.Exp - m.Now + 500) / 1000
	case "pttl":
		want = o.Exp - m.Now
	case "expiretime":
		want = o.Exp / 1000
	case "pexpiretime":
		want = o.Exp
	}
	// within clock granularity: one unit either way
	return Pred(kind+"≈"+itoa(want), func(r Reply) bool {
		return r.K == KInt && r.I >= want-1 && r.I <= want+1 && r.I >= 0
	})
}

// GlobMatch is a port of Redis' stringmatchlen (case sensitive).
func GlobMatch(pattern, str string) bool {
	return globMatch([]byte(pattern), []byte(str))
}

func globMatch(pat, str []byte) bool {
	// direct port of stringmatchlen_impl (util.c); at() emulates reading the NUL terminator
	p, pl := 0, len(pat)
	s, sl := 0, len(str)
	at := func(i int) byte {
		if i < len(pat) {
			return pat[i]
		}
		return 0
	}
	for pl > 0 && sl > 0 {
		switch at(p) {
		case '*':
			for pl > 0 && at(p+1) == '*' {
				p++
				pl--
			}
			if pl == 1 {
				return true
			}
			for sl > 0 {
				if globMatch(pat[p+1:], str[s:]) {
					return true
				}
				s++
				sl--
			}
			return false
		case '?':
			s++
			sl--
		case '[':
			p++
			pl--
			not := at(p) == '^'
			if not {
				p++
				pl--
			}
			match := false
			for {
				if at(p) == '\\' && pl >= 2 {
					p++
					pl--
					if at(p) == str[s] {
						match = true
					}
				} else if at(p) == ']' {
					break
				} else if pl == 0 {
					p--
					pl++
					break
				} else if pl >= 3 && at(p+1) == '-' {
					start, end, c := at(p), at(p+2), str[s]
					if start > end {
						start, end = end, start
					}
					p += 2
					pl -= 2
					if c >= start && c <= end {
						match = true
					}
				} else {
					if at(p) == str[s] {
						match = true
					}
				}
				p++
				pl--
			}
			if not {
				match = !match
			}
			if !match {
				return false
			}
			s++
			sl--
		case '\\':
			if pl >= 2 {
				p++
				pl--
			}
			if at(p) != str[s] {
				return false
			}
			s++
			sl--
		default:
			if at(p) != str[s] {
				return false
			}
			s++
			sl--
		}
		p++
		pl--
		if sl == 0 {
			for at(p) == '*' {
				p++
				pl--
			}
			break
		}
	}
	return pl == 0 && sl == 0
}

// SORT key [BY pattern] [LIMIT offset count] [GET pattern ...] [ASC|DESC] [ALPHA] [STORE dst]
func mSort(m *Model, s *Session, a []string) Reply {
	var by, store string
	var gets []string
	desc, alpha, hasLimit, hasBy := false, false, false, false
	var off, cnt int64
	for i := 2; i < len(a); i++ {
		switch strings.ToLower(a[i]) {
		case "asc":
			desc = false
		case "desc":
			desc = true
		case "alpha":
			alpha = true
		case "limit":
			if i+2 >= len(a) {
				return errSyntax
			}
			o, ok1 := parseInt(a[i+1])
			c, ok2 := parseInt(a[i+2])
			if !ok1 || !ok2 {
				return errNotInt
			}
			off, cnt, hasLimit = o, c, true
			i += 2
		case "store":
			if i+1 >= len(a) {
				return errSyntax
			}
			store = a[i+1]
			i++
		case "by":
			if i+1 >= len(a) {
				return errSyntax
			}
			by, hasBy = a[i+1], true
			i++
		case "get":
			if i+1 >= len(a) {
				return errSyntax
			}
			gets = append(gets, a[i+1])
			i++
		default:
			return errSyntax
		}
	}
	o := m.get(s.DB, a[1])
	var elems []string
	if o != nil {
		switch o.T {
		case 'l':
			elems = append(elems, o.L...)
		case 'z':
			elems = sortedKeys(o.Z)
		default:
			return errWrongType
		}
	}
	dontSort := hasBy && !strings.Contains(by, "*")
	isSet := o != nil && o.T == 'z'
	lookup := func(pattern, elem string) (string, bool) {
		if pattern == "#" {
			return elem, true
		}
		i := strings.Index(pattern, "*")
		if i < 0 {
			return "", false
		}
		field := ""
		hasField := false
		if j := strings.Index(pattern[i:], "->"); j >= 0 && i+j+2 < len(pattern) {
			field = pattern[i+j+2:]
			pattern = pattern[:i+j]
			hasField = true
		}
		k := pattern[:i] + elem + pattern[i+1:]
		ko := m.get(s.DB, k)
		if ko == nil {
			return "", false
		}
		if hasField {
			if ko.T != 'h' {
				return "", false
			}
			v, ok := ko.H[field]
			return v, ok
		}
		if ko.T != 's' {
			return "", false
		}
		return ko.S, true
	}
	type item struct {
		e    string
		w    float64
		ws   string
		has  bool
	}
	items := make([]item, len(elems))
	for i, e := range elems {
		items[i] = item{e: e}
	}
	orderUnspecified := false
	if !dontSort {
		for i := range items {
			src, ok := items[i].e, true
			if hasBy {
				src, ok = lookup(by, items[i].e)
			}
			items[i].has = ok
			if alpha {
				items[i].ws = src
			} else if ok {
				f, perr := strconv.ParseFloat(strings.TrimSpace(src), 64)
				if perr != nil || src == "" || src[0] == ' ' {
					return Err("ERR One or more scores can't be converted into double")
				}
				items[i].w = f
			}
		}
		sort.SliceStable(items, func(i, j int) bool {
			x, y := items[i], items[j]
			var c int
			if alpha {
				switch {
				case hasBy && !x.has && !y.has:
					c = 0
				case hasBy && !x.has:
					c = -1
				case hasBy && !y.has:
					c = 1
				default:
					c = strings.Compare(x.ws, y.ws)
				}
			} else {
				switch {
				case x.w < y.w:
					c = -1
				case x.w > y.w:
					c = 1
				}
			}
			if c == 0 {
				// Redis breaks ties of equal weights by comparing the elements themselves
				c = strings.Compare(x.e, y.e)
			}
			if desc {
				return c > 0
			}
			return c < 0
		})
	} else if isSet {
		// BY nosort on a set: Redis' order is the internal one (only sorted when STORE is used)
		if store == "" {
			orderUnspecified = true
		}
	}
	if hasLimit {
		n := int64(len(items))
		start, end := off, off+cnt-1
		if cnt < 0 {
			end = n - 1
		}
		if start < 0 {
			start = 0
		}
		if end >= n {
			end = n - 1
		}
		if start > end || start >= n {
			items = nil
		} else {
			items = items[start : end+1]
		}
	}
	var out []Reply
	for _, it := range items {
		if len(gets) == 0 {
			out = append(out, Bulk(it.e))
			continue
		}
		for _, g := range gets {
			v, ok := lookup(g, it.e)
			if ok {
				out = append(out, Bulk(v))
			} else {
				out = append(out, Nil())
			}
		}
	}
	if store != "" {
		if len(out) == 0 {
			m.del(s.DB, store)
			return Int(0)
		}
		l := &Obj{T: 'l'}
		for _, r := range out {
			l.L = append(l.L, r.S)
		}
		m.set(s.DB, store, l)
		return Int(int64(len(out)))
	}
	if orderUnspecified {
		u := USet(out...)
		u.Note = "array"
		return u
	}
	return Arr(out...)
}

func init() {
	// SCAN family: a single call with COUNT >= size walks the whole table; any other use is the
	// subject of the cursor property (C17) and is not compared here.
	scanReply := func(m *Model, elems []Reply, count int64, size int) Reply {
		if count < int64(size) || count < 16 {
			m.Unspec++
			return Any("partial SCAN page")
		}
		u := USet(elems...)
		return Pred("cursor 0 + all elements", func(r Reply) bool {
			if r.K != KArray || len(r.A) != 2 || r.A[0].S != "0" {
				return false
			}
			ok, _ := Match(u, Reply{K: KArray, A: r.A[1].A})
			return ok && r.A[1].K == KArray
		})
	}
	parseScanOpts := func(a []string, at int, allowType bool) (pattern string, count int64, typ string, e *Reply) {
		count = 10
		pattern = "*"
		for i := at; i < len(a); i += 2 {
			if i+1 >= len(a) {
				r := errSyntax
				return "", 0, "", &r
			}
			switch strings.ToLower(a[i]) {
			case "match":
				pattern = a[i+1]
			case "count":
				c, ok := parseInt(a[i+1])
				if !ok {
					r := errNotInt
					return "", 0, "", &r
				}
				if c < 1 {
					r := errSyntax
					return "", 0, "", &r
				}
				count = c
			case "type":
				if !allowType {
					r := errSyntax
					return "", 0, "", &r
				}
				typ = strings.ToLower(a[i+1])
			default:
				r := errSyntax
				return "", 0, "", &r
			}
		}
		return
	}
	reg("scan", 2, -1, func(m *Model, s *Session, a []string) Reply {
		if _, ok := parseInt(a[1]); !ok {
			return Err("ERR invalid cursor")
		}
		pat, count, typ, e := parseScanOpts(a, 2, true)
		if e != nil {
			return *e
		}
		if a[1] != "0" {
			m.Unspec++
			return Any("SCAN continuation")
		}
		var el []Reply
		for _, k := range sortedKeys(m.DBs[s.DB]) {
			if GlobMatch(pat, k) && (typ == "" || m.DBs[s.DB][k].TypeName() == typ) {
				el = append(el, Bulk(k))
			}
		}
		return scanReply(m, el, count, len(m.DBs[s.DB]))
	})
	reg("hscan", 3, -1, func(m *Model, s *Session, a []string) Reply {
		if _, ok := parseInt(a[2]); !ok {
			return Err("ERR invalid cursor")
		}
		pat, count, _, e := parseScanOpts(a, 3, false)
		if e != nil {
			return *e
		}
		o, wt := m.typed(s.DB, a[1], 'h')
		if wt {
			return errWrongType
		}
		if o == nil {
			return Arr(Bulk("0"), Arr())
		}
		if a[2] != "0" {
			m.Unspec++
			return Any("HSCAN continuation")
		}
		if count < int64(len(o.H)) || count < 16 {
			m.Unspec++
			return Any("partial HSCAN page")
		}
		want := UMap()
		for _, f := range sortedKeys(o.H) {
			if GlobMatch(pat, f) {
				want.A = append(want.A, Bulk(f), Bulk(o.H[f]))
			}
		}
		return Pred("cursor 0 + all field/value pairs", func(r Reply) bool {
			if r.K != KArray || len(r.A) != 2 || r.A[0].S != "0" || r.A[1].K != KArray {
				return false
			}
			ok, _ := Match(want, Reply{K: KArray, A: r.A[1].A})
			return ok
		})
	})
	reg("sscan", 3, -1, func(m *Model, s *Session, a []string) Reply {
		if _, ok := parseInt(a[2]); !ok {
			return Err("ERR invalid cursor")
		}
		pat, count, _, e := parseScanOpts(a, 3, false)
		if e != nil {
			return *e
		}
		o, wt := m.typed(s.DB, a[1], 'z')
		if wt {
			return errWrongType
		}
		if o == nil {
			return Arr(Bulk("0"), Arr())
		}
		if a[2] != "0" {
			m.Unspec++
			return Any("SSCAN continuation")
		}
		var el []Reply
		for _, k := range sortedKeys(o.Z) {
			if GlobMatch(pat, k) {
				el = append(el, Bulk(k))
			}
		}
		return scanReply(m, el, count, len(o.Z))
	})
	reg("dump", 2, 2, func(m *Model, s *Session, a []string) Reply {
		if m.get(s.DB, a[1]) == nil {
			return Nil()
		}
		m.Unspec++
		return Pred("opaque serialized value", func(r Reply) bool { return r.K == KBulk })
	})
}
