#!/usr/bin/env python3
# Prints the rows of DESIGN.md section 10.3 from evidence files: measured_table.py <evidence dir> <timings file (lines "C01 rc=0 secs=13 ...")>
import json, sys, re, os
ev, tfile = sys.argv[1], sys.argv[2]
secs = {}
for l in open(tfile):
    m = re.match(r'(C\d+) rc=\d+ secs=(\d+)', l)
    if m: secs[m.group(1)] = m.group(2)
def g(c, *ks):
    out = []
    for k in ks:
        if k in c and c[k] not in (None, 0, {}):
            v = c[k]
            out.append(f"{v:,} {k.replace('_', ' ')}".replace(',', ' ') if isinstance(v, int) else f"{k}={v}")
    return ', '.join(out)
for i in range(1, 21):
    pid = f'C{i:02d}'
    try: c = json.load(open(os.path.join(ev, pid + '.json')))['coverage']
    except Exception as e:
        print(f'| {pid} | (no evidence: {e}) | |'); continue
    size = g(c, 'states', 'transitions', 'schedules', 'scenarios', 'evaluations', 'cases', 'init_sweep_ops', 'iteration_histories_completed', 'histories_completed', 'race_companion_schedules', 'hello_forms_checked', 'distinct_outcomes')
    nf = [k for k in c if 'not_finished' in k and c[k]]
    ex = 'exhaustive' if c.get('exhaustive') else 'NOT exhaustive: ' + '; '.join(f"{k}={c[k]}" for k in nf)
    print(f"| {pid} | {size} | {ex} | {secs.get(pid, '?')} s |")
