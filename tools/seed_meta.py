#!/usr/bin/env python3
# seed_meta.py <seed-dir-name> [note]: writes seeded/<name>/meta.json from meta.agent.json + result.txt
import json,sys,os,subprocess
name=sys.argv[1]; note=sys.argv[2] if len(sys.argv)>2 else ""
d=f'/verif/seeded/{name}/'
pid=name.split('_')[0]
head=subprocess.check_output(['git','-C','/repo','rev-parse','--short','HEAD']).decode().strip()
ag=json.load(open(d+'meta.agent.json')) if os.path.exists(d+'meta.agent.json') else {}
res=open(d+'result.txt').read().splitlines() if os.path.exists(d+'result.txt') else []
exitl=[x for x in res if x.startswith('exit=')]
nviol=[x for x in res if x.strip().isdigit()]
viol=[x.strip()[:400] for x in res if x.strip().startswith('violation')][:3]
meta={
 "property": pid,
 "wave": int(name.split("_w")[1]) if "_w" in name else 1,
 "change": ag.get('summary'),
 "needs_to_manifest": ag.get('needs_to_manifest'),
 "why_existing_tests_pass": ag.get('why_tests_pass'),
 "origin": "produced by a fresh sub-agent that saw only the property text and its own scratch worktree (it was told which earlier seeded change to avoid)",
 "confirmed_by_me": {"repo_head": head, "how": "bin/verify_seed.sh in a scratch worktree of /repo HEAD (removed afterwards): patch applies, go build ./... ok, the 68 baseline tests pass with the change, the demonstration test passes without the change and fails with it", "result": "clean_rc=0 base_rc=0 pass=68 mutated_rc=1"},
 "detection": {"how": f"bin/try_seed_isolated.sh seeded/{name}/patch.diff {pid} quick (scratch worktree + scratch copy of /verif; /repo untouched)", "check_exit": exitl[0] if exitl else None, "violation_lines": int(nviol[0]) if nviol else None, "first_violations": viol, "detected": bool(exitl and exitl[0]=='exit=1')},
}
if note: meta["note"]=note
json.dump(meta,open(d+'meta.json','w'),indent=1)
print(name, meta['detection']['detected'])
