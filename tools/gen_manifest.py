#!/usr/bin/env python3
# Regenerates /verif/MANIFEST.json from the table below (kept next to the code so that the
# manifest, the engines and the claims cannot drift apart silently).
import json, os
ROOT = os.path.dirname(os.path.dirname(os.path.abspath(__file__)))
props = [json.loads(l) for l in open(os.path.join(ROOT, 'properties.jsonl'))]
ids = [p['id'] for p in props]

E1_NOTE = ("Trusted: the Go reference model of Redis 7 semantics in /verif/model (boring maps and slices, transcribed from the command "
           "reference; no Redis server is available offline), the strict RESP parser of the harness, the alphabet (values outside it and "
           "sequences deeper than depth_completed are not covered). Error replies are compared by class (first word), unordered replies as "
           "multisets, random replies by predicate.")
E1_TECH = "explicit-state BFS over reference-model states; every transition replayed on the real implementation (model checking with trace conformance)"

claims = {
 'C02': dict(engine='seq', cat='model_checking', ref='DESIGN.md §3 C02',
   text="Bounded exhaustive: every string/counter command instance of the alphabet (all SET option combinations in every order and three spellings, all offsets -7..7 and +-2^63 for GETRANGE/SETRANGE, all overflow boundaries for INCRBY/DECRBY, MSET/MSETNX with repeated keys, LCS options) from every state reachable within the depth bound, compared with the reference model on reply and on the complete observable state (value, type, TTL of every key).",
   note=E1_NOTE, tech=E1_TECH),
 'C03': dict(engine='seq', cat='model_checking', ref='DESIGN.md §3 C03',
   text="Bounded exhaustive: every list command instance (all indexes -6..6 and +-2^63, all LPOS RANK/COUNT/MAXLEN combinations, source = destination, wrong-typed and missing keys) from every list state over two keys and two element values reachable within the depth bound (incl. duplicates, lengths 0..8), compared with a slice model on reply and on LRANGE/LLEN/TYPE/EXISTS/KEYS/DBSIZE of every key.",
   note=E1_NOTE, tech=E1_TECH),
 'C04': dict(engine='seq', cat='model_checking', ref='DESIGN.md §3 C04',
   text="Bounded exhaustive: every hash command instance (all sign/overflow combinations of HINCRBY, HSETNX, multi-field HSET/HDEL, HRANDFIELD for every count class with and without WITHVALUES) from every reachable hash state, compared with a map model on reply and HGETALL/HLEN/TYPE/EXISTS; plus a long fill/drain history that forces the table to grow and shrink.",
   note=E1_NOTE, tech=E1_TECH),
 'C05': dict(engine='seq', cat='model_checking', ref='DESIGN.md §3 C05',
   text="Exhaustive over all 512 families of three subsets of a 3-element universe as initial states: every SADD/SREM/SMOVE (incl. source = destination) and every SINTER/SUNION/SDIFF[STORE]/SINTERCARD over operand tuples of length 1-3 with repetition, missing and wrong-typed operands and every destination (operand or not), compared with set algebra on reply and on SMEMBERS/SCARD/TYPE/EXISTS of all keys (operands must stay unchanged).",
   note=E1_NOTE, tech=E1_TECH),
 'C18': dict(engine='seq', cat='model_checking', ref='DESIGN.md §3 C18',
   text="Bounded exhaustive: BITFIELD/BITFIELD_RO GET/SET/INCRBY for every type i1..i64 and u1..u63 x bit offsets 0..16 and #0..#2 (every offset mod 8, spans of 1..9 bytes) x boundary values (0, +-1, min, max, min-1, max+1, +-2^62, +-2^63) x OVERFLOW WRAP/SAT/FAIL, sticky OVERFLOW chains, SETBIT/GETBIT offsets, BITCOUNT and BITPOS for all start/end in -20..20 in BYTE and BIT units, BITOP over operand tuples of every length class - from seven base strings (and, thorough, the states a set of mutators reaches), compared with a big-endian bit-array reference on math/big on reply and on GET/TYPE/EXISTS/PTTL of every key (only addressed bits change, reads change nothing).",
   note=E1_NOTE, tech=E1_TECH),
 'C06': dict(engine='seq', cat='model_checking', ref='DESIGN.md §3 C06',
   text="Bounded exhaustive: the matrix of every command template of the emulator (~300 forms incl. syntactically bad, out-of-range and overflowing ones) x target key of every type (missing, string, list, hash, set), from fixture states with and without TTL, singleton aggregates and the states every generic command / remover reaches from them; compared with the reference model on reply and on the full state (KEYS, DBSIZE, TYPE, value, PTTL of every key): a failed command must leave everything unchanged, an emptied aggregate must be gone. Plus KEYS/SCAN MATCH for all glob patterns of <= 3 symbols over {a,b,*,?,[,],\\,-,^} against a port of Redis' stringmatchlen.",
   note=E1_NOTE, tech=E1_TECH),
 'C07': dict(engine='seq', cat='model_checking', ref='DESIGN.md §3 C07',
   text="Bounded exhaustive on a virtual clock: the same command x key-type matrix applied 2 ms and 1 ms before the deadline, 1 ms, 2 ms and long after it (objects still stored, never slept for), with mixed expired / live operands and destinations; the model drops a key at its deadline, so every command must treat an expired-but-stored key exactly like a missing one. Plus the complete EXPIRE/PEXPIRE/EXPIREAT/PEXPIREAT x NX/XX/GT/LT x prior-TTL matrix, SET/GETEX expiration options, and the keep/clear rule of every writer, observed through PTTL of every key after every transition.",
   note=E1_NOTE + " Exact-deadline coincidences (observation at the very millisecond of the deadline, GT/LT ties) are not judged.", tech=E1_TECH),
 'C17': dict(engine='scan', cat='model_checking', ref='DESIGN.md §3 C17',
   text="Exhaustive enumeration of iteration histories: every placement of up to m (2 quick / 3 thorough) insertions and deletions between the calls of a full SCAN / HSCAN / SSCAN iteration, for every COUNT in {1,2,3,n,n+1,..}, with and without MATCH, over collections whose element names are picked with the dictionary's own hash function so that one insertion doubles the bucket table (16->32->64) and one deletion halves it (64->32->16) in the middle of the iteration (measured: histories_with_table_resize_mid_iteration). Oracle per history: every element present from start to end is returned, nothing absent during the whole iteration is returned, MATCH is honoured, the iteration returns to cursor 0 within a bounded number of calls after the last change.",
   note="Trusted: the harness's bookkeeping of always-present / ever-present elements; the optional private-state probe (table size) only feeds an evidence counter. Tables beyond 128 buckets and more than m mutations per iteration are not covered.",
   tech="exhaustive enumeration of bounded operation histories on the real implementation (stateless model checking of the iteration protocol)"),
 'C09': dict(engine='seq+explore', cat='model_checking', ref='DESIGN.md §3 C09',
   text="Explicit-state BFS over all transaction programs up to 6 (quick) / 8 (thorough) tokens from {MULTI, EXEC, DISCARD, WATCH k, UNWATCH, SET, INCR (ok / runtime error), unknown command, bad arity, BLPOP 0, LPUSH, PING, SELECT 1} on one connection interleaved at command granularity with writes and reads of a second connection; every transition is replayed on the implementation and compared on reply, on the data of databases 0 and 1 seen by an observer connection, and on the connection's session record (MULTI flag, queue length, abort flag, watch count, database) through a private-state probe. Second part, at lock granularity: MULTI/EXEC transactions (plain, WATCHed, with LMOVE/LPUSH, FLUSHDB, SELECT inside, two competing EXECs, DISCARD) against concurrent observers (MGET twice) and writers, explored over all thread schedules with at most 2 / 3 preemptions; every execution must be linearizable with EXEC as a single operation (an observer never sees half a queue).",
   note=E1_NOTE, tech=E1_TECH + " + stateless schedule exploration with preemption bounding (linearizability oracle)"),
 'C10': dict(engine='seq', cat='model_checking', ref='DESIGN.md §3 C10',
   text="Bounded exhaustive: for each watched key type (string, list, hash, set, missing, key with TTL) alone and all together: every writer of the emulator (~90: in place and replacing, every type, rename from/onto, copy onto, STORE forms, EXPIRE/PERSIST/GETEX, UNLINK, FLUSHDB/FLUSHALL, the clock passing a deadline), ~40 readers and ~30 failing writers, issued by the other and by the watching connection, before MULTI and between MULTI and EXEC, in database 0 and 1, each followed by a probe transaction whose EXEC must be null iff a watched key was modified; plus UNWATCH / DISCARD / EXEC / re-WATCH resets and ABA sequences.",
   note=E1_NOTE, tech=E1_TECH),
 'C14': dict(engine='seq', cat='model_checking', ref='DESIGN.md §3 C14',
   text="Explicit-state BFS over all command-granular interleavings (depth 3 quick / 4 thorough) of three connections - the third one connecting in the middle of the history - over SELECT (valid, out of range, non-numeric), SET/GET/RPUSH, DBSIZE, FLUSHDB, FLUSHALL, CLIENT SETNAME/GETNAME, HELLO 2/3, MULTI/EXEC, WATCH; after every transition the data of databases 0, 1 and 15 is dumped through EVERY connected connection (a stale per-connection database pointer shows at once) and every connection's session record is compared with the model.",
   note=E1_NOTE, tech=E1_TECH),
 'C15': dict(engine='c15', cat='model_checking', ref='DESIGN.md §3 C15',
   text="Exhaustive in bounds, two parts. (1) Differential: every command template of the emulator (the ~300-form matrix x 5 target key types, introspection commands, LCS IDX, HRANDFIELD WITHVALUES, transactions nesting every reply shape) x 5 corpus states, executed once on a RESP2 connection and once after HELLO 3 on fresh instances; the RESP2 reply must parse with RESP2 types only and equal the canonical down-conversion of the RESP3 reply (maps and pair lists flattened, sets as multisets, double/big number/verbatim as string, boolean as 0/1, null as nil). (2) State space of HELLO: BFS over all sequences (depth 3 / 4) of HELLO, HELLO 2/3/4/1/0/x, HELLO 3 SETNAME, malformed HELLO on two connections, probing both connections with HGETALL after every step (RESP2 connection must answer a flat array, RESP3 a map) and comparing each session record (proto, name) with the model.",
   note="Trusted: the harness's strict RESP parser and the down-conversion comparator. Replies built from Go maps (COMMAND LIST, CLIENT LIST) are compared order-insensitively; HELLO's own reply and the resp= field of CLIENT INFO legitimately differ between the two runs and are masked.",
   tech="differential exhaustive enumeration (RESP2 vs RESP3 runs of the implementation) + explicit-state BFS of protocol switching against the model"),
 'C08': dict(engine='explore', cat='model_checking', ref='DESIGN.md §3 C08',
   text="Stateless model checking of the implementation: ~480 (quick) / ~1000 (thorough) scenarios - every unordered pair of commands (incl. self pairs) within the string, list, hash, set and generic families on colliding keys, every family command against multi-key generic commands (DEL a b, RENAME, FLUSHDB ...), and 3-connection / 2-commands-per-connection scenarios for MSET/MGET, RENAME, LMOVE, SMOVE, COPY, the STORE forms, BITOP, SELECT, plus MULTI/EXEC transactions against observers and writers - each explored over ALL thread schedules with at most 2 (quick) / 3 (thorough) preemptions, every lock, unlock-to-lock hand-over, CAS on the MULTI lock owner and atomic counter being a scheduling point. Oracle: linearizability by brute force - replies and final state must equal those of some total order (computed on the implementation itself, run sequentially) that respects each connection's order and the real-time precedence of the explored execution.",
   note="Trusted: the cooperative scheduler shim (exactly one thread runs; mutex unlock is merged with the preceding step, which is sound because an unlock commutes with every step other threads can take), and the implementation's sequential behaviour as reference (checked against Redis semantics by C02-C07). Not covered: more preemptions than the bound, more than 3 connections, data races on plain memory (C16).",
   tech="stateless model checking: exhaustive schedule enumeration with iterative preemption bounding on the real code, linearizability oracle"),
 'C11': dict(engine='explore', cat='model_checking', ref='DESIGN.md §3 C11',
   text="Stateless model checking of the block/wake protocol on the real implementation: 31 scenarios (all five blocking commands; 1-3 waiters that are known to be parked before the next phase starts; pushes of 1-3 elements from one or two connections; competing LPOP / DEL / LTRIM / RENAME-onto / SORT STORE-onto / FLUSHDB / EXEC(RPUSH,LPOP,RPUSH); waiters on two keys; BLMOVE chains; waiters that leave the queue by timeout, CLIENT UNBLOCK or through another key) explored over all thread schedules with at most 3 (quick) / 4 (thorough) preemptions or deviations (timer firing early, non-default select case), every step of try -> register -> try -> capture -> select -> release -> retry being a scheduling point. Oracles at quiescence: linearizability against the implementation's sequential runs (conservation, exactly-once, end order), no waiter parked while one of its lists is non-empty, longest-blocked-first wake order, no livelock.",
   note='Trusted: the cooperative scheduler shim and the instrumenter that routes every lock, atomic, channel operation, select, sleep and timer of the emulator through it (build-time overlay, no hand-placed hooks); virtual time only moves when nothing else can run or when the explorer chooses to fire a timer. Not covered: more preemptions/deviations than the bound, more connections than the scenarios have.', tech="stateless model checking: exhaustive schedule enumeration with preemption/deviation bounding on the real code"),
 'C12': dict(engine='explore', cat='model_checking', ref='DESIGN.md §3 C12',
   text="Stateless model checking on the real implementation with a virtual clock: (a) every blocking command with timeouts 0.001, 0.5, 1, 1e6, 1e10 s and 0 - completion exactly at t in virtual time, never for 0; (b) CLIENT UNBLOCK [TIMEOUT|ERROR] released at every scheduling point of the target's block protocol, alone and racing a push: answer 1 => the target ends with null / UNBLOCKED and took no element, answer 0 => the target is not aborted, other clients unaffected; (c) CLIENT KILL of a blocked client, later pushes go to live consumers; (d) repeated block / unblock / timeout / push cycles on one connection with fully determined replies; (e) all five blocking commands inside MULTI return at once. All schedules with at most 3 / 4 preemptions or deviations.",
   note='Trusted: the cooperative scheduler shim and the instrumenter that routes every lock, atomic, channel operation, select, sleep and timer of the emulator through it (build-time overlay, no hand-placed hooks); virtual time only moves when nothing else can run or when the explorer chooses to fire a timer. Not covered: more preemptions/deviations than the bound, more connections than the scenarios have. Closing the peer socket of a blocked connection is covered by the socket-level scenarios of C20.', tech="stateless model checking: exhaustive schedule enumeration with preemption/deviation bounding, virtual time"),
 'C16': dict(engine='explore-race', cat='model_checking', ref='DESIGN.md §2.3, §3 C16',
   text="Schedule exploration in a -race build: ~2200 (quick) / ~8000 (thorough) scenarios - every (thorough) or a quarter plus all self pairs (quick) of the unordered pairs of 118 command templates, one per handler, on colliding keys; connection set-up / tear-down, the saver (dataStoreSet.save on an in-memory file system) against every template; EXEC with a queue and a blocked BLPOP against every second template; CLIENT UNBLOCK / KILL / LIST against blocked clients; SELECT / FLUSHALL / DBSIZE - each explored over all thread schedules with at most 1 (quick) / 2 (thorough) preemptions. The scheduler's hand-offs are hidden from the race detector (RaceDisable around the hand-off, bookkeeping in go:norace functions) while every shim primitive reports the program's own synchronisation (lock = acquire, unlock = release, channel send -> receive, atomics), so the detector judges the emulator's happens-before relation on exactly the schedule the explorer chose: both lock orders of every pair are covered, which a free-running stress test only meets by luck.",
   note="Trusted: the Go race detector; the RaceDisable / RaceAcquire / RaceRelease annotations of the shims. Only reports whose both accesses lie in emulator code count (not inside shims / harness, not while a thread is being torn down at the end of an execution). Socket-level connection goroutines are covered by the C20 scenarios, which also run in this build in the thorough tier.",
   tech="stateless schedule enumeration with preemption bounding on the real code; per-schedule verdict by the Go race detector (happens-before)"),
 'C01': dict(engine='wire', cat='exploration', ref='DESIGN.md §2.5, §3 C01',
   text="Exhaustive in bounds on the real socket path (clientCxn state machine, incremental re-parse, serializer) over an in-memory connection whose reads return exactly the segments the harness wrote: 125 pipelines of 1-5 commands (ECHO, SET/GET, APPEND, RPUSH/LRANGE, HSET/HGETALL, SADD/SMEMBERS, LCS, unknown commands, wrong arity, errors quoting client input, MULTI/EXEC, HELLO 3, INFO and CLIENT LIST under RESP2) with argument byte strings empty, CR LF, LF, NUL, non-UTF-8, frame look-alikes, and 8190..16384-byte payloads around the 8192-byte read buffer; each sent unsplit, byte by byte, with EVERY single cut and EVERY pair of cuts (long payloads: every cut within 4 bytes of a frame boundary, the bulk header or a multiple of 8192). Oracle: the reply stream parses with a strict RESP parser into exactly one value per command, equals the reference model's replies (stored bytes read back identical), is identical for every segmentation, no reply appears before its command is complete, a second connection is still served.",
   note="Trusted: the strict RESP parser of the harness, the in-memory connection (a Read returns at most one written segment), the reference model for the expected replies. The time between two segments needs no enumeration: the read path has no timer, the server only waits in Read. Three or more cuts and pipelines outside the corpus are not covered.",
   tech="exhaustive enumeration of request-stream segmentations (all 1- and 2-cut placements) on the real socket code under the controlled scheduler"),
}
pending_reason = "check not built yet (work in progress in this session; see DESIGN.md build order)"

checks = []
for i in ids:
    if i not in claims: continue
    c = claims[i]
    checks.append({
        "property_id": i,
        "quick_cmd": f"bash bin/verif check {i} --tier quick",
        "thorough_cmd": f"bash bin/verif check {i} --tier thorough",
        "evidence_file": f"/verif/evidence/{i}.json",
        "replay_cmd_template": "bash bin/verif replay {path}",
        "engine": c['engine'],
        "level_claimed": {"category": c['cat'], "text": c['text'], "design_ref": c['ref']},
        "level_note": c['note'],
        "technique": c['tech'],
    })
manifest = {
 "version": 1,
 "setup_cmd": "bash bin/setup.sh",
 "hooks": {
   "guard": "verif",
   "enable": "bash bin/build.sh: tools/instr rewrites /repo's working tree into a `go build -tags verif -overlay` description (shims for sync, sync/atomic, time, math/rand, net, os; go statements, channels and select routed to the controlled scheduler); /repo itself carries no hook code",
   "baseline_off_cmd": "bash bin/baseline.sh /repo",
   "source_commits": [],
   "add_only": True
 },
 "engines": [
   {"name": "explore", "path": "checks/mc/explore.go", "serves_properties": ["C08", "C09", "C11", "C12"], "kind_free_text": "E2: controlled scheduler + DFS by prefix replay, iterative preemption bounding, 16 worker processes"},
   {"name": "explore-race", "path": "checks/mc/racecheck.go", "serves_properties": ["C16"], "kind_free_text": "E2 in a -race build with detector-invisible scheduler hand-offs"},
   {"name": "wire", "path": "checks/mc/wire.go", "serves_properties": ["C01"], "kind_free_text": "E4: socket-level driver (in-memory net.Conn with harness-chosen segmentation)"},
   {"name": "c15", "path": "checks/mc/c15.go", "serves_properties": ["C15"], "kind_free_text": "RESP2/RESP3 differential enumeration + HELLO state space"},
   {"name": "scan", "path": "checks/mc/scan.go", "serves_properties": ["C17"], "kind_free_text": "history enumeration for the SCAN family"},
   {"name": "seq", "path": "checks/mc/seq.go", "serves_properties": [i for i in ids if claims.get(i,{}).get('engine')=='seq'], "kind_free_text": "E1: explicit-state BFS over model states, transitions replayed on the implementation (16 worker processes)"},
 ],
 "checks": checks,
 "not_applicable": [{"property_id": i, "reason": pending_reason} for i in ids if i not in claims],
 "notes": "Genuine defects found are either repaired in /repo by 'fix:' commits or listed in KNOWN_FINDINGS.txt; see DESIGN.md."
}
json.dump(manifest, open(os.path.join(ROOT, 'MANIFEST.json'), 'w'), indent=1)
print("manifest:", len(checks), "checks,", len(manifest['not_applicable']), "not claimed")
