// instr: generates a `go build -overlay` description that instruments the
// go-redisemu package without touching /repo.
//
//   - import paths of nondeterministic std packages are redirected to shims
//     (sync, sync/atomic, time, math/rand, net, os, os/signal, path/filepath)
//   - `go f(x)`      -> verifrt.Go(func() { f(x) })
//   - chan T          -> *verifrt.Chan[T]; make(chan T, n) -> verifrt.NewChan[T](n)
//   - c <- v          -> verifrt.Send(c, v);  <-c -> verifrt.Recv(c); close(c) -> verifrt.Close(c)
//   - select {...}    -> switch on verifrt.Select(...)
//
// plus virtual packages (runtime, model, harness, checker main) mapped into the
// module path of go-redisemu.
//
// usage: instr -repo /repo -verif /verif -out /verif/.build/<variant>
package main

import (
	"bytes"
	"encoding/json"
	"flag"
	"fmt"
	"go/ast"
	"go/parser"
	"go/printer"
	"go/token"
	"os"
	"path/filepath"
	"sort"
	"strconv"
	"strings"
)

const modPath = "github.com/jimsnab/go-redisemu"

var importMap = map[string]string{
	"sync":          modPath + "/verifrt/vsync",
	"sync/atomic":   modPath + "/verifrt/vatomic",
	"time":          modPath + "/verifrt/vtime",
	"math/rand":     modPath + "/verifrt/vrand",
	"net":           modPath + "/verifrt/vnet",
	"os":            modPath + "/verifrt/vos",
	"os/signal":     modPath + "/verifrt/vsignal",
	"path/filepath": modPath + "/verifrt/vfilepath",
}

// files of the root package that are left exactly as they are (they only hold
// the go-redis based real-server test client, unused by the harness)
var skipFiles = map[string]bool{}

func main() {
	repo := flag.String("repo", "/repo", "repository root")
	verif := flag.String("verif", "/verif", "verification root")
	out := flag.String("out", "/verif/.build/plain", "output directory")
	flag.Parse()

	must(os.MkdirAll(filepath.Join(*out, "src"), 0o755))
	replace := map[string]string{}

	ents, err := os.ReadDir(*repo)
	must(err)
	for _, e := range ents {
		name := e.Name()
		if e.IsDir() || !strings.HasSuffix(name, ".go") || strings.HasSuffix(name, "_test.go") {
			continue
		}
		if skipFiles[name] {
			continue
		}
		src := filepath.Join(*repo, name)
		data, err := os.ReadFile(src)
		must(err)
		res, changed, err := rewrite(src, data)
		if err != nil {
			fmt.Fprintf(os.Stderr, "instr: %s: %v\n", name, err)
			os.Exit(3)
		}
		if !changed {
			continue
		}
		dst := filepath.Join(*out, "src", name)
		writeIfChanged(dst, res)
		replace[src] = dst
	}

	// virtual packages
	mapDir := func(srcDir, dstRel string) {
		filepath.WalkDir(srcDir, func(p string, d os.DirEntry, err error) error {
			if err != nil || d.IsDir() {
				return nil
			}
			if !strings.HasSuffix(p, ".go") || strings.HasSuffix(p, "_test.go") {
				return nil
			}
			rel, _ := filepath.Rel(srcDir, p)
			replace[filepath.Join(*repo, dstRel, rel)] = p
			return nil
		})
	}
	mapDir(filepath.Join(*verif, "rt"), "verifrt")
	mapDir(filepath.Join(*verif, "model"), "verifmodel")
	mapDir(filepath.Join(*verif, "checks"), "verifcmd")
	// harness files go into the root package
	hents, _ := os.ReadDir(filepath.Join(*verif, "harness"))
	for _, e := range hents {
		if strings.HasSuffix(e.Name(), ".go") {
			replace[filepath.Join(*repo, "zz_verif_"+e.Name())] = filepath.Join(*verif, "harness", e.Name())
		}
	}

	// the function that resets every package-level variable of the root package (see globalsReset)
	{
		sort.Strings(resetFns)
		var b strings.Builder
		b.WriteString("//go:build verif\n\npackage redisemu\n\nfunc vResetAllGlobals() {\n")
		for _, fn := range resetFns {
			b.WriteString("\t" + fn + "()\n")
		}
		b.WriteString("}\n")
		dst := filepath.Join(*out, "src", "zz_verif_resetall_gen.go")
		writeIfChanged(dst, []byte(b.String()))
		replace[filepath.Join(*repo, "zz_verif_resetall_gen.go")] = dst
	}

	ov := struct{ Replace map[string]string }{replace}
	js, _ := json.MarshalIndent(ov, "", " ")
	writeIfChanged(filepath.Join(*out, "overlay.json"), js)
}

func writeIfChanged(path string, data []byte) {
	old, err := os.ReadFile(path)
	if err == nil && bytes.Equal(old, data) {
		return
	}
	must(os.WriteFile(path, data, 0o644))
}

func must(err error) {
	if err != nil {
		fmt.Fprintln(os.Stderr, "instr:", err)
		os.Exit(3)
	}
}

type rewriter struct {
	fset    *token.FileSet
	changed bool
	needRT  bool
	selN    int
	err     error
}

func rewrite(path string, data []byte) ([]byte, bool, error) {
	fset := token.NewFileSet()
	f, err := parser.ParseFile(fset, path, data, parser.ParseComments)
	if err != nil {
		return nil, false, err
	}
	rw := &rewriter{fset: fset}

	for _, imp := range f.Imports {
		p, _ := strconv.Unquote(imp.Path.Value)
		if np, ok := importMap[p]; ok {
			if imp.Name == nil {
				// keep the original package identifier
				base := p[strings.LastIndex(p, "/")+1:]
				imp.Name = ast.NewIdent(base)
			}
			imp.Path.Value = strconv.Quote(np)
			rw.changed = true
		}
	}

	rw.file(f)
	if rw.err != nil {
		return nil, false, rw.err
	}
	resetFn, resetBody := globalsReset(fset, f, path)
	if resetBody != "" {
		rw.changed = true
		resetFns = append(resetFns, resetFn)
	}
	if !rw.changed {
		return nil, false, nil
	}
	if rw.needRT {
		addImport(f, "verifrt", modPath+"/verifrt")
	}

	var buf bytes.Buffer
	buf.WriteString("//go:build verif\n\n")
	cfg := printer.Config{Mode: printer.SourcePos | printer.TabIndent | printer.UseSpaces, Tabwidth: 8}
	if err := cfg.Fprint(&buf, fset, f); err != nil {
		return nil, false, err
	}
	buf.WriteString(resetBody)
	return buf.Bytes(), true, nil
}

// resetFns: the per-file functions that put the package-level variables of the instrumented
// package back to their initial values (see globalsReset)
var resetFns []string

// globalsReset returns the source of a function that assigns to every package-level variable of
// the file its initial value again (the initialiser expression is evaluated anew; a variable
// without one gets the zero value). Embedded resources (go:embed) and blank variables are left
// alone. The harness calls all of them between two executions, so that every execution starts
// from the state of a fresh process - including state a change of the code under test introduces
// (a lazily built table, a buffer hoisted to package scope), which no hand-written list knows.
func globalsReset(fset *token.FileSet, f *ast.File, path string) (name, src string) {
	str := func(n ast.Node) string {
		var b bytes.Buffer
		printer.Fprint(&b, token.NewFileSet(), n)
		return b.String()
	}
	embedded := func(cg *ast.CommentGroup) bool {
		if cg == nil {
			return false
		}
		for _, c := range cg.List {
			if strings.HasPrefix(c.Text, "//go:embed") {
				return true
			}
		}
		return false
	}
	var body strings.Builder
	for _, d := range f.Decls {
		gd, ok := d.(*ast.GenDecl)
		if !ok || gd.Tok != token.VAR || embedded(gd.Doc) {
			continue
		}
		for _, sp := range gd.Specs {
			vs := sp.(*ast.ValueSpec)
			if embedded(vs.Doc) {
				continue
			}
			switch {
			case len(vs.Values) == len(vs.Names):
				for i, n := range vs.Names {
					if n.Name != "_" {
						fmt.Fprintf(&body, "\t%s = %s\n", n.Name, str(vs.Values[i]))
					}
				}
			case len(vs.Values) == 0:
				for _, n := range vs.Names {
					if n.Name != "_" {
						fmt.Fprintf(&body, "\t{\n\t\tvar zero %s\n\t\t%s = zero\n\t}\n", str(vs.Type), n.Name)
					}
				}
			default: // a, b = f()
				var names []string
				for _, n := range vs.Names {
					names = append(names, n.Name)
				}
				fmt.Fprintf(&body, "\t%s = %s\n", strings.Join(names, ", "), str(vs.Values[0]))
			}
		}
	}
	if body.Len() == 0 {
		return "", ""
	}
	base := strings.TrimSuffix(filepath.Base(path), ".go")
	name = "vResetGlobals_" + strings.Map(func(r rune) rune {
		if r >= 'a' && r <= 'z' || r >= 'A' && r <= 'Z' || r >= '0' && r <= '9' {
			return r
		}
		return '_'
	}, base)
	return name, "\n//line zz_verif_reset.go:1\nfunc " + name + "() {\n" + body.String() + "}\n"
}

func addImport(f *ast.File, name, path string) {
	spec := &ast.ImportSpec{Name: ast.NewIdent(name), Path: &ast.BasicLit{Kind: token.STRING, Value: strconv.Quote(path)}}
	for _, d := range f.Decls {
		if gd, ok := d.(*ast.GenDecl); ok && gd.Tok == token.IMPORT {
			gd.Specs = append(gd.Specs, spec)
			if !gd.Lparen.IsValid() {
				gd.Lparen = gd.Pos()
				gd.Rparen = gd.End()
			}
			f.Imports = append(f.Imports, spec)
			return
		}
	}
	gd := &ast.GenDecl{Tok: token.IMPORT, Specs: []ast.Spec{spec}}
	f.Decls = append([]ast.Decl{gd}, f.Decls...)
	f.Imports = append(f.Imports, spec)
}

func rtSel(name string) ast.Expr {
	return &ast.SelectorExpr{X: ast.NewIdent("verifrt"), Sel: ast.NewIdent(name)}
}

// ---- generic tree walk with replacement --------------------------------------------------

func (rw *rewriter) file(f *ast.File) {
	for _, d := range f.Decls {
		rw.decl(d)
	}
}

func (rw *rewriter) decl(d ast.Decl) {
	switch d := d.(type) {
	case *ast.GenDecl:
		for _, s := range d.Specs {
			switch s := s.(type) {
			case *ast.TypeSpec:
				s.Type = rw.expr(s.Type)
			case *ast.ValueSpec:
				if s.Type != nil {
					s.Type = rw.expr(s.Type)
				}
				for i := range s.Values {
					s.Values[i] = rw.expr(s.Values[i])
				}
			}
		}
	case *ast.FuncDecl:
		if d.Recv != nil {
			rw.fieldList(d.Recv)
		}
		rw.funcType(d.Type)
		if d.Body != nil {
			rw.block(d.Body)
		}
	}
}

func (rw *rewriter) fieldList(fl *ast.FieldList) {
	if fl == nil {
		return
	}
	for _, f := range fl.List {
		f.Type = rw.expr(f.Type)
	}
}

func (rw *rewriter) funcType(ft *ast.FuncType) {
	rw.fieldList(ft.TypeParams)
	rw.fieldList(ft.Params)
	rw.fieldList(ft.Results)
}

func (rw *rewriter) block(b *ast.BlockStmt) {
	if b == nil {
		return
	}
	for i := range b.List {
		b.List[i] = rw.stmt(b.List[i])
	}
}

func (rw *rewriter) stmts(l []ast.Stmt) {
	for i := range l {
		l[i] = rw.stmt(l[i])
	}
}

func (rw *rewriter) stmt(s ast.Stmt) ast.Stmt {
	switch s := s.(type) {
	case nil:
		return nil
	case *ast.BlockStmt:
		rw.block(s)
	case *ast.ExprStmt:
		s.X = rw.expr(s.X)
	case *ast.SendStmt:
		rw.changed, rw.needRT = true, true
		return &ast.ExprStmt{X: &ast.CallExpr{Fun: rtSel("Send"), Args: []ast.Expr{rw.expr(s.Chan), rw.expr(s.Value)}}}
	case *ast.IncDecStmt:
		s.X = rw.expr(s.X)
	case *ast.AssignStmt:
		// v, ok := <-c
		if len(s.Lhs) == 2 && len(s.Rhs) == 1 {
			if u, ok := s.Rhs[0].(*ast.UnaryExpr); ok && u.Op == token.ARROW {
				rw.changed, rw.needRT = true, true
				s.Rhs[0] = &ast.CallExpr{Fun: rtSel("Recv2"), Args: []ast.Expr{rw.expr(u.X)}}
				for i := range s.Lhs {
					s.Lhs[i] = rw.expr(s.Lhs[i])
				}
				return s
			}
		}
		for i := range s.Lhs {
			s.Lhs[i] = rw.expr(s.Lhs[i])
		}
		for i := range s.Rhs {
			s.Rhs[i] = rw.expr(s.Rhs[i])
		}
	case *ast.GoStmt:
		rw.changed, rw.needRT = true, true
		call := rw.expr(s.Call).(*ast.CallExpr)
		var fn ast.Expr
		if fl, ok := call.Fun.(*ast.FuncLit); ok && len(call.Args) == 0 {
			fn = fl
		} else {
			fn = &ast.FuncLit{Type: &ast.FuncType{Params: &ast.FieldList{}}, Body: &ast.BlockStmt{List: []ast.Stmt{&ast.ExprStmt{X: call}}}}
		}
		return &ast.ExprStmt{X: &ast.CallExpr{Fun: rtSel("Go"), Args: []ast.Expr{fn}}}
	case *ast.DeferStmt:
		s.Call = rw.expr(s.Call).(*ast.CallExpr)
	case *ast.ReturnStmt:
		for i := range s.Results {
			s.Results[i] = rw.expr(s.Results[i])
		}
	case *ast.IfStmt:
		s.Init = rw.stmt(s.Init)
		s.Cond = rw.expr(s.Cond)
		rw.block(s.Body)
		s.Else = rw.stmt(s.Else)
	case *ast.CaseClause:
		for i := range s.List {
			s.List[i] = rw.expr(s.List[i])
		}
		rw.stmts(s.Body)
	case *ast.SwitchStmt:
		s.Init = rw.stmt(s.Init)
		if s.Tag != nil {
			s.Tag = rw.expr(s.Tag)
		}
		rw.block(s.Body)
	case *ast.TypeSwitchStmt:
		s.Init = rw.stmt(s.Init)
		s.Assign = rw.stmt(s.Assign)
		rw.block(s.Body)
	case *ast.SelectStmt:
		return rw.selectStmt(s)
	case *ast.ForStmt:
		s.Init = rw.stmt(s.Init)
		if s.Cond != nil {
			s.Cond = rw.expr(s.Cond)
		}
		s.Post = rw.stmt(s.Post)
		rw.block(s.Body)
	case *ast.RangeStmt:
		s.X = rw.expr(s.X)
		rw.block(s.Body)
	case *ast.LabeledStmt:
		s.Stmt = rw.stmt(s.Stmt)
	case *ast.DeclStmt:
		rw.decl(s.Decl)
	case *ast.BranchStmt, *ast.EmptyStmt:
	default:
		rw.err = fmt.Errorf("unsupported statement %T at %s", s, rw.fset.Position(s.Pos()))
	}
	return s
}

func (rw *rewriter) exprs(l []ast.Expr) {
	for i := range l {
		l[i] = rw.expr(l[i])
	}
}

func (rw *rewriter) expr(e ast.Expr) ast.Expr {
	switch e := e.(type) {
	case nil:
		return nil
	case *ast.ChanType:
		rw.changed, rw.needRT = true, true
		// all directions map to the same shim type
		return &ast.StarExpr{X: &ast.IndexExpr{X: rtSel("Chan"), Index: rw.expr(e.Value)}}
	case *ast.UnaryExpr:
		if e.Op == token.ARROW {
			rw.changed, rw.needRT = true, true
			return &ast.CallExpr{Fun: rtSel("Recv"), Args: []ast.Expr{rw.expr(e.X)}}
		}
		e.X = rw.expr(e.X)
	case *ast.CallExpr:
		if id, ok := e.Fun.(*ast.Ident); ok {
			switch id.Name {
			case "make":
				if len(e.Args) >= 1 {
					if ct, ok := e.Args[0].(*ast.ChanType); ok {
						rw.changed, rw.needRT = true, true
						var size ast.Expr = &ast.BasicLit{Kind: token.INT, Value: "0"}
						if len(e.Args) >= 2 {
							size = rw.expr(e.Args[1])
						}
						return &ast.CallExpr{Fun: &ast.IndexExpr{X: rtSel("NewChan"), Index: rw.expr(ct.Value)}, Args: []ast.Expr{size}}
					}
				}
			case "close":
				if len(e.Args) == 1 {
					rw.changed, rw.needRT = true, true
					return &ast.CallExpr{Fun: rtSel("Close"), Args: []ast.Expr{rw.expr(e.Args[0])}}
				}
			}
		}
		e.Fun = rw.expr(e.Fun)
		rw.exprs(e.Args)
	case *ast.FuncLit:
		rw.funcType(e.Type)
		rw.block(e.Body)
	case *ast.CompositeLit:
		if e.Type != nil {
			e.Type = rw.expr(e.Type)
		}
		rw.exprs(e.Elts)
	case *ast.KeyValueExpr:
		e.Key = rw.expr(e.Key)
		e.Value = rw.expr(e.Value)
	case *ast.ParenExpr:
		e.X = rw.expr(e.X)
	case *ast.SelectorExpr:
		e.X = rw.expr(e.X)
	case *ast.IndexExpr:
		e.X = rw.expr(e.X)
		e.Index = rw.expr(e.Index)
	case *ast.IndexListExpr:
		e.X = rw.expr(e.X)
		rw.exprs(e.Indices)
	case *ast.SliceExpr:
		e.X = rw.expr(e.X)
		e.Low, e.High, e.Max = rw.expr(e.Low), rw.expr(e.High), rw.expr(e.Max)
	case *ast.TypeAssertExpr:
		e.X = rw.expr(e.X)
		e.Type = rw.expr(e.Type)
	case *ast.StarExpr:
		e.X = rw.expr(e.X)
	case *ast.BinaryExpr:
		e.X = rw.expr(e.X)
		e.Y = rw.expr(e.Y)
	case *ast.ArrayType:
		e.Len = rw.expr(e.Len)
		e.Elt = rw.expr(e.Elt)
	case *ast.MapType:
		e.Key = rw.expr(e.Key)
		e.Value = rw.expr(e.Value)
	case *ast.StructType:
		rw.fieldList(e.Fields)
	case *ast.InterfaceType:
		rw.fieldList(e.Methods)
	case *ast.FuncType:
		rw.funcType(e)
	case *ast.Ellipsis:
		e.Elt = rw.expr(e.Elt)
	case *ast.Ident, *ast.BasicLit:
	default:
		rw.err = fmt.Errorf("unsupported expression %T at %s", e, rw.fset.Position(e.Pos()))
	}
	return e
}

// select { case v := <-a: A; case b <- x: B; default: D }
//
//	=> { __selN := verifrt.Select(hasDefault, verifrt.CaseRecv(a), verifrt.CaseSend(b, x))
//	     switch __selN.I { case 0: v := verifrt.Got(a, __selN); A; case 1: B; default: D } }
func (rw *rewriter) selectStmt(s *ast.SelectStmt) ast.Stmt {
	rw.changed, rw.needRT = true, true
	rw.selN++
	selName := fmt.Sprintf("__sel%d", rw.selN)
	hasDefault := "false"
	var cases []ast.Expr
	var clauses []ast.Stmt
	idx := 0
	for _, c := range s.Body.List {
		cc := c.(*ast.CommClause)
		var body []ast.Stmt
		var tag []ast.Expr
		if cc.Comm == nil {
			hasDefault = "true"
		} else {
			tag = []ast.Expr{&ast.BasicLit{Kind: token.INT, Value: strconv.Itoa(idx)}}
			idx++
			switch cm := cc.Comm.(type) {
			case *ast.SendStmt:
				cases = append(cases, &ast.CallExpr{Fun: rtSel("CaseSend"), Args: []ast.Expr{rw.expr(cm.Chan), rw.expr(cm.Value)}})
			case *ast.ExprStmt:
				u, ok := cm.X.(*ast.UnaryExpr)
				if !ok || u.Op != token.ARROW {
					rw.err = fmt.Errorf("unsupported select case at %s", rw.fset.Position(cm.Pos()))
					return s
				}
				cases = append(cases, &ast.CallExpr{Fun: rtSel("CaseRecv"), Args: []ast.Expr{rw.expr(u.X)}})
			case *ast.AssignStmt:
				u, ok := cm.Rhs[0].(*ast.UnaryExpr)
				if !ok || u.Op != token.ARROW {
					rw.err = fmt.Errorf("unsupported select case at %s", rw.fset.Position(cm.Pos()))
					return s
				}
				ch := rw.expr(u.X)
				cases = append(cases, &ast.CallExpr{Fun: rtSel("CaseRecv"), Args: []ast.Expr{ch}})
				fn := "Got"
				if len(cm.Lhs) == 2 {
					fn = "Got2"
				}
				as := &ast.AssignStmt{Lhs: cm.Lhs, Tok: cm.Tok, Rhs: []ast.Expr{&ast.CallExpr{Fun: rtSel(fn), Args: []ast.Expr{ch, ast.NewIdent(selName)}}}}
				body = append(body, as)
				if cm.Tok == token.DEFINE {
					// avoid "declared and not used"
					for _, l := range cm.Lhs {
						if id, ok := l.(*ast.Ident); ok && id.Name != "_" {
							body = append(body, &ast.AssignStmt{Lhs: []ast.Expr{ast.NewIdent("_")}, Tok: token.ASSIGN, Rhs: []ast.Expr{ast.NewIdent(id.Name)}})
						}
					}
				}
			default:
				rw.err = fmt.Errorf("unsupported select comm %T", cm)
				return s
			}
		}
		rw.stmts(cc.Body)
		body = append(body, cc.Body...)
		clauses = append(clauses, &ast.CaseClause{List: tag, Body: body})
	}
	if hasDefault == "false" {
		// keep the statement "terminating" when every case returns, as the select was
		clauses = append(clauses, &ast.CaseClause{Body: []ast.Stmt{&ast.ExprStmt{X: &ast.CallExpr{Fun: ast.NewIdent("panic"), Args: []ast.Expr{&ast.BasicLit{Kind: token.STRING, Value: `"verifrt: select without ready case"`}}}}}})
	}
	args := append([]ast.Expr{ast.NewIdent(hasDefault)}, cases...)
	assign := &ast.AssignStmt{Lhs: []ast.Expr{ast.NewIdent(selName)}, Tok: token.DEFINE, Rhs: []ast.Expr{&ast.CallExpr{Fun: rtSel("Select"), Args: args}}}
	sw := &ast.SwitchStmt{Tag: &ast.SelectorExpr{X: ast.NewIdent(selName), Sel: ast.NewIdent("I")}, Body: &ast.BlockStmt{List: clauses}}
	return &ast.BlockStmt{List: []ast.Stmt{assign, sw}}
}

var _ = sort.Strings
