module instr

go 1.22
