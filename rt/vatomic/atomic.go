// Package atomic (shim): every atomic operation is a scheduling point.
package atomic

import (
	"unsafe"

	rt "github.com/jimsnab/go-redisemu/verifrt"
)

//go:norace
func pt(addr any) { rt.Point(rt.OpAtomic, addr, nil) }

//go:norace
func ptR(addr any) { rt.Point(rt.OpAtomic, rt.ReadOnly(addr), nil) }

//go:norace
func AddInt32(addr *int32, delta int32) int32     { pt(addr); rt.RaceRW(addr); *addr += delta; return *addr }
//go:norace
func AddInt64(addr *int64, delta int64) int64     { pt(addr); rt.RaceRW(addr); *addr += delta; return *addr }
//go:norace
func AddUint32(addr *uint32, delta uint32) uint32 { pt(addr); rt.RaceRW(addr); *addr += delta; return *addr }
//go:norace
func AddUint64(addr *uint64, delta uint64) uint64 { pt(addr); rt.RaceRW(addr); *addr += delta; return *addr }

//go:norace
func LoadInt32(addr *int32) int32    { ptR(addr); rt.RaceRW(addr); return *addr }
//go:norace
func LoadInt64(addr *int64) int64    { ptR(addr); rt.RaceRW(addr); return *addr }
//go:norace
func LoadUint32(addr *uint32) uint32 { ptR(addr); rt.RaceRW(addr); return *addr }
//go:norace
func LoadUint64(addr *uint64) uint64 { ptR(addr); rt.RaceRW(addr); return *addr }

//go:norace
func StoreInt32(addr *int32, v int32)    { pt(addr); rt.RaceRW(addr); *addr = v }
//go:norace
func StoreInt64(addr *int64, v int64)    { pt(addr); rt.RaceRW(addr); *addr = v }
//go:norace
func StoreUint32(addr *uint32, v uint32) { pt(addr); rt.RaceRW(addr); *addr = v }
//go:norace
func StoreUint64(addr *uint64, v uint64) { pt(addr); rt.RaceRW(addr); *addr = v }

//go:norace
func SwapInt32(addr *int32, v int32) int32     { pt(addr); rt.RaceRW(addr); o := *addr; *addr = v; return o }
//go:norace
func SwapInt64(addr *int64, v int64) int64     { pt(addr); rt.RaceRW(addr); o := *addr; *addr = v; return o }
//go:norace
func SwapUint32(addr *uint32, v uint32) uint32 { pt(addr); rt.RaceRW(addr); o := *addr; *addr = v; return o }
//go:norace
func SwapUint64(addr *uint64, v uint64) uint64 { pt(addr); rt.RaceRW(addr); o := *addr; *addr = v; return o }

//go:norace
func CompareAndSwapInt32(addr *int32, old, new int32) bool {
	pt(addr)
	rt.RaceRW(addr)
	if *addr == old {
		*addr = new
		return true
	}
	return false
}
//go:norace
func CompareAndSwapInt64(addr *int64, old, new int64) bool {
	pt(addr)
	rt.RaceRW(addr)
	if *addr == old {
		*addr = new
		return true
	}
	return false
}
//go:norace
func CompareAndSwapUint32(addr *uint32, old, new uint32) bool {
	pt(addr)
	rt.RaceRW(addr)
	if *addr == old {
		*addr = new
		return true
	}
	return false
}
//go:norace
func CompareAndSwapUint64(addr *uint64, old, new uint64) bool {
	pt(addr)
	rt.RaceRW(addr)
	if *addr == old {
		*addr = new
		return true
	}
	return false
}

type Int32 struct{ v int32 }

//go:norace
func (x *Int32) Load() int32           { return LoadInt32(&x.v) }
//go:norace
func (x *Int32) Store(v int32)         { StoreInt32(&x.v, v) }
//go:norace
func (x *Int32) Add(d int32) int32     { return AddInt32(&x.v, d) }
//go:norace
func (x *Int32) Swap(v int32) int32    { return SwapInt32(&x.v, v) }
//go:norace
func (x *Int32) CompareAndSwap(o, n int32) bool { return CompareAndSwapInt32(&x.v, o, n) }

type Int64 struct{ v int64 }

//go:norace
func (x *Int64) Load() int64           { return LoadInt64(&x.v) }
//go:norace
func (x *Int64) Store(v int64)         { StoreInt64(&x.v, v) }
//go:norace
func (x *Int64) Add(d int64) int64     { return AddInt64(&x.v, d) }
//go:norace
func (x *Int64) Swap(v int64) int64    { return SwapInt64(&x.v, v) }
//go:norace
func (x *Int64) CompareAndSwap(o, n int64) bool { return CompareAndSwapInt64(&x.v, o, n) }

type Uint32 struct{ v uint32 }

//go:norace
func (x *Uint32) Load() uint32          { return LoadUint32(&x.v) }
//go:norace
func (x *Uint32) Store(v uint32)        { StoreUint32(&x.v, v) }
//go:norace
func (x *Uint32) Add(d uint32) uint32   { return AddUint32(&x.v, d) }
//go:norace
func (x *Uint32) Swap(v uint32) uint32  { return SwapUint32(&x.v, v) }
//go:norace
func (x *Uint32) CompareAndSwap(o, n uint32) bool { return CompareAndSwapUint32(&x.v, o, n) }

type Uint64 struct{ v uint64 }

//go:norace
func (x *Uint64) Load() uint64          { return LoadUint64(&x.v) }
//go:norace
func (x *Uint64) Store(v uint64)        { StoreUint64(&x.v, v) }
//go:norace
func (x *Uint64) Add(d uint64) uint64   { return AddUint64(&x.v, d) }
//go:norace
func (x *Uint64) Swap(v uint64) uint64  { return SwapUint64(&x.v, v) }
//go:norace
func (x *Uint64) CompareAndSwap(o, n uint64) bool { return CompareAndSwapUint64(&x.v, o, n) }

type Bool struct{ v int32 }

//go:norace
func (x *Bool) Load() bool { return LoadInt32(&x.v) != 0 }
//go:norace
func (x *Bool) Store(b bool) {
	if b {
		StoreInt32(&x.v, 1)
	} else {
		StoreInt32(&x.v, 0)
	}
}
//go:norace
func (x *Bool) Swap(b bool) bool {
	n := int32(0)
	if b {
		n = 1
	}
	return SwapInt32(&x.v, n) != 0
}
//go:norace
func (x *Bool) CompareAndSwap(o, n bool) bool {
	oi, ni := int32(0), int32(0)
	if o {
		oi = 1
	}
	if n {
		ni = 1
	}
	return CompareAndSwapInt32(&x.v, oi, ni)
}

type Value struct{ v any }

//go:norace
func (x *Value) Load() any   { ptR(x); rt.RaceRW(x); return x.v }
//go:norace
func (x *Value) Store(v any) { pt(x); rt.RaceRW(x); x.v = v }

type Pointer[T any] struct{ p *T }

//go:norace
func (x *Pointer[T]) Load() *T   { ptR(x); rt.RaceRW(x); return x.p }
//go:norace
func (x *Pointer[T]) Store(p *T) { pt(x); rt.RaceRW(x); x.p = p }
//go:norace
func (x *Pointer[T]) Swap(p *T) *T { pt(x); rt.RaceRW(x); o := x.p; x.p = p; return o }
//go:norace
func (x *Pointer[T]) CompareAndSwap(o, n *T) bool {
	pt(x)
	rt.RaceRW(x)
	if x.p == o {
		x.p = n
		return true
	}
	return false
}

// ---- the rest of the package's surface (uintptr, unsafe pointers, And/Or) --------------------------

//go:norace
func AddUintptr(addr *uintptr, delta uintptr) uintptr { pt(addr); rt.RaceRW(addr); *addr += delta; return *addr }
//go:norace
func LoadUintptr(addr *uintptr) uintptr { ptR(addr); rt.RaceRW(addr); return *addr }
//go:norace
func StoreUintptr(addr *uintptr, v uintptr) { pt(addr); rt.RaceRW(addr); *addr = v }
//go:norace
func SwapUintptr(addr *uintptr, v uintptr) uintptr { pt(addr); rt.RaceRW(addr); o := *addr; *addr = v; return o }
//go:norace
func CompareAndSwapUintptr(addr *uintptr, old, new uintptr) bool {
	pt(addr)
	rt.RaceRW(addr)
	if *addr == old {
		*addr = new
		return true
	}
	return false
}
//go:norace
func LoadPointer(addr *unsafe.Pointer) unsafe.Pointer { ptR(addr); rt.RaceRW(addr); return *addr }
//go:norace
func StorePointer(addr *unsafe.Pointer, v unsafe.Pointer) { pt(addr); rt.RaceRW(addr); *addr = v }
//go:norace
func SwapPointer(addr *unsafe.Pointer, v unsafe.Pointer) unsafe.Pointer { pt(addr); rt.RaceRW(addr); o := *addr; *addr = v; return o }
//go:norace
func CompareAndSwapPointer(addr *unsafe.Pointer, old, new unsafe.Pointer) bool {
	pt(addr)
	rt.RaceRW(addr)
	if *addr == old {
		*addr = new
		return true
	}
	return false
}

//go:norace
func AndInt32(addr *int32, mask int32) int32 { pt(addr); rt.RaceRW(addr); o := *addr; *addr &= mask; return o }
//go:norace
func AndInt64(addr *int64, mask int64) int64 { pt(addr); rt.RaceRW(addr); o := *addr; *addr &= mask; return o }
//go:norace
func AndUint32(addr *uint32, mask uint32) uint32 { pt(addr); rt.RaceRW(addr); o := *addr; *addr &= mask; return o }
//go:norace
func AndUint64(addr *uint64, mask uint64) uint64 { pt(addr); rt.RaceRW(addr); o := *addr; *addr &= mask; return o }
//go:norace
func AndUintptr(addr *uintptr, mask uintptr) uintptr { pt(addr); rt.RaceRW(addr); o := *addr; *addr &= mask; return o }
//go:norace
func OrInt32(addr *int32, mask int32) int32 { pt(addr); rt.RaceRW(addr); o := *addr; *addr |= mask; return o }
//go:norace
func OrInt64(addr *int64, mask int64) int64 { pt(addr); rt.RaceRW(addr); o := *addr; *addr |= mask; return o }
//go:norace
func OrUint32(addr *uint32, mask uint32) uint32 { pt(addr); rt.RaceRW(addr); o := *addr; *addr |= mask; return o }
//go:norace
func OrUint64(addr *uint64, mask uint64) uint64 { pt(addr); rt.RaceRW(addr); o := *addr; *addr |= mask; return o }
//go:norace
func OrUintptr(addr *uintptr, mask uintptr) uintptr { pt(addr); rt.RaceRW(addr); o := *addr; *addr |= mask; return o }

type Uintptr struct{ v uintptr }

//go:norace
func (x *Uintptr) Load() uintptr { return LoadUintptr(&x.v) }
//go:norace
func (x *Uintptr) Store(v uintptr) { StoreUintptr(&x.v, v) }
//go:norace
func (x *Uintptr) Add(d uintptr) uintptr { return AddUintptr(&x.v, d) }
//go:norace
func (x *Uintptr) Swap(v uintptr) uintptr { return SwapUintptr(&x.v, v) }
//go:norace
func (x *Uintptr) CompareAndSwap(o, n uintptr) bool { return CompareAndSwapUintptr(&x.v, o, n) }

//go:norace
func (x *Int32) And(m int32) int32 { return AndInt32(&x.v, m) }
//go:norace
func (x *Int32) Or(m int32) int32 { return OrInt32(&x.v, m) }
//go:norace
func (x *Int64) And(m int64) int64 { return AndInt64(&x.v, m) }
//go:norace
func (x *Int64) Or(m int64) int64 { return OrInt64(&x.v, m) }
//go:norace
func (x *Uint32) And(m uint32) uint32 { return AndUint32(&x.v, m) }
//go:norace
func (x *Uint32) Or(m uint32) uint32 { return OrUint32(&x.v, m) }
//go:norace
func (x *Uint64) And(m uint64) uint64 { return AndUint64(&x.v, m) }
//go:norace
func (x *Uint64) Or(m uint64) uint64 { return OrUint64(&x.v, m) }

//go:norace
func (x *Value) Swap(v any) any { pt(x); rt.RaceRW(x); o := x.v; x.v = v; return o }
//go:norace
func (x *Value) CompareAndSwap(o, n any) bool {
	pt(x)
	rt.RaceRW(x)
	if x.v == o {
		x.v = n
		return true
	}
	return false
}
