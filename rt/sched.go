// Package verifrt is the controlled run-time the instrumented go-redisemu is linked against:
// a cooperative scheduler in which exactly one registered thread runs at a time and every
// synchronisation operation is a scheduling point whose successor is chosen by the explorer.
//
// With no scheduler installed (Cur == nil) all shim operations execute immediately and an
// operation that would block panics: set-up code runs single threaded.
package verifrt

import (
	"fmt"
	"runtime"
	"runtime/debug"
	"strings"
	"time"
)

type OpKind uint8

const (
	OpStart OpKind = iota
	OpLock
	OpRLock
	OpAtomic
	OpSend
	OpRecv
	OpSelect
	OpYield
	OpWait    // WaitGroup.Wait / generic condition
	OpIO      // fake socket / listener
	OpGo      // spawn
	OpChoice  // explicit environment choice
	OpTimer   // pseudo: a timer fires
	OpUnlock  // only used for race bookkeeping (not a scheduling point)
	OpQuiesce // harness: runs only when nothing else can (no enabled thread, no timer)
)

var opNames = [...]string{"start", "lock", "rlock", "atomic", "send", "recv", "select", "yield", "wait", "io", "go", "choice", "timer", "unlock", "quiesce"}

//go:norace
func (k OpKind) String() string { return opNames[k] }

type Thread struct {
	ID      int
	Name    string
	wake    chan struct{}
	kind    OpKind
	obj     any
	enabled func() bool
	parked  bool
	done    bool
	yieldAt uint64
	Steps   int
}

// PointInfo describes one decision point of an execution (a place where more than one
// continuation existed).
type PointInfo struct {
	N          int    // number of alternatives
	Chosen     int    // index taken
	CurEnabled bool   // alternative 0 is "keep running the current thread"
	Kind       OpKind // kind of decision: thread switch (op kind of current thread) or OpChoice/OpSelect
	Thread     int    // thread that was running
	Step       int    // global step number
	Alts       []int  // thread ids (>=0) or -(timer index+1) per alternative; nil for value choices
}

type Terminal int

const (
	TermAllDone Terminal = iota
	TermQuiescent          // no enabled thread, some parked (deadlock or legitimately blocked)
	TermLivelock           // only yielding threads left and nothing changes
	TermHorizon            // step budget exhausted
	TermPanic              // a thread panicked: the process would have died
	TermStopped            // body asked to stop
)

//go:norace
func (t Terminal) String() string {
	return [...]string{"all-done", "quiescent", "livelock", "horizon", "panic", "stopped"}[t]
}

type timerObj struct {
	deadline time.Time
	period   time.Duration
	fire     func(now time.Time)
	active   bool
	seq      int
}

type Sched struct {
	threads  []*Thread
	cur      *Thread
	live     int
	prefix   []int
	Choices  []int
	Points   []PointInfo
	Step     int
	epoch    uint64
	Horizon  int
	Term     Terminal
	PanicVal any
	PanicStk string
	PanicThr int
	finished chan struct{}
	tdone    chan struct{}
	teardown bool
	ending   bool
	timers   []*timerObj
	// TimerAlts: offer "fire the earliest timer now" as an alternative while threads are enabled.
	TimerAlts bool
	// Divergence is set when the replayed prefix asks for an alternative that does not exist.
	Divergence string
	// Log of (thread, kind) per step when TraceOn (for determinism checks / replay files).
	TraceOn bool
	Trace   []string
	// OnQuiescent, if set, is called (on the scheduler's side, no thread running) when no thread is
	// enabled and no timer is armed. It may make threads enabled again (e.g. feed a fake socket)
	// and returns true to continue.
	OnQuiescent func() bool
	RandCalls   int
	// QuiesceLivelock: at the last quiescence some thread was parked in a yield loop
	QuiesceLivelock bool
	objIDs      map[any]int
	parkedSnap  map[int]OpKind
	stopReq     bool
}

// Cur is the installed scheduler (nil: unscheduled mode).
var Cur *Sched

type killSentinel struct{}

var neverFire = 50 * 365 * 24 * time.Hour

// NewSched creates a scheduler that replays prefix and then takes alternative 0 everywhere.
//go:norace
func NewSched(prefix []int) *Sched {
	return &Sched{prefix: prefix, Horizon: 200000, finished: make(chan struct{}, 1), tdone: make(chan struct{}, 1), objIDs: map[any]int{}}
}

// Run executes body as thread 0 under the scheduler until a terminal state, then tears all
// remaining threads down. It must be called from a goroutine that is not a scheduled thread.
//go:norace
func (s *Sched) Run(body func()) {
	if Cur != nil {
		panic("verifrt: nested Run")
	}
	Cur = s
	t0 := s.newThread("main", body)
	s.cur = t0
	t0.parked = false
	raceHandoffOut()
	t0.wake <- struct{}{}
	<-s.finished
	raceHandoffIn()
	s.parkedSnap = map[int]OpKind{}
	for _, t := range s.threads {
		if !t.done {
			s.parkedSnap[t.ID] = t.kind
		}
	}
	// tear down
	s.teardown = true
	for _, t := range s.threads {
		if !t.done {
			raceHandoffOut()
			t.wake <- struct{}{}
			<-s.tdone
			raceHandoffIn()
		}
	}
	Cur = nil
}

//go:norace
func (s *Sched) newThread(name string, body func()) *Thread {
	t := &Thread{ID: len(s.threads), Name: name, wake: make(chan struct{}, 1), kind: OpStart, parked: true}
	s.threads = append(s.threads, t)
	s.live++
	go func() {
		raceHandoffOut()
		<-t.wake
		raceHandoffIn()
		if s.teardown {
			t.done = true
			raceHandoffOut()
			s.tdone <- struct{}{}
			raceHandoffIn()
			return
		}
		defer func() {
			r := recover()
			t.done = true
			if s.teardown {
				raceHandoffOut()
				s.tdone <- struct{}{}
				raceHandoffIn()
				return
			}
			if r != nil {
				if _, ok := r.(killSentinel); !ok {
					s.Term = TermPanic
					s.PanicVal = r
					s.PanicStk = string(debug.Stack())
					s.PanicThr = t.ID
					s.finish()
					return
				}
			}
			s.live--
			s.exitThread(t)
		}()
		body()
	}()
	return t
}

//go:norace
func (s *Sched) finish() {
	if s.ending {
		return
	}
	s.ending = true
	raceHandoffOut()
	s.finished <- struct{}{}
	raceHandoffIn()
}

// Go spawns a scheduled thread (instrumented replacement of the go statement).
//go:norace
func Go(fn func()) {
	s := Cur
	if s == nil {
		panic("verifrt: go statement outside the scheduler")
	}
	if s.teardown {
		return
	}
	s.newThread(fmt.Sprintf("g%d", len(s.threads)), fn)
	raceSpawn()
	// spawning is itself a scheduling point: the child may run first
	Point(OpGo, nil, nil)
}

// GoNamed is used by harness code.
//go:norace
func GoNamed(name string, fn func()) *Thread {
	s := Cur
	t := s.newThread(name, fn)
	return t
}

// AwaitQuiescence parks the calling (harness) thread until no other thread can take a step and
// no timer is armed: every other thread is finished or blocked.
//go:norace
func AwaitQuiescence() {
	if Cur == nil {
		return
	}
	Point(OpQuiesce, nil, func() bool { return false })
}

// ThreadsState lists the unfinished threads with the kind of operation they are parked on.
//go:norace
func (s *Sched) ThreadsState() map[int]OpKind {
	m := map[int]OpKind{}
	for _, t := range s.threads {
		if !t.done && t != s.cur {
			m[t.ID] = t.kind
		}
	}
	return m
}

// Stop ends the execution from inside a thread (terminal state "stopped").
//go:norace
func Stop() {
	s := Cur
	s.stopReq = true
	Point(OpYield, nil, func() bool { return false })
}

// Point is called by every shim operation before it acts. It returns when the calling thread
// has been chosen to run and enabled() holds; the caller then performs its operation without
// any other thread running in between.
//go:norace
func Point(kind OpKind, obj any, enabled func() bool) {
	s := Cur
	if s == nil {
		if enabled != nil && !enabled() {
			panic(fmt.Sprintf("verifrt: %s would block outside the scheduler", kind))
		}
		return
	}
	if s.teardown {
		return
	}
	t := s.cur
	t.Steps++
	s.Step++
	if kind == OpYield {
		t.yieldAt = s.epoch
	}
	// the epoch advances when the operation is actually performed (the thread proceeds), not
	// when it is requested: a yielding thread must see steps that happen after it yielded
	proceed := func() {
		if kind != OpYield {
			s.epoch++
		}
		if s.TraceOn {
			s.Trace = append(s.Trace, fmt.Sprintf("%d:%s", t.ID, kind))
		}
	}
	// fast path: nobody else can run
	if s.live == 1 && !s.stopReq && (enabled == nil || enabled()) && kind != OpYield && kind != OpQuiesce && !(s.TimerAlts && s.armedTimers() > 0) && s.Step < s.Horizon {
		proceed()
		return
	}
	t.kind, t.obj, t.enabled = kind, obj, enabled
	t.parked = true
	next := s.pick(t)
	if next == t {
		t.parked = false
		proceed()
		return
	}
	raceHandoffOut()
	if next != nil {
		s.cur = next
		next.parked = false
		next.wake <- struct{}{}
	}
	<-t.wake
	raceHandoffIn()
	if s.teardown {
		panic(killSentinel{})
	}
	proceed()
}

//go:norace
func (s *Sched) exitThread(t *Thread) {
	next := s.pick(nil)
	if next != nil {
		s.cur = next
		next.parked = false
		raceHandoffOut()
		next.wake <- struct{}{}
		raceHandoffIn()
	}
}

//go:norace
func (s *Sched) isEnabled(t *Thread) bool {
	if t.done || !t.parked || t.kind == OpQuiesce {
		return false
	}
	if t.kind == OpYield {
		if t.enabled != nil && !t.enabled() {
			return false
		}
		return s.epoch > t.yieldAt
	}
	return t.enabled == nil || t.enabled()
}

//go:norace
func (s *Sched) armedTimers() int {
	n := 0
	for _, tm := range s.timers {
		if tm.active {
			n++
		}
	}
	return n
}

//go:norace
func (s *Sched) earliestTimer() *timerObj {
	var best *timerObj
	for _, tm := range s.timers {
		if !tm.active {
			continue
		}
		if best == nil || tm.deadline.Before(best.deadline) || (tm.deadline.Equal(best.deadline) && tm.seq < best.seq) {
			best = tm
		}
	}
	if best != nil && best.deadline.Sub(now) > neverFire {
		return nil
	}
	return best
}

//go:norace
func (s *Sched) fireTimer(tm *timerObj) {
	if tm.deadline.After(now) {
		now = tm.deadline
	}
	if tm.period > 0 {
		tm.deadline = tm.deadline.Add(tm.period)
	} else {
		tm.active = false
	}
	s.epoch++
	tm.fire(now)
	if s.TraceOn {
		s.Trace = append(s.Trace, fmt.Sprintf("timer#%d", tm.seq))
	}
}

// pick decides who runs next; cur is the thread that just parked (nil when it exited).
// Returns nil when the execution is over (finish() has been called).
//go:norace
func (s *Sched) pick(cur *Thread) *Thread {
	for {
		if s.ending {
			return nil
		}
		if s.stopReq {
			s.Term = TermStopped
			s.finish()
			return nil
		}
		if s.Step >= s.Horizon {
			s.Term = TermHorizon
			s.finish()
			return nil
		}
		var alts []*Thread
		curEnabled := false
		if cur != nil && s.isEnabled(cur) {
			alts = append(alts, cur)
			curEnabled = true
		}
		for _, t := range s.threads {
			if t != cur && s.isEnabled(t) {
				alts = append(alts, t)
			}
		}
		var tm *timerObj
		if len(alts) == 0 || s.TimerAlts {
			tm = s.earliestTimer()
		}
		if len(alts) == 0 {
			if tm != nil {
				s.fireTimer(tm)
				continue
			}
			if s.OnQuiescent != nil && s.OnQuiescent() {
				continue
			}
			// a harness thread waiting for quiescence runs now
			var qt *Thread
			for _, t := range s.threads {
				if !t.done && t.parked && t.kind == OpQuiesce {
					qt = t
					break
				}
			}
			if qt != nil {
				s.QuiesceLivelock = false
				for _, t := range s.threads {
					if !t.done && t.parked && t.kind == OpYield && t != qt {
						s.QuiesceLivelock = true
					}
				}
				return qt
			}
			// terminal
			parked, yielders := 0, 0
			for _, t := range s.threads {
				if !t.done {
					parked++
					if t.kind == OpYield && t.parked {
						yielders++
					}
				}
			}
			switch {
			case parked == 0:
				s.Term = TermAllDone
			case yielders > 0:
				s.Term = TermLivelock
			default:
				s.Term = TermQuiescent
			}
			s.finish()
			return nil
		}
		n := len(alts)
		if tm != nil {
			n++
		}
		idx := 0
		if n > 1 {
			idx = s.decide(n)
			if idx < 0 {
				return nil
			}
			pi := PointInfo{N: n, Chosen: idx, CurEnabled: curEnabled, Thread: -1, Step: s.Step}
			if cur != nil {
				pi.Kind = cur.kind
				pi.Thread = cur.ID
			}
			pi.Alts = make([]int, 0, n)
			for _, a := range alts {
				pi.Alts = append(pi.Alts, a.ID)
			}
			if tm != nil {
				pi.Alts = append(pi.Alts, -(tm.seq + 1))
			}
			s.Points = append(s.Points, pi)
		}
		if idx == len(alts) {
			s.fireTimer(tm)
			continue
		}
		return alts[idx]
	}
}

// decide takes the next choice from the prefix (or 0) and records it.
//go:norace
func (s *Sched) decide(n int) int {
	k := len(s.Choices)
	c := 0
	if k < len(s.prefix) {
		c = s.prefix[k]
		if c >= n {
			s.Divergence = fmt.Sprintf("choice %d: prefix wants alternative %d of %d", k, c, n)
			s.Term = TermStopped
			s.finish()
			return -1
		}
	}
	s.Choices = append(s.Choices, c)
	return c
}

// Choose lets the running thread (or a shim) make an explicit n-way environment choice.
//go:norace
func Choose(n int, kind OpKind) int {
	s := Cur
	if s == nil || s.teardown || n <= 1 {
		return 0
	}
	c := s.decide(n)
	if c < 0 {
		// divergence: park forever (execution is ending)
		t := s.cur
		t.parked = true
		t.kind, t.enabled = OpYield, func() bool { return false }
		raceHandoffOut()
		<-t.wake
		raceHandoffIn()
		panic(killSentinel{})
	}
	s.Points = append(s.Points, PointInfo{N: n, Chosen: c, CurEnabled: false, Kind: kind, Thread: s.cur.ID, Step: s.Step})
	return c
}

// ObjID numbers shim objects in first-use order (deterministic under a deterministic schedule).
//go:norace
func ObjID(o any) int {
	s := Cur
	if s == nil {
		return 0
	}
	if id, ok := s.objIDs[o]; ok {
		return id
	}
	id := len(s.objIDs) + 1
	s.objIDs[o] = id
	return id
}

// ThreadID returns the id of the running scheduled thread, -1 outside the scheduler.
//go:norace
func ThreadID() int {
	if Cur == nil || Cur.cur == nil {
		return -1
	}
	return Cur.cur.ID
}

// Parked reports which threads are not finished at the end of an execution, with the kind of
// operation they are parked on.
//go:norace
func (s *Sched) Parked() map[int]OpKind { return s.parkedSnap }

//go:norace
func (s *Sched) ThreadDone(id int) bool { return id < len(s.threads) && s.threads[id].done }
//go:norace
func (s *Sched) NumThreads() int        { return len(s.threads) }

// ---- virtual clock ------------------------------------------------------------------------

// Epoch of the virtual clock.
var Epoch = time.Date(2030, 1, 1, 0, 0, 0, 0, time.UTC)
var now = Epoch

//go:norace
func Now() time.Time     { return now }
//go:norace
func SetNow(t time.Time) { now = t }
//go:norace
func Advance(d time.Duration) {
	now = now.Add(d)
	if s := Cur; s != nil {
		s.epoch++
	}
}

// AddTimer registers a timer with the scheduler; fire runs on the scheduler side.
//go:norace
func AddTimer(d time.Duration, period time.Duration, fire func(now time.Time)) (stop func() bool, reset func(d time.Duration) bool) {
	tm := &timerObj{deadline: now.Add(d), period: period, fire: fire, active: true}
	if d > neverFire || d < 0 && false {
		// still registered; earliestTimer ignores far-future deadlines
	}
	if s := Cur; s != nil {
		tm.seq = len(s.timers)
		s.timers = append(s.timers, tm)
	}
	stop = func() bool { was := tm.active; tm.active = false; return was }
	reset = func(d time.Duration) bool { was := tm.active; tm.deadline = now.Add(d); tm.active = true; return was }
	return
}

// RandTick is called by the math/rand shim; a command that draws an unbounded number of random
// numbers is looping forever.
//go:norace
func RandTick() {
	s := Cur
	if s == nil {
		return
	}
	s.RandCalls++
	if s.RandCalls > 2000000 && !s.teardown {
		panic("verifrt: random-number budget exhausted (unbounded loop)")
	}
}

// Stack returns the stack of the calling goroutine trimmed to emulator frames.
//go:norace
func Stack() string {
	buf := make([]byte, 16384)
	n := runtime.Stack(buf, false)
	lines := strings.Split(string(buf[:n]), "\n")
	var out []string
	for i := 0; i+1 < len(lines); i++ {
		if strings.Contains(lines[i+1], "go-redisemu") || strings.Contains(lines[i+1], "/repo/") {
			out = append(out, lines[i], lines[i+1])
		}
	}
	return strings.Join(out, "\n")
}

//go:norace
func (s *Sched) Teardown() bool { return s.teardown }

// KillIfTornDown is called by waiting shims (Sleep): a thread that is being torn down and sits
// in a retry loop (CAS + sleep) would spin forever once all shim operations are no-ops, so the
// loop is broken by raising the tear-down panic again.
//
//go:norace
func KillIfTornDown() {
	if s := Cur; s != nil && s.teardown {
		panic(killSentinel{})
	}
}

// NoteWrite tells the scheduler that shared state changed without a scheduling point (Unlock).
//go:norace
func NoteWrite() {
	if s := Cur; s != nil {
		s.epoch++
	}
}
