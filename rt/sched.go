// Package verifrt is the controlled run-time the instrumented go-redisemu is linked against:
// a cooperative scheduler in which exactly one registered thread runs at a time and every
// synchronisation operation is a scheduling point whose successor is chosen by the explorer.
//
// With no scheduler installed (Cur == nil) all shim operations execute immediately and an
// operation that would block panics: set-up code runs single threaded.
package verifrt

import (
	"fmt"
	"os"
	"runtime"
	"runtime/debug"
	"strings"
	"time"
)

type OpKind uint8

const (
	OpStart OpKind = iota
	OpLock
	OpRLock
	OpAtomic
	OpSend
	OpRecv
	OpSelect
	OpYield
	OpWait    // WaitGroup.Wait / generic condition
	OpIO      // fake socket / listener
	OpGo      // spawn
	OpChoice  // explicit environment choice
	OpTimer   // pseudo: a timer fires
	OpUnlock  // only used for race bookkeeping (not a scheduling point)
	OpQuiesce // harness: runs only when nothing else can (no enabled thread, no timer)
)

var opNames = [...]string{"start", "lock", "rlock", "atomic", "send", "recv", "select", "yield", "wait", "io", "go", "choice", "timer", "unlock", "quiesce"}

//go:norace
func (k OpKind) String() string { return opNames[k] }

type Thread struct {
	ID      int
	Name    string
	wake    chan struct{}
	kind    OpKind
	obj     any
	enabled func() bool
	parked  bool
	done    bool
	yieldAt uint64
	Steps   int
	held    []any // mutexes held (partial-order reduction: part of the footprint of the next step)
	sleepMask uint64 // ready cases of a pending select when the thread was put to sleep
}

// PointInfo describes one decision point of an execution (a place where more than one
// continuation existed).
type PointInfo struct {
	N          int    // number of alternatives
	Chosen     int    // index taken
	CurEnabled bool   // alternative 0 is "keep running the current thread"
	Kind       OpKind // kind of decision: thread switch (op kind of current thread) or OpChoice/OpSelect
	Thread     int    // thread that was running
	Step       int    // global step number
	Alts       []int  // thread ids (>=0) or -(timer index+1) per alternative; nil for value choices
	Sleep      []int  // partial-order reduction: thread ids asleep at this point
}

type Terminal int

const (
	TermAllDone Terminal = iota
	TermQuiescent          // no enabled thread, some parked (deadlock or legitimately blocked)
	TermLivelock           // only yielding threads left and nothing changes
	TermHorizon            // step budget exhausted
	TermPanic              // a thread panicked: the process would have died
	TermStopped            // body asked to stop
)

//go:norace
func (t Terminal) String() string {
	return [...]string{"all-done", "quiescent", "livelock", "horizon", "panic", "stopped"}[t]
}

type timerObj struct {
	deadline time.Time
	period   time.Duration
	fire     func(now time.Time)
	active   bool
	seq      int
}

type Sched struct {
	threads  []*Thread
	cur      *Thread
	live     int
	prefix   []int
	Choices  []int
	Points   []PointInfo
	Step     int
	epoch    uint64
	Horizon  int
	Term     Terminal
	PanicVal any
	PanicStk string
	PanicThr int
	finished chan struct{}
	tdone    chan struct{}
	teardown bool
	ending   bool
	timers   []*timerObj
	// TimerAlts: offer "fire the earliest timer now" as an alternative while threads are enabled.
	TimerAlts bool
	// TimerAltBudget > 0: at most that many timers fire as an alternative to a runnable thread
	// (a periodic ticker would otherwise make the schedule tree infinite); 0: no limit.
	TimerAltBudget int
	timerAltsUsed  int
	// Serial: while set (by the scenario body, for its set-up and observation phases) thread
	// switches take the default alternative and are not decision points.
	Serial bool
	// QuiesceFirst: a thread waiting in AwaitQuiescence runs as soon as no thread is enabled,
	// before pending timers fire (for code with a periodic ticker, which never goes quiet).
	QuiesceFirst bool
	// POR: sleep-set partial-order reduction. SleepAdd[k] lists the threads that go to sleep at
	// decision k (the siblings the explorer has explored, or queued, before this branch); a
	// sleeping thread is not scheduled until a step that does not commute with its pending
	// operation has been executed. SleepBlocked: the execution was cut because every enabled
	// thread was asleep (it is equivalent to one explored elsewhere).
	POR          bool
	// Hint: thread ids to prefer, in this order, at the decisions after the replayed prefix (the
	// explorer's guess of the order that realises the race reversal it is after; any order is
	// sound, a good one avoids executions that end up cut by the sleep sets)
	Hint         []int
	SleepAdd     map[int][]int
	SleepBlocked bool
	sleep        map[int]bool
	stepObjs     []any
	stepAll      bool
	// Steps is the executed sequence of steps (a step: one thread from one scheduling point to
	// its next one, or a timer firing) with what the explorer needs to find the races in it.
	Steps     []StepRec
	stepPoint int // decision index taken when the running step was chosen, -1 if there was no choice
	snap      []threadSnap
	// Divergence is set when the replayed prefix asks for an alternative that does not exist.
	Divergence string
	// Log of (thread, kind) per step when TraceOn (for determinism checks / replay files).
	TraceOn bool
	Trace   []string
	// OnQuiescent, if set, is called (on the scheduler's side, no thread running) when no thread is
	// enabled and no timer is armed. It may make threads enabled again (e.g. feed a fake socket)
	// and returns true to continue.
	OnQuiescent func() bool
	RandCalls   int
	// QuiesceLivelock: at the last quiescence some thread was parked in a yield loop
	QuiesceLivelock bool
	objIDs      map[any]int
	parkedSnap  map[int]OpKind
	stopReq     bool
}

// Cur is the installed scheduler (nil: unscheduled mode).
var Cur *Sched

type killSentinel struct{}

var neverFire = 50 * 365 * 24 * time.Hour

// NewSched creates a scheduler that replays prefix and then takes alternative 0 everywhere.
//go:norace
func NewSched(prefix []int) *Sched {
	return &Sched{prefix: prefix, Horizon: 200000, finished: make(chan struct{}, 1), tdone: make(chan struct{}, 1), objIDs: map[any]int{}, stepPoint: -1}
}

// Run executes body as thread 0 under the scheduler until a terminal state, then tears all
// remaining threads down. It must be called from a goroutine that is not a scheduled thread.
//go:norace
func (s *Sched) Run(body func()) {
	if Cur != nil {
		panic("verifrt: nested Run")
	}
	Cur = s
	t0 := s.newThread("main", body)
	s.cur = t0
	t0.parked = false
	raceHandoffOut()
	t0.wake <- struct{}{}
	<-s.finished
	raceHandoffIn()
	s.parkedSnap = map[int]OpKind{}
	for _, t := range s.threads {
		if !t.done {
			s.parkedSnap[t.ID] = t.kind
		}
	}
	// tear down
	s.teardown = true
	for _, t := range s.threads {
		if !t.done {
			raceHandoffOut()
			t.wake <- struct{}{}
			<-s.tdone
			raceHandoffIn()
		}
	}
	Cur = nil
}

//go:norace
func (s *Sched) newThread(name string, body func()) *Thread {
	t := &Thread{ID: len(s.threads), Name: name, wake: make(chan struct{}, 1), kind: OpStart, parked: true}
	s.threads = append(s.threads, t)
	s.live++
	go func() {
		raceHandoffOut()
		<-t.wake
		raceHandoffIn()
		if s.teardown {
			t.done = true
			raceHandoffOut()
			s.tdone <- struct{}{}
			raceHandoffIn()
			return
		}
		defer func() {
			r := recover()
			t.done = true
			if s.teardown {
				raceHandoffOut()
				s.tdone <- struct{}{}
				raceHandoffIn()
				return
			}
			if r != nil {
				if _, ok := r.(killSentinel); !ok {
					s.Term = TermPanic
					s.PanicVal = r
					s.PanicStk = string(debug.Stack())
					s.PanicThr = t.ID
					s.finish()
					return
				}
			}
			s.live--
			s.exitThread(t)
		}()
		body()
	}()
	return t
}

//go:norace
func (s *Sched) finish() {
	if s.ending {
		return
	}
	s.ending = true
	raceHandoffOut()
	s.finished <- struct{}{}
	raceHandoffIn()
}

// Go spawns a scheduled thread (instrumented replacement of the go statement).
//go:norace
func Go(fn func()) {
	s := Cur
	if s == nil {
		panic("verifrt: go statement outside the scheduler")
	}
	if s.teardown {
		return
	}
	s.newThread(fmt.Sprintf("g%d", len(s.threads)), fn)
	raceSpawn()
	// spawning is itself a scheduling point: the child may run first
	Point(OpGo, nil, nil)
}

// GoNamed is used by harness code.
//go:norace
func GoNamed(name string, fn func()) *Thread {
	s := Cur
	t := s.newThread(name, fn)
	return t
}

// AwaitQuiescence parks the calling (harness) thread until no other thread can take a step and
// no timer is armed: every other thread is finished or blocked.
//go:norace
func AwaitQuiescence() {
	if Cur == nil {
		return
	}
	Point(OpQuiesce, nil, func() bool { return false })
}

// SetSerial switches decision points off (true) or on (false) for the current execution; see Sched.Serial.
//go:norace
func SetSerial(on bool) {
	if Cur != nil {
		Cur.Serial = on
	}
}

// SetQuiesceFirst: see Sched.QuiesceFirst.
//go:norace
func SetQuiesceFirst(on bool) {
	if Cur != nil {
		Cur.QuiesceFirst = on
	}
}

// ThreadsState lists the unfinished threads with the kind of operation they are parked on.
//go:norace
func (s *Sched) ThreadsState() map[int]OpKind {
	m := map[int]OpKind{}
	for _, t := range s.threads {
		if !t.done && t != s.cur {
			m[t.ID] = t.kind
		}
	}
	return m
}

// Stop ends the execution from inside a thread (terminal state "stopped").
//go:norace
func Stop() {
	s := Cur
	s.stopReq = true
	Point(OpYield, nil, func() bool { return false })
}

// Point is called by every shim operation before it acts. It returns when the calling thread
// has been chosen to run and enabled() holds; the caller then performs its operation without
// any other thread running in between.
//go:norace
func Point(kind OpKind, obj any, enabled func() bool) {
	s := Cur
	if s == nil {
		if enabled != nil && !enabled() {
			panic(fmt.Sprintf("verifrt: %s would block outside the scheduler", kind))
		}
		return
	}
	if s.teardown {
		return
	}
	t := s.cur
	t.Steps++
	s.Step++
	if kind == OpYield {
		t.yieldAt = s.epoch
	}
	// the epoch advances when the operation is actually performed (the thread proceeds), not
	// when it is requested: a yielding thread must see steps that happen after it yielded
	proceed := func() { s.proceed(t, kind) }
	// fast path: nobody else can run
	if s.live == 1 && !s.stopReq && (enabled == nil || enabled()) && kind != OpYield && kind != OpQuiesce && !(s.TimerAlts && s.armedTimers() > 0) && s.Step < s.Horizon {
		proceed()
		return
	}
	t.kind, t.obj, t.enabled = kind, obj, enabled
	t.parked = true
	next := s.pick(t)
	if next == t {
		t.parked = false
		proceed()
		return
	}
	raceHandoffOut()
	if next != nil {
		s.cur = next
		next.parked = false
		next.wake <- struct{}{}
	}
	<-t.wake
	raceHandoffIn()
	if s.teardown {
		panic(killSentinel{})
	}
	proceed()
}

// proceed: the operation of thread t is performed now (a method, not a closure of Point: the
// go:norace pragma does not extend to closures, and the race build would report the scheduler's
// own bookkeeping)
//go:norace
func (s *Sched) proceed(t *Thread, kind OpKind) {
	if kind != OpYield {
		s.epoch++
	}
	if s.TraceOn {
		s.Trace = append(s.Trace, fmt.Sprintf("%d:%s", t.ID, kind))
	}
}

//go:norace
func (s *Sched) exitThread(t *Thread) {
	next := s.pick(nil)
	if next != nil {
		s.cur = next
		next.parked = false
		raceHandoffOut()
		next.wake <- struct{}{}
		raceHandoffIn()
	}
}

//go:norace
func (s *Sched) isEnabled(t *Thread) bool {
	if t.done || !t.parked || t.kind == OpQuiesce {
		return false
	}
	if t.kind == OpYield {
		if t.enabled != nil && !t.enabled() {
			return false
		}
		return s.epoch > t.yieldAt
	}
	return t.enabled == nil || t.enabled()
}

//go:norace
func (s *Sched) armedTimers() int {
	n := 0
	for _, tm := range s.timers {
		if tm.active {
			n++
		}
	}
	return n
}

//go:norace
func (s *Sched) earliestTimer() *timerObj {
	var best *timerObj
	for _, tm := range s.timers {
		if !tm.active {
			continue
		}
		if best == nil || tm.deadline.Before(best.deadline) || (tm.deadline.Equal(best.deadline) && tm.seq < best.seq) {
			best = tm
		}
	}
	if best != nil && best.deadline.Sub(now) > neverFire {
		return nil
	}
	return best
}

//go:norace
func (s *Sched) fireTimer(tm *timerObj) {
	if tm.deadline.After(now) {
		now = tm.deadline
	}
	if tm.period > 0 {
		tm.deadline = tm.deadline.Add(tm.period)
	} else {
		tm.active = false
	}
	s.epoch++
	tm.fire(now)
	if s.POR {
		s.Steps = append(s.Steps, StepRec{Tid: -(tm.seq + 1), Point: s.stepPoint, All: true})
		s.stepPoint = -1
	}
	if s.TraceOn {
		s.Trace = append(s.Trace, fmt.Sprintf("timer#%d", tm.seq))
	}
}

// pick decides who runs next; cur is the thread that just parked (nil when it exited).
// Returns nil when the execution is over (finish() has been called).
//go:norace
func (s *Sched) pick(cur *Thread) *Thread {
	if s.POR {
		s.endStep()
	}
	t := s.pick0(cur)
	if t != nil && s.POR {
		s.beginStep(t)
	}
	return t
}

// ---- sleep sets ------------------------------------------------------------------------------

// StepRec describes one executed step.
type StepRec struct {
	Tid     int   // thread id; -(n+1) for the firing of timer n
	Point   int   // index of the decision that chose this step, -1 if it was the only possibility
	Objs    []any // synchronisation objects used
	All     bool  // does not commute with anything (clock, timers, random numbers, file system)
	Changed []int // threads whose pending operation became enabled / disabled / differently ready
	Enabled []int // of those: the threads that could not run before this step and can after it
}

type threadSnap struct {
	enabled bool
	mask    uint64
}

type realChanMarker struct{ _ int } // not zero-sized: distinct zero-sized variables may share one address

// RealChan stands for "a channel the shim does not own" in the object list of a select.
var RealChan any = &realChanMarker{}

// NetGlobal is the object of operations on the table of listening ports.
var NetGlobal any = &realChanMarker{}

// FSGlobal is the object of every operation on the (in-memory) file system, RandGlobal the one of
// the shared random-number generator: such operations conflict with each other only.
var FSGlobal any = &realChanMarker{}
var RandGlobal any = &realChanMarker{}

// TimerGlobal is the object of arming, stopping and resetting timers (the firing of a timer is a
// step of its own that commutes with nothing).
var TimerGlobal any = &realChanMarker{}

// ModeObj qualifies how an operation uses its object: two uses conflict unless both only read
// it or both update it commutatively (counter increments whose result is not observed).
type ModeObj struct {
	Obj  any
	Mode uint8 // 1: read only, 2: commutative update
}

//go:norace
func ReadOnly(o any) any { return ModeObj{o, 1} }

//go:norace
func Commutative(o any) any { return ModeObj{o, 2} }

var noModes = os.Getenv("VERIF_NO_MODES") != ""

// Conflict reports whether two footprint entries denote uses of one object that do not commute.
//go:norace
func Conflict(a, b any) bool {
	ma, mb := uint8(0), uint8(0)
	if m, ok := a.(ModeObj); ok {
		a, ma = m.Obj, m.Mode
	}
	if m, ok := b.(ModeObj); ok {
		b, mb = m.Obj, m.Mode
	}
	if a != b || a == nil {
		return false
	}
	if noModes {
		return true
	}
	return ma == 0 || mb == 0 || ma != mb
}

// Touch records that the running step used a synchronisation object without passing a
// scheduling point for it (Unlock, the peer queue of a connection ...).
//go:norace
func Touch(obj any) {
	if s := Cur; s != nil && s.POR {
		s.stepObjs = append(s.stepObjs, obj)
	}
}

// TouchAll: the running step did something no other step commutes with (random numbers, the
// file system, timers, the clock).
//go:norace
func TouchAll() {
	if s := Cur; s != nil && s.POR {
		s.stepAll = true
	}
}

// NoteLock / NoteUnlock keep the set of mutexes the running thread holds.
//go:norace
func NoteLock(m any) {
	if s := Cur; s != nil && s.POR && s.cur != nil {
		s.cur.held = append(s.cur.held, m)
	}
}

//go:norace
func NoteUnlock(m any) {
	s := Cur
	if s == nil || !s.POR {
		return
	}
	// Releasing a mutex is not recorded as a use of it: two critical sections conflict through
	// their acquisitions (lock/lock is the racing pair whose order the explorer reverses). An
	// unlock -> lock edge would order every second acquisition after the first one and hide
	// exactly those races.
	drop := func(t *Thread) bool {
		for i := len(t.held) - 1; i >= 0; i-- {
			if t.held[i] == m {
				t.held = append(t.held[:i], t.held[i+1:]...)
				return true
			}
		}
		return false
	}
	if s.cur != nil && drop(s.cur) {
		return
	}
	for _, t := range s.threads { // unlocked by another thread than the locker
		if drop(t) {
			return
		}
	}
}

// SelInfo is the object of a pending select: the channels of its cases and the set of cases
// that are ready. A channel the shim does not own (lane.Done(), only ever closed) cannot be
// recorded in the footprint of the step that closes it; instead a sleeping select wakes when
// its set of ready cases changes.
type SelInfo struct {
	Objs []any
	Mask func() uint64
}

//go:norace
func flattenObjs(o any, out []any) []any {
	if si, ok := o.(*SelInfo); ok {
		return append(out, si.Objs...)
	}
	if l, ok := o.([]any); ok {
		for _, e := range l {
			out = flattenObjs(e, out)
		}
		return out
	}
	return append(out, o)
}

//go:norace
func (s *Sched) beginStep(t *Thread) {
	s.stepObjs = s.stepObjs[:0]
	s.stepAll = false
	switch t.kind {
	case OpStart, OpGo, OpQuiesce:
	case OpYield:
		s.stepAll = true // a sleeping thread resumes because of any step of any thread
	default:
		if t.obj == nil {
			s.stepAll = true
		}
		s.stepObjs = flattenObjs(t.obj, s.stepObjs)
	}
	s.Steps = append(s.Steps, StepRec{Tid: t.ID, Point: s.stepPoint})
	s.stepPoint = -1
	if len(s.Hint) > 0 && s.Hint[0] == t.ID && len(s.Choices) >= len(s.prefix) {
		s.Hint = s.Hint[1:]
	}
	s.takeSnap(t)
}

//go:norace
func (s *Sched) takeSnap(running *Thread) {
	s.snap = s.snap[:0]
	for _, t := range s.threads {
		sn := threadSnap{}
		if t != running && !t.done && t.parked {
			sn.enabled = s.isEnabled(t)
			if si, ok := t.obj.(*SelInfo); ok {
				sn.mask = si.Mask()
			}
		}
		s.snap = append(s.snap, sn)
	}
}

// closeStep completes the record of the step that has just ended.
//go:norace
func (s *Sched) closeStep() {
	if len(s.Steps) == 0 {
		return
	}
	r := &s.Steps[len(s.Steps)-1]
	if r.Objs != nil || r.Tid < 0 {
		return // already closed
	}
	r.Objs = make([]any, 0, len(s.stepObjs))
	for _, o := range s.stepObjs {
		if o != nil && o != RealChan {
			r.Objs = append(r.Objs, o)
		}
	}
	r.All = s.stepAll
	for i, t := range s.threads {
		if t.ID == r.Tid {
			continue
		}
		var was threadSnap
		if i < len(s.snap) {
			was = s.snap[i]
		}
		now := threadSnap{}
		if !t.done && t.parked {
			now.enabled = s.isEnabled(t)
			if si, ok := t.obj.(*SelInfo); ok {
				now.mask = si.Mask()
			}
		}
		if was != now && t.kind != OpLock && t.kind != OpRLock {
			// (waiting for a mutex: covered by the lock/lock conflict, see NoteUnlock)
			r.Changed = append(r.Changed, t.ID)
			if !was.enabled && now.enabled {
				r.Enabled = append(r.Enabled, t.ID)
			}
		}
	}
}

// endStep wakes the sleeping threads whose pending operation does not commute with the step
// that has just been executed.
//go:norace
func (s *Sched) endStep() {
	s.closeStep()
	if len(s.sleep) == 0 {
		return
	}
	if s.stepAll {
		s.sleep = nil
		return
	}
	for _, o := range s.stepObjs {
		if m, ok := o.(ModeObj); ok {
			o = m.Obj
		}
		// the next step of a sleeping thread may use one of the global objects without that
		// being visible in its pending operation
		if o == NetGlobal || o == FSGlobal || o == RandGlobal || o == TimerGlobal {
			s.sleep = nil
			return
		}
	}
	for tid := range s.sleep {
		t := s.threads[tid]
		if t.done || !s.isEnabled(t) || s.dependent(t) {
			delete(s.sleep, tid)
		}
	}
}

//go:norace
func (s *Sched) dependent(t *Thread) bool {
	switch t.kind {
	case OpYield:
		return true
	case OpStart, OpGo:
		return false
	}
	var buf [8]any
	objs := flattenObjs(t.obj, buf[:0])
	objs = append(objs, t.held...)
	if si, ok := t.obj.(*SelInfo); ok && si.Mask() != t.sleepMask {
		return true
	}
	for _, o := range objs {
		if o == RealChan {
			continue // see SelInfo
		}
		if o == nil {
			return true
		}
		for _, f := range s.stepObjs {
			if Conflict(f, o) {
				return true
			}
		}
	}
	return false
}

//go:norace
func (s *Sched) pick0(cur *Thread) *Thread {
	for {
		if s.ending {
			return nil
		}
		if s.stopReq {
			s.Term = TermStopped
			s.finish()
			return nil
		}
		if s.Step >= s.Horizon {
			s.Term = TermHorizon
			s.finish()
			return nil
		}
		var alts []*Thread
		curEnabled := false
		if cur != nil && s.isEnabled(cur) {
			alts = append(alts, cur)
			curEnabled = true
		}
		for _, t := range s.threads {
			if t != cur && s.isEnabled(t) {
				alts = append(alts, t)
			}
		}
		var tm *timerObj
		if len(alts) == 0 || (s.TimerAlts && (s.TimerAltBudget == 0 || s.timerAltsUsed < s.TimerAltBudget)) {
			tm = s.earliestTimer()
		}
		if len(alts) == 0 {
			if tm != nil && s.QuiesceFirst {
				for _, t := range s.threads {
					if !t.done && t.parked && t.kind == OpQuiesce {
						tm = nil
						break
					}
				}
			}
			if tm != nil {
				s.sleep = nil
				s.fireTimer(tm)
				continue
			}
			if s.OnQuiescent != nil && s.OnQuiescent() {
				s.sleep = nil
				continue
			}
			// a harness thread waiting for quiescence runs now
			var qt *Thread
			for _, t := range s.threads {
				if !t.done && t.parked && t.kind == OpQuiesce {
					qt = t
					break
				}
			}
			if qt != nil {
				s.QuiesceLivelock = false
				for _, t := range s.threads {
					if !t.done && t.parked && t.kind == OpYield && t != qt {
						s.QuiesceLivelock = true
					}
				}
				return qt
			}
			// terminal
			parked, yielders := 0, 0
			for _, t := range s.threads {
				if !t.done {
					parked++
					if t.kind == OpYield && t.parked {
						yielders++
					}
				}
			}
			switch {
			case parked == 0:
				s.Term = TermAllDone
			case yielders > 0:
				s.Term = TermLivelock
			default:
				s.Term = TermQuiescent
			}
			s.finish()
			return nil
		}
		n := len(alts)
		if tm != nil {
			n++
		}
		idx := 0
		if s.POR {
			if s.Serial {
				s.sleep = nil
			} else {
				if n > 1 {
					if add := s.SleepAdd[len(s.Choices)]; len(add) > 0 {
						if s.sleep == nil {
							s.sleep = map[int]bool{}
						}
						for _, tid := range add {
							if tid >= len(s.threads) {
								// the run differs from the one the explorer derived this node from
								s.Divergence = fmt.Sprintf("choice %d: sleep set names thread %d, only %d threads exist", len(s.Choices), tid, len(s.threads))
								s.Term = TermStopped
								s.finish()
								return nil
							}
							s.sleep[tid] = true
							if si, ok := s.threads[tid].obj.(*SelInfo); ok {
								s.threads[tid].sleepMask = si.Mask()
							}
						}
					}
				}
				idx = -1
				if len(s.Hint) > 0 && len(s.Choices) >= len(s.prefix) {
					for i, a := range alts {
						if a.ID == s.Hint[0] && !s.sleep[a.ID] {
							idx = i
							break
						}
					}
				}
				if idx < 0 {
					for i, a := range alts {
						if !s.sleep[a.ID] {
							idx = i
							break
						}
					}
				}
				if idx < 0 && tm != nil {
					idx = len(alts)
				}
				if idx < 0 {
					// every enabled thread is asleep: this execution is covered elsewhere
					s.SleepBlocked = true
					s.Term = TermStopped
					s.finish()
					return nil
				}
			}
		}
		if n > 1 && !s.Serial {
			idx = s.decide(n, idx)
			if idx < 0 {
				return nil
			}
			s.stepPoint = len(s.Choices) - 1
			pi := PointInfo{N: n, Chosen: idx, CurEnabled: curEnabled, Thread: -1, Step: s.Step}
			for _, a := range alts {
				if s.sleep[a.ID] {
					pi.Sleep = append(pi.Sleep, a.ID)
				}
			}
			if cur != nil {
				pi.Kind = cur.kind
				pi.Thread = cur.ID
			}
			pi.Alts = make([]int, 0, n)
			for _, a := range alts {
				pi.Alts = append(pi.Alts, a.ID)
			}
			if tm != nil {
				pi.Alts = append(pi.Alts, -(tm.seq + 1))
			}
			s.Points = append(s.Points, pi)
		}
		if idx == len(alts) {
			s.sleep = nil
			s.timerAltsUsed++
			s.fireTimer(tm)
			continue
		}
		return alts[idx]
	}
}

// decide takes the next choice from the prefix (or 0) and records it.
//go:norace
func (s *Sched) decide(n int, def int) int {
	k := len(s.Choices)
	c := def
	if k < len(s.prefix) {
		c = s.prefix[k]
		if c >= n {
			s.Divergence = fmt.Sprintf("choice %d: prefix wants alternative %d of %d", k, c, n)
			s.Term = TermStopped
			s.finish()
			return -1
		}
	}
	s.Choices = append(s.Choices, c)
	return c
}

// Choose lets the running thread (or a shim) make an explicit n-way environment choice.
//go:norace
func Choose(n int, kind OpKind) int {
	s := Cur
	if s == nil || s.teardown || n <= 1 {
		return 0
	}
	c := s.decide(n, 0)
	if c < 0 {
		// divergence: park forever (execution is ending)
		t := s.cur
		t.parked = true
		t.kind, t.enabled = OpYield, func() bool { return false }
		raceHandoffOut()
		<-t.wake
		raceHandoffIn()
		panic(killSentinel{})
	}
	s.Points = append(s.Points, PointInfo{N: n, Chosen: c, CurEnabled: false, Kind: kind, Thread: s.cur.ID, Step: s.Step})
	return c
}

// ObjID numbers shim objects in first-use order (deterministic under a deterministic schedule).
//go:norace
func ObjID(o any) int {
	s := Cur
	if s == nil {
		return 0
	}
	if id, ok := s.objIDs[o]; ok {
		return id
	}
	id := len(s.objIDs) + 1
	s.objIDs[o] = id
	return id
}

// ObjIDOf numbers objects in first-use order (diagnostics).
//go:norace
func (s *Sched) ObjIDOf(o any) int {
	if id, ok := s.objIDs[o]; ok {
		return id
	}
	id := len(s.objIDs) + 1
	s.objIDs[o] = id
	return id
}

// ThreadID returns the id of the running scheduled thread, -1 outside the scheduler.
//go:norace
func ThreadID() int {
	if Cur == nil || Cur.cur == nil {
		return -1
	}
	return Cur.cur.ID
}

// Parked reports which threads are not finished at the end of an execution, with the kind of
// operation they are parked on.
//go:norace
func (s *Sched) Parked() map[int]OpKind { return s.parkedSnap }

//go:norace
func (s *Sched) ThreadDone(id int) bool { return id < len(s.threads) && s.threads[id].done }
//go:norace
func (s *Sched) NumThreads() int        { return len(s.threads) }

// ---- virtual clock ------------------------------------------------------------------------

// Epoch of the virtual clock.
var Epoch = time.Date(2030, 1, 1, 0, 0, 0, 0, time.UTC)
var now = Epoch

//go:norace
func Now() time.Time     { return now }
//go:norace
func SetNow(t time.Time) { now = t; TouchAll() }
//go:norace
func Advance(d time.Duration) {
	TouchAll()
	now = now.Add(d)
	if s := Cur; s != nil {
		s.epoch++
	}
}

// AddTimer registers a timer with the scheduler; fire runs on the scheduler side.
//go:norace
func AddTimer(d time.Duration, period time.Duration, fire func(now time.Time)) (stop func() bool, reset func(d time.Duration) bool) {
	Touch(TimerGlobal)
	tm := &timerObj{deadline: now.Add(d), period: period, fire: fire, active: true}
	if d > neverFire || d < 0 && false {
		// still registered; earliestTimer ignores far-future deadlines
	}
	if s := Cur; s != nil {
		tm.seq = len(s.timers)
		s.timers = append(s.timers, tm)
	}
	stop = func() bool { Touch(TimerGlobal); was := tm.active; tm.active = false; return was }
	reset = func(d time.Duration) bool { Touch(TimerGlobal); was := tm.active; tm.deadline = now.Add(d); tm.active = true; return was }
	return
}

// RandTick is called by the math/rand shim; a command that draws an unbounded number of random
// numbers is looping forever.
//go:norace
func RandTick() {
	s := Cur
	if s == nil {
		return
	}
	if s.POR {
		s.stepObjs = append(s.stepObjs, RandGlobal)
	}
	s.RandCalls++
	if s.RandCalls > 2000000 && !s.teardown {
		panic("verifrt: random-number budget exhausted (unbounded loop)")
	}
}

// Stack returns the stack of the calling goroutine trimmed to emulator frames.
//go:norace
func Stack() string {
	buf := make([]byte, 16384)
	n := runtime.Stack(buf, false)
	lines := strings.Split(string(buf[:n]), "\n")
	var out []string
	for i := 0; i+1 < len(lines); i++ {
		if strings.Contains(lines[i+1], "go-redisemu") || strings.Contains(lines[i+1], "/repo/") {
			out = append(out, lines[i], lines[i+1])
		}
	}
	return strings.Join(out, "\n")
}

//go:norace
func (s *Sched) Teardown() bool { return s.teardown }

// KillIfTornDown is called by waiting shims (Sleep): a thread that is being torn down and sits
// in a retry loop (CAS + sleep) would spin forever once all shim operations are no-ops, so the
// loop is broken by raising the tear-down panic again.
//
//go:norace
func KillIfTornDown() {
	if s := Cur; s != nil && s.teardown {
		panic(killSentinel{})
	}
}

// NoteWrite tells the scheduler that shared state changed without a scheduling point (Unlock).
//go:norace
func NoteWrite() {
	if s := Cur; s != nil {
		s.epoch++
	}
}
