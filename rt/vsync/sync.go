// Package sync (shim): scheduled replacements of sync.Mutex / RWMutex / WaitGroup; everything
// else is re-exported from the real package.
package sync

import (
	realsync "sync"

	rt "github.com/jimsnab/go-redisemu/verifrt"
)

type (
	Locker  = realsync.Locker
	Map     = realsync.Map
	Pool    = realsync.Pool
)

type Mutex struct {
	held bool
}

//go:norace
func (m *Mutex) free() bool { return !m.held }

//go:norace
func (m *Mutex) Lock() {
	rt.Point(rt.OpLock, m, m.free)
	m.held = true
	rt.NoteLock(m)
	rt.RaceAcquire(m)
}

//go:norace
func (m *Mutex) TryLock() bool {
	rt.Point(rt.OpLock, m, nil)
	if m.held {
		return false
	}
	m.held = true
	rt.NoteLock(m)
	rt.RaceAcquire(m)
	return true
}

// Unlock is not a scheduling point: releasing a lock commutes with every operation of other
// threads that could run before it (they cannot touch this mutex), so merging it with the
// preceding step loses no behaviour.
//go:norace
func (m *Mutex) Unlock() {
	if !m.held {
		if rt.Cur != nil && rt.Cur.Teardown() {
			return
		}
		panic("sync: unlock of unlocked mutex")
	}
	rt.RaceRelease(m)
	m.held = false
	rt.NoteUnlock(m)
	rt.NoteWrite()
}

type RWMutex struct {
	w       bool
	readers int
}

//go:norace
func (m *RWMutex) Lock() {
	rt.Point(rt.OpLock, m, func() bool { return !m.w && m.readers == 0 })
	m.w = true
	rt.NoteLock(m)
	rt.RaceAcquire(m)
}
//go:norace
func (m *RWMutex) Unlock() {
	rt.RaceRelease(m)
	m.w = false
	rt.NoteUnlock(m)
	rt.NoteWrite()
}
//go:norace
func (m *RWMutex) RLock() {
	rt.Point(rt.OpRLock, rt.ReadOnly(m), func() bool { return !m.w })
	m.readers++
	rt.NoteLock(m)
	rt.RaceAcquire(m)
}
//go:norace
func (m *RWMutex) RUnlock() {
	rt.RaceReleaseMerge(m)
	if m.readers > 0 {
		m.readers--
	}
	rt.NoteUnlock(m)
	rt.NoteWrite()
}
//go:norace
func (m *RWMutex) RLocker() Locker { return rlocker{m} }

type rlocker struct{ m *RWMutex }

//go:norace
func (r rlocker) Lock()   { r.m.RLock() }
//go:norace
func (r rlocker) Unlock() { r.m.RUnlock() }

type WaitGroup struct {
	n int
}

//go:norace
func (w *WaitGroup) Add(d int) {
	// increments and decrements commute with each other; only Wait observes the counter
	rt.Point(rt.OpAtomic, rt.Commutative(w), nil)
	w.n += d
	if w.n < 0 {
		if rt.Cur != nil && rt.Cur.Teardown() {
			w.n = 0
			return
		}
		panic("sync: negative WaitGroup counter")
	}
	rt.RaceReleaseMerge(w)
}
//go:norace
func (w *WaitGroup) Done() { w.Add(-1) }
//go:norace
func (w *WaitGroup) Wait() {
	rt.Point(rt.OpWait, rt.ReadOnly(w), func() bool { return w.n == 0 })
	rt.RaceAcquire(w)
}

type Once struct {
	done bool
	m    Mutex
}

//go:norace
func (o *Once) Do(f func()) {
	o.m.Lock()
	defer o.m.Unlock()
	if !o.done {
		o.done = true
		f()
	}
}

type Cond struct {
	L       Locker
	waiters int
	signals int
}

//go:norace
func NewCond(l Locker) *Cond { return &Cond{L: l} }
//go:norace
func (c *Cond) Wait() {
	c.L.Unlock()
	c.waiters++
	rt.Point(rt.OpWait, c, func() bool { return c.signals > 0 })
	c.signals--
	c.waiters--
	c.L.Lock()
}
//go:norace
func (c *Cond) Signal() {
	rt.Point(rt.OpAtomic, c, nil)
	if c.waiters > c.signals {
		c.signals++
	}
}
//go:norace
func (c *Cond) Broadcast() {
	rt.Point(rt.OpAtomic, c, nil)
	c.signals = c.waiters
}
