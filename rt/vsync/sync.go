// Package sync (shim): scheduled replacements of sync.Mutex / RWMutex / WaitGroup; everything
// else is re-exported from the real package.
package sync

import (
	"fmt"
	"sort"
	realsync "sync"

	rt "github.com/jimsnab/go-redisemu/verifrt"
)

type (
	Locker = realsync.Locker
)

// Pool: deterministic (the real one hands items out per P and drops them at random under the race
// detector): Get returns the item that was Put last, so that every reuse the real pool CAN produce
// between two scheduling points is the one that happens - an item that is still in use when it is
// put back is handed to the next caller. Get and Put are scheduling points on the pool.
type Pool struct {
	New   func() any
	items []any
}

//go:norace
func (p *Pool) Get() any {
	rt.Point(rt.OpAtomic, p, nil)
	rt.RaceRW(p)
	if n := len(p.items); n > 0 {
		x := p.items[n-1]
		p.items = p.items[:n-1]
		return x
	}
	if p.New != nil {
		return p.New()
	}
	return nil
}

//go:norace
func (p *Pool) Put(x any) {
	if x == nil {
		return
	}
	rt.Point(rt.OpAtomic, p, nil)
	rt.RaceRW(p)
	p.items = append(p.items, x)
}

// Map: a plain map whose operations are scheduling points on the map (the real one synchronises
// internally, invisibly to the scheduler).
type Map struct {
	m map[any]any
}

//go:norace
func (m *Map) pt(read bool) {
	if read {
		rt.Point(rt.OpAtomic, rt.ReadOnly(m), nil)
	} else {
		rt.Point(rt.OpAtomic, m, nil)
	}
	rt.RaceRW(m)
	if m.m == nil {
		m.m = map[any]any{}
	}
}

//go:norace
func (m *Map) Load(k any) (any, bool) { m.pt(true); v, ok := m.m[k]; return v, ok }

//go:norace
func (m *Map) Store(k, v any) { m.pt(false); m.m[k] = v }

//go:norace
func (m *Map) Delete(k any) { m.pt(false); delete(m.m, k) }

//go:norace
func (m *Map) LoadOrStore(k, v any) (any, bool) {
	m.pt(false)
	if old, ok := m.m[k]; ok {
		return old, true
	}
	m.m[k] = v
	return v, false
}

//go:norace
func (m *Map) LoadAndDelete(k any) (any, bool) {
	m.pt(false)
	v, ok := m.m[k]
	delete(m.m, k)
	return v, ok
}

//go:norace
func (m *Map) Swap(k, v any) (any, bool) {
	m.pt(false)
	old, ok := m.m[k]
	m.m[k] = v
	return old, ok
}

//go:norace
func (m *Map) CompareAndSwap(k, old, new any) bool {
	m.pt(false)
	if cur, ok := m.m[k]; ok && cur == old {
		m.m[k] = new
		return true
	}
	return false
}

//go:norace
func (m *Map) CompareAndDelete(k, old any) bool {
	m.pt(false)
	if cur, ok := m.m[k]; ok && cur == old {
		delete(m.m, k)
		return true
	}
	return false
}

// Range visits a snapshot of the entries in insertion-independent (sorted by formatted key) order:
// deterministic, which the real one is not.
//
//go:norace
func (m *Map) Range(f func(k, v any) bool) {
	m.pt(true)
	type kv struct {
		k, v any
		s    string
	}
	var all []kv
	for k, v := range m.m {
		all = append(all, kv{k, v, fmt.Sprint(k)})
	}
	sort.Slice(all, func(i, j int) bool { return all[i].s < all[j].s })
	for _, e := range all {
		if !f(e.k, e.v) {
			return
		}
	}
}

//go:norace
func (m *Map) Clear() { m.pt(false); m.m = map[any]any{} }

type Mutex struct {
	held bool
}

//go:norace
func (m *Mutex) free() bool { return !m.held }

//go:norace
func (m *Mutex) Lock() {
	rt.Point(rt.OpLock, m, m.free)
	m.held = true
	rt.NoteLock(m)
	rt.RaceAcquire(m)
}

//go:norace
func (m *Mutex) TryLock() bool {
	rt.Point(rt.OpLock, m, nil)
	if m.held {
		return false
	}
	m.held = true
	rt.NoteLock(m)
	rt.RaceAcquire(m)
	return true
}

// Unlock is not a scheduling point: releasing a lock commutes with every operation of other
// threads that could run before it (they cannot touch this mutex), so merging it with the
// preceding step loses no behaviour.
//go:norace
func (m *Mutex) Unlock() {
	if !m.held {
		if rt.Cur != nil && rt.Cur.Teardown() {
			return
		}
		panic("sync: unlock of unlocked mutex")
	}
	rt.RaceRelease(m)
	m.held = false
	rt.NoteUnlock(m)
	rt.NoteWrite()
}

type RWMutex struct {
	w       bool
	readers int
}

//go:norace
func (m *RWMutex) Lock() {
	rt.Point(rt.OpLock, m, func() bool { return !m.w && m.readers == 0 })
	m.w = true
	rt.NoteLock(m)
	rt.RaceAcquire(m)
}
//go:norace
func (m *RWMutex) Unlock() {
	rt.RaceRelease(m)
	m.w = false
	rt.NoteUnlock(m)
	rt.NoteWrite()
}
//go:norace
func (m *RWMutex) RLock() {
	rt.Point(rt.OpRLock, rt.ReadOnly(m), func() bool { return !m.w })
	m.readers++
	rt.NoteLock(m)
	rt.RaceAcquire(m)
}
//go:norace
func (m *RWMutex) RUnlock() {
	rt.RaceReleaseMerge(m)
	if m.readers > 0 {
		m.readers--
	}
	rt.NoteUnlock(m)
	rt.NoteWrite()
}
//go:norace
func (m *RWMutex) RLocker() Locker { return rlocker{m} }

type rlocker struct{ m *RWMutex }

//go:norace
func (r rlocker) Lock()   { r.m.RLock() }
//go:norace
func (r rlocker) Unlock() { r.m.RUnlock() }

type WaitGroup struct {
	n int
}

//go:norace
func (w *WaitGroup) Add(d int) {
	// increments and decrements commute with each other; only Wait observes the counter
	rt.Point(rt.OpAtomic, rt.Commutative(w), nil)
	w.n += d
	if w.n < 0 {
		if rt.Cur != nil && rt.Cur.Teardown() {
			w.n = 0
			return
		}
		panic("sync: negative WaitGroup counter")
	}
	rt.RaceReleaseMerge(w)
}
//go:norace
func (w *WaitGroup) Done() { w.Add(-1) }
//go:norace
func (w *WaitGroup) Wait() {
	rt.Point(rt.OpWait, rt.ReadOnly(w), func() bool { return w.n == 0 })
	rt.RaceAcquire(w)
}

type Once struct {
	done bool
	m    Mutex
}

//go:norace
func (o *Once) Do(f func()) {
	o.m.Lock()
	defer o.m.Unlock()
	if !o.done {
		o.done = true
		f()
	}
}

type Cond struct {
	L       Locker
	waiters int
	signals int
}

//go:norace
func NewCond(l Locker) *Cond { return &Cond{L: l} }
//go:norace
func (c *Cond) Wait() {
	c.L.Unlock()
	c.waiters++
	rt.Point(rt.OpWait, c, func() bool { return c.signals > 0 })
	c.signals--
	c.waiters--
	c.L.Lock()
}
//go:norace
func (c *Cond) Signal() {
	rt.Point(rt.OpAtomic, c, nil)
	if c.waiters > c.signals {
		c.signals++
	}
}
//go:norace
func (c *Cond) Broadcast() {
	rt.Point(rt.OpAtomic, c, nil)
	c.signals = c.waiters
}
