package sync

// OnceFunc / OnceValue / OnceValues on the scheduled Once.

//go:norace
func OnceFunc(f func()) func() {
	var o Once
	return func() { o.Do(f) }
}

//go:norace
func OnceValue[T any](f func() T) func() T {
	var o Once
	var v T
	return func() T { o.Do(func() { v = f() }); return v }
}

//go:norace
func OnceValues[T1, T2 any](f func() (T1, T2)) func() (T1, T2) {
	var o Once
	var a T1
	var b T2
	return func() (T1, T2) { o.Do(func() { a, b = f() }); return a, b }
}
