package filepath

import realfp "path/filepath"

// pure functions and types of the real package
type WalkFunc = realfp.WalkFunc

var (
	ErrBadPattern = realfp.ErrBadPattern
	FromSlash     = realfp.FromSlash
	ToSlash       = realfp.ToSlash
	VolumeName    = realfp.VolumeName
	SplitList     = realfp.SplitList
	HasPrefix     = realfp.HasPrefix
	IsLocal       = realfp.IsLocal
	Localize      = realfp.Localize
)

const ListSeparator = realfp.ListSeparator

// EvalSymlinks: the in-memory file system has no links.
//
//go:norace
func EvalSymlinks(p string) (string, error) { return Clean(p), nil }
