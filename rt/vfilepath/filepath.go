// Package filepath (shim): WalkDir over the in-memory file system of the os shim.
package filepath

import (
	"io/fs"
	realfp "path/filepath"
	"strings"

	vos "github.com/jimsnab/go-redisemu/verifrt/vos"
)

var (
	Split   = realfp.Split
	Join    = realfp.Join
	Base    = realfp.Base
	Dir     = realfp.Dir
	Ext     = realfp.Ext
	Clean   = realfp.Clean
	IsAbs   = realfp.IsAbs
	Match   = realfp.Match
	Rel     = realfp.Rel
	SkipDir = realfp.SkipDir
	SkipAll = realfp.SkipAll
)

const Separator = realfp.Separator

//go:norace
func Abs(p string) (string, error) { return p, nil }

//go:norace
func WalkDir(root string, fn fs.WalkDirFunc) error {
	r := strings.TrimSuffix(root, "/")
	if err := fn(root, vos.MemEntry{N: Base(root), Dir: true}, nil); err != nil {
		if err == SkipDir || err == SkipAll {
			return nil
		}
		return err
	}
	for _, p := range vos.List(r) {
		full := p
		if r == "." {
			full = p
		}
		if err := fn(full, vos.MemEntry{N: Base(p)}, nil); err != nil {
			if err == SkipDir || err == SkipAll {
				return nil
			}
			return err
		}
	}
	return nil
}

//go:norace
func Walk(root string, fn realfp.WalkFunc) error {
	return WalkDir(root, func(path string, d fs.DirEntry, err error) error {
		info, _ := d.Info()
		return fn(path, info, err)
	})
}

//go:norace
func Glob(pattern string) ([]string, error) {
	var out []string
	dir, _ := Split(pattern)
	if dir == "" {
		dir = "."
	}
	for _, p := range vos.List(dir) {
		if ok, _ := Match(pattern, p); ok {
			out = append(out, p)
		}
	}
	return out, nil
}
