// Package rand (shim): deterministic, seedable stream; every draw is counted so that a command
// that loops on random numbers forever is detected.
package rand

import (
	realrand "math/rand"

	rt "github.com/jimsnab/go-redisemu/verifrt"
)

type (
	Rand   = realrand.Rand
	Source = realrand.Source
)

var (
	New       = realrand.New
	NewSource = realrand.NewSource
)

var r = realrand.New(realrand.NewSource(1))

// Reseed is called by the harness at the start of every execution.
func Reseed(seed int64) { r = realrand.New(realrand.NewSource(seed)) }

func Seed(seed int64)      { Reseed(seed) }
func Intn(n int) int       { rt.RandTick(); return r.Intn(n) }
func Int() int             { rt.RandTick(); return r.Int() }
func Int31() int32         { rt.RandTick(); return r.Int31() }
func Int31n(n int32) int32 { rt.RandTick(); return r.Int31n(n) }
func Int63() int64         { rt.RandTick(); return r.Int63() }
func Int63n(n int64) int64 { rt.RandTick(); return r.Int63n(n) }
func Uint32() uint32       { rt.RandTick(); return r.Uint32() }
func Uint64() uint64       { rt.RandTick(); return r.Uint64() }
func Float64() float64     { rt.RandTick(); return r.Float64() }
func Float32() float32     { rt.RandTick(); return r.Float32() }
func Perm(n int) []int     { rt.RandTick(); return r.Perm(n) }
func Shuffle(n int, swap func(i, j int)) { rt.RandTick(); r.Shuffle(n, swap) }
