// Package rand (shim): deterministic, seedable stream; every draw is counted so that a command
// that loops on random numbers forever is detected.
package rand

import (
	realrand "math/rand"

	rt "github.com/jimsnab/go-redisemu/verifrt"
)

type (
	Rand   = realrand.Rand
	Source = realrand.Source
)

var (
	New       = realrand.New
	NewSource = realrand.NewSource
)

var r = realrand.New(realrand.NewSource(1))

// Reseed is called by the harness at the start of every execution.
//go:norace
func Reseed(seed int64) { r = realrand.New(realrand.NewSource(seed)) }

//go:norace
func Seed(seed int64)      { Reseed(seed) }
//go:norace
func Intn(n int) int       { rt.RandTick(); return r.Intn(n) }
//go:norace
func Int() int             { rt.RandTick(); return r.Int() }
//go:norace
func Int31() int32         { rt.RandTick(); return r.Int31() }
//go:norace
func Int31n(n int32) int32 { rt.RandTick(); return r.Int31n(n) }
//go:norace
func Int63() int64         { rt.RandTick(); return r.Int63() }
//go:norace
func Int63n(n int64) int64 { rt.RandTick(); return r.Int63n(n) }
//go:norace
func Uint32() uint32       { rt.RandTick(); return r.Uint32() }
//go:norace
func Uint64() uint64       { rt.RandTick(); return r.Uint64() }
//go:norace
func Float64() float64     { rt.RandTick(); return r.Float64() }
//go:norace
func Float32() float32     { rt.RandTick(); return r.Float32() }
//go:norace
func Perm(n int) []int     { rt.RandTick(); return r.Perm(n) }
//go:norace
func Shuffle(n int, swap func(i, j int)) { rt.RandTick(); r.Shuffle(n, swap) }
