package rand

import (
	realrand "math/rand"

	rt "github.com/jimsnab/go-redisemu/verifrt"
)

type (
	Source64 = realrand.Source64
	Zipf     = realrand.Zipf
)

var NewZipf = realrand.NewZipf

//go:norace
func ExpFloat64() float64 { rt.RandTick(); return r.ExpFloat64() }

//go:norace
func NormFloat64() float64 { rt.RandTick(); return r.NormFloat64() }

//go:norace
func Read(p []byte) (int, error) { rt.RandTick(); return r.Read(p) }
