// Package net (shim): in-memory listeners and connections driven by the scheduler. A Read
// returns at most one segment as written by the peer, so the harness decides how a byte stream
// is cut into TCP segments.
package net

import (
	"errors"
	"fmt"
	"io"
	realnet "net"
	"strconv"
	"strings"
	"time"

	rt "github.com/jimsnab/go-redisemu/verifrt"
)

type (
	Conn     = realnet.Conn
	Listener = realnet.Listener
	Addr     = realnet.Addr
	Error    = realnet.Error
	OpError  = realnet.OpError
	TCPAddr  = realnet.TCPAddr
	IP       = realnet.IP
)

var (
	ErrClosed    = realnet.ErrClosed
	JoinHostPort = realnet.JoinHostPort
	SplitHostPort = realnet.SplitHostPort
	ParseIP      = realnet.ParseIP
)

type memAddr string

//go:norace
func (a memAddr) Network() string { return "tcp" }
//go:norace
func (a memAddr) String() string  { return string(a) }

type pipeID struct{ _ int }

type queue struct {
	segs   [][]byte
	closed bool // writer side closed: EOF after draining
}

type MemConn struct {
	pipe          *pipeID // identity shared by both ends: operations on either end do not commute
	in, out       *queue
	local, remote memAddr
	closed        bool
	Written       int // bytes written by this end
	linger        int // seconds Close waits for the peer to read (SetLinger)
	lingerOver    bool
}

//go:norace
func (c *MemConn) readable() bool { return c.closed || len(c.in.segs) > 0 || c.in.closed }

//go:norace
func (c *MemConn) Read(p []byte) (int, error) {
	rt.Point(rt.OpIO, c.pipe, c.readable)
	if c.closed {
		return 0, &realnet.OpError{Op: "read", Net: "tcp", Err: ErrClosed}
	}
	if len(c.in.segs) > 0 {
		seg := c.in.segs[0]
		n := copy(p, seg)
		if n < len(seg) {
			c.in.segs[0] = seg[n:]
		} else {
			c.in.segs = c.in.segs[1:]
		}
		rt.RaceAcquire(c.in)
		return n, nil
	}
	if c.in.closed {
		return 0, io.EOF
	}
	return 0, nil
}

// Pending reports whether unread inbound data exists (harness use).
//go:norace
func (c *MemConn) Pending() int {
	n := 0
	for _, s := range c.in.segs {
		n += len(s)
	}
	return n
}

// PeerClosed: the other side closed its end.
//go:norace
func (c *MemConn) PeerClosed() bool { return c.in.closed }
//go:norace
func (c *MemConn) IsClosed() bool   { return c.closed }

// SendBuffer > 0: a Write blocks while the peer has that many unread bytes (a client that does
// not read its replies); 0: writes never block. Reset by ResetNet.
var SendBuffer int

//go:norace
func (c *MemConn) writable() bool {
	if SendBuffer <= 0 || c.closed || c.out.closed {
		return true
	}
	n := 0
	for _, s := range c.out.segs {
		n += len(s)
	}
	return n < SendBuffer
}

//go:norace
func (c *MemConn) Write(p []byte) (int, error) {
	if SendBuffer > 0 {
		rt.Point(rt.OpIO, c.pipe, c.writable)
	} else {
		rt.Point(rt.OpIO, c.pipe, nil)
	}
	if c.closed {
		return 0, &realnet.OpError{Op: "write", Net: "tcp", Err: ErrClosed}
	}
	if c.out.closed {
		// the peer closed its read side too (full close)
		return 0, &realnet.OpError{Op: "write", Net: "tcp", Err: errors.New("broken pipe")}
	}
	if len(p) > 0 {
		c.out.segs = append(c.out.segs, append([]byte(nil), p...))
		c.Written += len(p)
		rt.RaceRelease(c.out)
	}
	return len(p), nil
}

//go:norace
func (c *MemConn) Close() error {
	rt.Point(rt.OpIO, c.pipe, nil)
	if c.closed {
		return &realnet.OpError{Op: "close", Net: "tcp", Err: ErrClosed}
	}
	if c.linger > 0 && len(c.out.segs) > 0 && !c.out.closed && !c.in.closed {
		// lingering close: blocks until the unread data has been taken or the time is up
		stop, _ := rt.AddTimer(time.Duration(c.linger)*time.Second, 0, func(time.Time) { c.lingerOver = true; rt.NoteWrite() })
		rt.Point(rt.OpIO, c.pipe, func() bool { return c.lingerOver || len(c.out.segs) == 0 || c.in.closed })
		stop()
	}
	c.closed = true
	c.out.closed = true // peer reads EOF
	c.in.closed = true  // peer writes fail
	rt.NoteWrite()
	return nil
}

//go:norace
func (c *MemConn) LocalAddr() Addr                    { return c.local }
//go:norace
func (c *MemConn) RemoteAddr() Addr                   { return c.remote }
//go:norace
func (c *MemConn) SetDeadline(t time.Time) error      { return nil }
//go:norace
func (c *MemConn) SetReadDeadline(t time.Time) error  { return nil }
//go:norace
func (c *MemConn) SetWriteDeadline(t time.Time) error { return nil }

// Pipe creates a connected pair (server end, client end).
//go:norace
func Pipe(serverAddr, clientAddr string) (*MemConn, *MemConn) {
	a, b := &queue{}, &queue{}
	id := &pipeID{}
	srv := &MemConn{pipe: id, in: a, out: b, local: memAddr(serverAddr), remote: memAddr(clientAddr)}
	cli := &MemConn{pipe: id, in: b, out: a, local: memAddr(clientAddr), remote: memAddr(serverAddr)}
	return srv, cli
}

type MemListener struct {
	addr    memAddr
	port    int
	pending []*MemConn
	closed  bool
	Accepted int
}

var ports = map[int]*MemListener{}
var nextClientPort = 40000

// ResetNet forgets all listeners (harness: start of an execution).
//go:norace
func ResetNet() { ports = map[int]*MemListener{}; nextClientPort = 40000; SendBuffer = 0 }

// PortBound reports whether a live listener owns the port.
//go:norace
func PortBound(port int) bool { _, ok := ports[port]; return ok }

//go:norace
func Listen(network, address string) (Listener, error) {
	rt.Point(rt.OpIO, rt.NetGlobal, nil)
	i := strings.LastIndex(address, ":")
	if i < 0 {
		return nil, fmt.Errorf("listen %s: missing port", address)
	}
	port, err := strconv.Atoi(address[i+1:])
	if err != nil {
		return nil, err
	}
	if _, busy := ports[port]; busy {
		return nil, &realnet.OpError{Op: "listen", Net: network, Err: errors.New("bind: address already in use")}
	}
	host := address[:i]
	if host == "" {
		host = "0.0.0.0"
	}
	l := &MemListener{addr: memAddr(fmt.Sprintf("%s:%d", host, port)), port: port}
	ports[port] = l
	return l, nil
}

//go:norace
func (l *MemListener) Accept() (Conn, error) {
	rt.Point(rt.OpIO, []any{l, rt.NetGlobal}, func() bool { return l.closed || len(l.pending) > 0 })
	if l.closed {
		return nil, &realnet.OpError{Op: "accept", Net: "tcp", Err: ErrClosed}
	}
	c := l.pending[0]
	l.pending = l.pending[1:]
	l.Accepted++
	return c, nil
}

//go:norace
func (l *MemListener) Close() error {
	// closing a listener also resets the connections nobody accepted: which objects the step uses
	// is not known while it is pending, so it is an operation that commutes with nothing
	rt.Point(rt.OpIO, nil, nil)
	rt.TouchAll()
	if l.closed {
		return &realnet.OpError{Op: "close", Net: "tcp", Err: ErrClosed}
	}
	l.closed = true
	if ports[l.port] == l {
		delete(ports, l.port)
	}
	// connections never accepted are reset
	for _, c := range l.pending {
		c.closed = true
		c.out.closed = true
		c.in.closed = true
	}
	l.pending = nil
	rt.NoteWrite()
	return nil
}

//go:norace
func (l *MemListener) Addr() Addr { return l.addr }

// DialMem connects to the in-memory listener on port; the returned Conn is the client end.
//go:norace
func DialMem(port int) (*MemConn, error) {
	rt.Point(rt.OpIO, rt.NetGlobal, nil)
	l, ok := ports[port]
	if ok {
		rt.Touch(l)
	}
	if !ok || l.closed {
		return nil, &realnet.OpError{Op: "dial", Net: "tcp", Err: errors.New("connection refused")}
	}
	nextClientPort++
	srv, cli := Pipe(string(l.addr), fmt.Sprintf("127.0.0.1:%d", nextClientPort))
	l.pending = append(l.pending, srv)
	rt.NoteWrite()
	return cli, nil
}

//go:norace
func Dial(network, address string) (Conn, error) {
	i := strings.LastIndex(address, ":")
	port, err := strconv.Atoi(address[i+1:])
	if err != nil {
		return nil, err
	}
	return DialMem(port)
}
