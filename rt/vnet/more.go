package net

import (
	"context"
	realnet "net"
	"time"
)

// The rest of the package's surface that code around a TCP server plausibly uses: types and pure
// functions come from the real package; everything that would open a socket is served by the
// in-memory network.

type (
	TCPConn     = MemConn
	TCPListener = MemListener

	IPMask              = realnet.IPMask
	IPNet               = realnet.IPNet
	IPAddr              = realnet.IPAddr
	UDPAddr             = realnet.UDPAddr
	UnixAddr            = realnet.UnixAddr
	HardwareAddr        = realnet.HardwareAddr
	AddrError           = realnet.AddrError
	DNSError            = realnet.DNSError
	DNSConfigError      = realnet.DNSConfigError
	ParseError          = realnet.ParseError
	InvalidAddrError    = realnet.InvalidAddrError
	UnknownNetworkError = realnet.UnknownNetworkError
	PacketConn          = realnet.PacketConn
	Buffers             = realnet.Buffers
	Flags               = realnet.Flags
	Interface           = realnet.Interface
	KeepAliveConfig     = realnet.KeepAliveConfig
)

var (
	ParseCIDR           = realnet.ParseCIDR
	CIDRMask            = realnet.CIDRMask
	IPv4                = realnet.IPv4
	IPv4Mask            = realnet.IPv4Mask
	ParseMAC            = realnet.ParseMAC
	ResolveTCPAddr      = realnet.ResolveTCPAddr
	ResolveIPAddr       = realnet.ResolveIPAddr
	ResolveUDPAddr      = realnet.ResolveUDPAddr
	TCPAddrFromAddrPort = realnet.TCPAddrFromAddrPort
	LookupPort          = realnet.LookupPort
	IPv4zero            = realnet.IPv4zero
	IPv6zero            = realnet.IPv6zero
	IPv6loopback        = realnet.IPv6loopback
	IPv4bcast           = realnet.IPv4bcast
	ErrWriteToConnected = realnet.ErrWriteToConnected
)

const (
	IPv4len = realnet.IPv4len
	IPv6len = realnet.IPv6len
	FlagUp  = realnet.FlagUp
)

// name resolution: only the loopback exists
//
//go:norace
func LookupHost(host string) ([]string, error) { return []string{"127.0.0.1"}, nil }

//go:norace
func LookupIP(host string) ([]IP, error) { return []IP{realnet.IPv4(127, 0, 0, 1)}, nil }

//go:norace
func LookupAddr(addr string) ([]string, error) { return []string{"localhost"}, nil }

//go:norace
func InterfaceAddrs() ([]Addr, error) { return nil, nil }

//go:norace
func Interfaces() ([]Interface, error) { return nil, nil }

// socket options of a TCP connection: accepted, without effect on the in-memory connection

//go:norace
func (c *MemConn) SetNoDelay(bool) error { return nil }

//go:norace
func (c *MemConn) SetKeepAlive(bool) error { return nil }

//go:norace
func (c *MemConn) SetKeepAlivePeriod(time.Duration) error { return nil }

//go:norace
func (c *MemConn) SetKeepAliveConfig(KeepAliveConfig) error { return nil }

// SetLinger(sec > 0): Close waits until the peer has read what was written, at most sec seconds (of the
// virtual clock) - as a TCP socket with SO_LINGER does. 0 and negative values: Close returns at once.
//
//go:norace
func (c *MemConn) SetLinger(sec int) error { c.linger = sec; return nil }

//go:norace
func (c *MemConn) SetReadBuffer(int) error { return nil }

//go:norace
func (c *MemConn) SetWriteBuffer(int) error { return nil }

// CloseWrite / CloseRead: half-close is not modelled, both close the connection.
//
//go:norace
func (c *MemConn) CloseWrite() error { return c.Close() }

//go:norace
func (c *MemConn) CloseRead() error { return c.Close() }

//go:norace
func (l *MemListener) AcceptTCP() (*TCPConn, error) {
	c, err := l.Accept()
	if err != nil {
		return nil, err
	}
	return c.(*MemConn), nil
}

//go:norace
func (l *MemListener) SetDeadline(time.Time) error { return nil }

//go:norace
func ListenTCP(network string, laddr *TCPAddr) (*TCPListener, error) {
	addr := ":0"
	if laddr != nil {
		addr = laddr.String()
	}
	l, err := Listen(network, addr)
	if err != nil {
		return nil, err
	}
	return l.(*MemListener), nil
}

//go:norace
func DialTCP(network string, laddr, raddr *TCPAddr) (*TCPConn, error) {
	c, err := Dial(network, raddr.String())
	if err != nil {
		return nil, err
	}
	return c.(*MemConn), nil
}

//go:norace
func DialTimeout(network, address string, timeout time.Duration) (Conn, error) {
	return Dial(network, address)
}

type Dialer struct {
	Timeout         time.Duration
	Deadline        time.Time
	LocalAddr       Addr
	DualStack       bool
	FallbackDelay   time.Duration
	KeepAlive       time.Duration
	KeepAliveConfig KeepAliveConfig
	Resolver        *realnet.Resolver
	Cancel          <-chan struct{}
}

//go:norace
func (d *Dialer) Dial(network, address string) (Conn, error) { return Dial(network, address) }

//go:norace
func (d *Dialer) DialContext(ctx context.Context, network, address string) (Conn, error) {
	if err := ctx.Err(); err != nil {
		return nil, err
	}
	return Dial(network, address)
}

type ListenConfig struct {
	KeepAlive       time.Duration
	KeepAliveConfig KeepAliveConfig
}

//go:norace
func (lc *ListenConfig) Listen(ctx context.Context, network, address string) (Listener, error) {
	if err := ctx.Err(); err != nil {
		return nil, err
	}
	return Listen(network, address)
}
