// Package os (shim): an in-memory file system with an operation log, so that the harness can
// materialise the on-disk state a crash at any point of a save would leave. Process-level
// functions are trapped (Exit) or re-exported.
package os

import (
	"errors"
	"io"
	"io/fs"
	realos "os"
	"sort"
	"strings"
	"time"

	rt "github.com/jimsnab/go-redisemu/verifrt"
)

type (
	Signal   = realos.Signal
	FileMode = realos.FileMode
	FileInfo = realos.FileInfo
	DirEntry = realos.DirEntry
	PathError = realos.PathError
)

var (
	Interrupt   = realos.Interrupt
	Kill        = realos.Kill
	Stdout      = realos.Stdout
	Stderr      = realos.Stderr
	Stdin       = realos.Stdin
	Args        = realos.Args
	Getenv      = realos.Getenv
	ErrNotExist = realos.ErrNotExist
	ErrExist    = realos.ErrExist
	ErrClosed   = realos.ErrClosed
	Getpid      = realos.Getpid
)

const (
	O_RDONLY = realos.O_RDONLY
	O_WRONLY = realos.O_WRONLY
	O_RDWR   = realos.O_RDWR
	O_APPEND = realos.O_APPEND
	O_CREATE = realos.O_CREATE
	O_EXCL   = realos.O_EXCL
	O_SYNC   = realos.O_SYNC
	O_TRUNC  = realos.O_TRUNC
	ModePerm = realos.ModePerm
)

//go:norace
func IsNotExist(err error) bool { return errors.Is(err, ErrNotExist) }
//go:norace
func IsExist(err error) bool    { return errors.Is(err, ErrExist) }

// ExitCode is set when the code under test calls os.Exit (trapped: the calling thread panics
// with ExitPanic so that the harness sees "the process would have exited").
type ExitPanic struct{ Code int }

//go:norace
func Exit(code int) { panic(ExitPanic{code}) }

// ---- in-memory file system -----------------------------------------------------------------

type inode struct{ data []byte }

type OpKind string

const (
	OpCreate   OpKind = "create" // create or truncate
	OpWrite    OpKind = "write"
	OpClose    OpKind = "close"
	OpRename   OpKind = "rename"
	OpRemove   OpKind = "remove"
	OpSync     OpKind = "sync"
	OpTruncate OpKind = "truncate"
)

type Op struct {
	Kind  OpKind
	Path  string
	Path2 string
	Data  []byte
	Size  int64
	Trunc bool // create: truncated an existing file
	Pos   int64 // write: 1 + offset of a positional write; 0: appended at the end
}

var files = map[string]*inode{}
var Log []Op
var Armed bool
var tmpSeq int

// Hook, if set, is called after every logged operation (fault injection / crash enumeration).
var Hook func(op Op)

//go:norace
func record(op Op) {
	if Armed {
		Log = append(Log, op)
	}
	if Hook != nil {
		Hook(op)
	}
}

// ResetFS empties the file system and the log.
//go:norace
func ResetFS() { files = map[string]*inode{}; Log = nil; Armed = false; Hook = nil; tmpSeq = 0 }

// Snapshot returns a deep copy of the file system (path -> content).
//go:norace
func Snapshot() map[string][]byte {
	m := map[string][]byte{}
	for p, n := range files {
		m[p] = append([]byte(nil), n.data...)
	}
	return m
}

// Restore replaces the file system by a snapshot.
//go:norace
func Restore(m map[string][]byte) {
	files = map[string]*inode{}
	for p, d := range m {
		files[p] = &inode{data: append([]byte(nil), d...)}
	}
}

// Apply replays logged operations on a snapshot (crash-state materialisation). cut >= 0 keeps only
// the first cut bytes of the final operation when that is a write.
//go:norace
func Apply(base map[string][]byte, ops []Op, cut int) map[string][]byte {
	m := map[string][]byte{}
	for p, d := range base {
		m[p] = append([]byte(nil), d...)
	}
	for i, op := range ops {
		switch op.Kind {
		case OpCreate:
			m[op.Path] = []byte{}
		case OpWrite:
			d := op.Data
			if i == len(ops)-1 && cut >= 0 && cut < len(d) {
				d = d[:cut]
			}
			if op.Pos > 0 {
				cur := m[op.Path]
				for int64(len(cur)) < op.Pos-1 {
					cur = append(cur, 0)
				}
				n := copy(cur[op.Pos-1:], d)
				m[op.Path] = append(cur, d[n:]...)
			} else {
				m[op.Path] = append(m[op.Path], d...)
			}
		case OpRename:
			if d, ok := m[op.Path]; ok {
				m[op.Path2] = d
				delete(m, op.Path)
			}
		case OpRemove:
			delete(m, op.Path)
		case OpTruncate:
			d := m[op.Path]
			if int64(len(d)) > op.Size {
				m[op.Path] = d[:op.Size]
			}
		}
	}
	return m
}

type File struct {
	name   string
	node   *inode
	pos    int
	wr, rd bool
	closed bool
	app    bool
}

//go:norace
func clean(p string) string {
	for strings.HasPrefix(p, "./") {
		p = p[2:]
	}
	return p
}

//go:norace
func Create(name string) (*File, error) { return OpenFile(name, O_RDWR|O_CREATE|O_TRUNC, 0o666) }
//go:norace
func Open(name string) (*File, error)   { return OpenFile(name, O_RDONLY, 0) }

//go:norace
func OpenFile(name string, flag int, perm FileMode) (*File, error) {
	rt.Touch(rt.FSGlobal)
	name = clean(name)
	n, ok := files[name]
	if !ok {
		if flag&O_CREATE == 0 {
			return nil, &PathError{Op: "open", Path: name, Err: ErrNotExist}
		}
		n = &inode{}
		files[name] = n
		record(Op{Kind: OpCreate, Path: name})
	} else {
		if flag&O_CREATE != 0 && flag&O_EXCL != 0 {
			return nil, &PathError{Op: "open", Path: name, Err: ErrExist}
		}
		if flag&O_TRUNC != 0 {
			n.data = nil
			record(Op{Kind: OpCreate, Path: name, Trunc: true})
		}
	}
	f := &File{name: name, node: n, rd: flag&O_WRONLY == 0, wr: flag&(O_WRONLY|O_RDWR) != 0, app: flag&O_APPEND != 0}
	return f, nil
}

//go:norace
func CreateTemp(dir, pattern string) (*File, error) {
	tmpSeq++
	name := pattern
	if i := strings.LastIndex(pattern, "*"); i >= 0 {
		name = pattern[:i] + itoa(tmpSeq) + pattern[i+1:]
	} else {
		name = pattern + itoa(tmpSeq)
	}
	if dir != "" && dir != "." {
		name = strings.TrimSuffix(dir, "/") + "/" + name
	}
	return OpenFile(name, O_RDWR|O_CREATE|O_EXCL, 0o600)
}

//go:norace
func itoa(n int) string {
	if n == 0 {
		return "0"
	}
	s := ""
	for n > 0 {
		s = string(rune('0'+n%10)) + s
		n /= 10
	}
	return s
}

//go:norace
func (f *File) Name() string { return f.name }

//go:norace
func (f *File) Write(p []byte) (int, error) {
	rt.Touch(rt.FSGlobal)
	if f.closed {
		return 0, &PathError{Op: "write", Path: f.name, Err: ErrClosed}
	}
	if !f.wr {
		return 0, &PathError{Op: "write", Path: f.name, Err: errors.New("bad file descriptor")}
	}
	// only appending writes occur (streaming encoder); positional overwrite is supported too
	pos := int64(0)
	if f.app || f.pos >= len(f.node.data) {
		f.node.data = append(f.node.data, p...)
		f.pos = len(f.node.data)
	} else {
		pos = int64(f.pos) + 1
		n := copy(f.node.data[f.pos:], p)
		f.node.data = append(f.node.data, p[n:]...)
		f.pos += len(p)
	}
	record(Op{Kind: OpWrite, Path: f.name, Data: append([]byte(nil), p...), Pos: pos})
	return len(p), nil
}

//go:norace
func (f *File) WriteAt(p []byte, off int64) (int, error) {
	rt.Touch(rt.FSGlobal)
	if f.closed {
		return 0, &PathError{Op: "write", Path: f.name, Err: ErrClosed}
	}
	for int64(len(f.node.data)) < off {
		f.node.data = append(f.node.data, 0)
	}
	n := copy(f.node.data[off:], p)
	f.node.data = append(f.node.data, p[n:]...)
	record(Op{Kind: OpWrite, Path: f.name, Data: append([]byte(nil), p...), Pos: off + 1})
	return len(p), nil
}

//go:norace
func (f *File) ReadAt(p []byte, off int64) (int, error) {
	rt.Touch(rt.FSGlobal)
	if f.closed {
		return 0, &PathError{Op: "read", Path: f.name, Err: ErrClosed}
	}
	if off >= int64(len(f.node.data)) {
		return 0, io.EOF
	}
	n := copy(p, f.node.data[off:])
	if n < len(p) {
		return n, io.EOF
	}
	return n, nil
}

//go:norace
func (f *File) Chmod(mode FileMode) error { return nil }

//go:norace
func (f *File) Chown(uid, gid int) error { return nil }

//go:norace
func (f *File) Fd() uintptr { return ^uintptr(0) }

//go:norace
func (f *File) SetDeadline(t time.Time) error { return nil }

//go:norace
func (f *File) SetReadDeadline(t time.Time) error { return nil }

//go:norace
func (f *File) SetWriteDeadline(t time.Time) error { return nil }

//go:norace
func (f *File) ReadDir(n int) ([]DirEntry, error) { return ReadDir(f.name) }

//go:norace
func (f *File) Readdirnames(n int) ([]string, error) {
	var out []string
	for _, p := range List(f.name) {
		out = append(out, base(p))
	}
	return out, nil
}

//go:norace
func (f *File) WriteString(s string) (int, error) { return f.Write([]byte(s)) }

//go:norace
func (f *File) Read(p []byte) (int, error) {
	rt.Touch(rt.FSGlobal)
	if f.closed {
		return 0, &PathError{Op: "read", Path: f.name, Err: ErrClosed}
	}
	if f.pos >= len(f.node.data) {
		return 0, io.EOF
	}
	n := copy(p, f.node.data[f.pos:])
	f.pos += n
	return n, nil
}

//go:norace
func (f *File) Seek(offset int64, whence int) (int64, error) {
	switch whence {
	case io.SeekStart:
		f.pos = int(offset)
	case io.SeekCurrent:
		f.pos += int(offset)
	case io.SeekEnd:
		f.pos = len(f.node.data) + int(offset)
	}
	return int64(f.pos), nil
}

//go:norace
func (f *File) Sync() error {
	rt.Touch(rt.FSGlobal)
	record(Op{Kind: OpSync, Path: f.name})
	return nil
}

//go:norace
func (f *File) Truncate(size int64) error {
	rt.Touch(rt.FSGlobal)
	if int64(len(f.node.data)) > size {
		f.node.data = f.node.data[:size]
	}
	record(Op{Kind: OpTruncate, Path: f.name, Size: size})
	return nil
}

//go:norace
func (f *File) Close() error {
	rt.Touch(rt.FSGlobal)
	if f.closed {
		return &PathError{Op: "close", Path: f.name, Err: ErrClosed}
	}
	f.closed = true
	record(Op{Kind: OpClose, Path: f.name})
	return nil
}

//go:norace
func (f *File) Stat() (FileInfo, error) { return memInfo{name: base(f.name), size: int64(len(f.node.data))}, nil }

//go:norace
func Rename(oldpath, newpath string) error {
	rt.Touch(rt.FSGlobal)
	oldpath, newpath = clean(oldpath), clean(newpath)
	n, ok := files[oldpath]
	if !ok {
		return &realos.LinkError{Op: "rename", Old: oldpath, New: newpath, Err: ErrNotExist}
	}
	files[newpath] = n
	delete(files, oldpath)
	record(Op{Kind: OpRename, Path: oldpath, Path2: newpath})
	return nil
}

//go:norace
func Remove(name string) error {
	rt.Touch(rt.FSGlobal)
	name = clean(name)
	if _, ok := files[name]; !ok {
		return &PathError{Op: "remove", Path: name, Err: ErrNotExist}
	}
	delete(files, name)
	record(Op{Kind: OpRemove, Path: name})
	return nil
}

//go:norace
func RemoveAll(name string) error {
	rt.Touch(rt.FSGlobal)
	name = clean(name)
	for p := range files {
		if p == name || strings.HasPrefix(p, name+"/") {
			delete(files, p)
			record(Op{Kind: OpRemove, Path: p})
		}
	}
	return nil
}

//go:norace
func Stat(name string) (FileInfo, error) {
	rt.Touch(rt.FSGlobal)
	name = clean(name)
	n, ok := files[name]
	if !ok {
		return nil, &PathError{Op: "stat", Path: name, Err: ErrNotExist}
	}
	return memInfo{name: base(name), size: int64(len(n.data))}, nil
}

//go:norace
func Lstat(name string) (FileInfo, error) { return Stat(name) }

//go:norace
func ReadFile(name string) ([]byte, error) {
	rt.Touch(rt.FSGlobal)
	name = clean(name)
	n, ok := files[name]
	if !ok {
		return nil, &PathError{Op: "open", Path: name, Err: ErrNotExist}
	}
	return append([]byte(nil), n.data...), nil
}

//go:norace
func WriteFile(name string, data []byte, perm FileMode) error {
	rt.Touch(rt.FSGlobal)
	f, err := OpenFile(name, O_WRONLY|O_CREATE|O_TRUNC, perm)
	if err != nil {
		return err
	}
	f.Write(data)
	return f.Close()
}

//go:norace
func MkdirAll(path string, perm FileMode) error { return nil }
//go:norace
func Mkdir(path string, perm FileMode) error    { return nil }
//go:norace
func TempDir() string                           { return "tmp" }

// List returns the paths inside dir (non-recursive when the fs is flat), sorted.
//go:norace
func List(dir string) []string {
	rt.Touch(rt.FSGlobal)
	dir = clean(dir)
	var out []string
	for p := range files {
		d := ""
		if i := strings.LastIndex(p, "/"); i >= 0 {
			d = p[:i]
		}
		if dir == "." || dir == "" {
			if d == "" {
				out = append(out, p)
			}
		} else if d == strings.TrimSuffix(dir, "/") {
			out = append(out, p)
		}
	}
	sort.Strings(out)
	return out
}

//go:norace
func ReadDir(dir string) ([]DirEntry, error) {
	rt.Touch(rt.FSGlobal)
	var out []DirEntry
	for _, p := range List(dir) {
		out = append(out, MemEntry{N: base(p), S: int64(len(files[p].data))})
	}
	return out, nil
}

//go:norace
func base(p string) string {
	if i := strings.LastIndex(p, "/"); i >= 0 {
		return p[i+1:]
	}
	return p
}

type memInfo struct {
	name string
	size int64
}

//go:norace
func (m memInfo) Name() string       { return m.name }
//go:norace
func (m memInfo) Size() int64        { return m.size }
//go:norace
func (m memInfo) Mode() FileMode     { return 0o644 }
//go:norace
func (m memInfo) ModTime() time.Time { return time.Time{} }
//go:norace
func (m memInfo) IsDir() bool        { return false }
//go:norace
func (m memInfo) Sys() any           { return nil }

type MemEntry struct {
	N   string
	S   int64
	Dir bool
}

//go:norace
func (e MemEntry) Name() string { return e.N }
//go:norace
func (e MemEntry) IsDir() bool  { return e.Dir }
//go:norace
func (e MemEntry) Type() fs.FileMode {
	if e.Dir {
		return fs.ModeDir
	}
	return 0
}
//go:norace
func (e MemEntry) Info() (fs.FileInfo, error) { return memInfo{name: e.N, size: e.S}, nil }
