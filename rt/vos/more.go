package os

import (
	realos "os"
	"strings"
	"time"

	rt "github.com/jimsnab/go-redisemu/verifrt"
)

// The rest of the package's surface: environment and process facts come from the real package,
// file operations act on the in-memory file system.

type (
	LinkError    = realos.LinkError
	SyscallError = realos.SyscallError
	Process      = realos.Process
	ProcessState = realos.ProcessState
	ProcAttr     = realos.ProcAttr
)

var (
	ErrInvalid          = realos.ErrInvalid
	ErrPermission       = realos.ErrPermission
	ErrProcessDone      = realos.ErrProcessDone
	ErrDeadlineExceeded = realos.ErrDeadlineExceeded
	ErrNoDeadline       = realos.ErrNoDeadline

	Environ         = realos.Environ
	LookupEnv       = realos.LookupEnv
	Setenv          = realos.Setenv
	Unsetenv        = realos.Unsetenv
	Clearenv        = realos.Clearenv
	Expand          = realos.Expand
	ExpandEnv       = realos.ExpandEnv
	Hostname        = realos.Hostname
	Getuid          = realos.Getuid
	Geteuid         = realos.Geteuid
	Getgid          = realos.Getgid
	Getegid         = realos.Getegid
	Getgroups       = realos.Getgroups
	Getppid         = realos.Getppid
	Getpagesize     = realos.Getpagesize
	Executable      = realos.Executable
	UserHomeDir     = realos.UserHomeDir
	UserCacheDir    = realos.UserCacheDir
	UserConfigDir   = realos.UserConfigDir
	IsPathSeparator = realos.IsPathSeparator
	IsPermission    = realos.IsPermission
	IsTimeout       = realos.IsTimeout
	NewSyscallError = realos.NewSyscallError
	FindProcess     = realos.FindProcess
)

const (
	PathSeparator     = realos.PathSeparator
	PathListSeparator = realos.PathListSeparator
	DevNull           = realos.DevNull

	ModeDir        = realos.ModeDir
	ModeAppend     = realos.ModeAppend
	ModeExclusive  = realos.ModeExclusive
	ModeTemporary  = realos.ModeTemporary
	ModeSymlink    = realos.ModeSymlink
	ModeDevice     = realos.ModeDevice
	ModeNamedPipe  = realos.ModeNamedPipe
	ModeSocket     = realos.ModeSocket
	ModeSetuid     = realos.ModeSetuid
	ModeSetgid     = realos.ModeSetgid
	ModeCharDevice = realos.ModeCharDevice
	ModeSticky     = realos.ModeSticky
	ModeIrregular  = realos.ModeIrregular
	ModeType       = realos.ModeType

	SEEK_SET = 0
	SEEK_CUR = 1
	SEEK_END = 2
)

//go:norace
func Getwd() (string, error) { return ".", nil }

//go:norace
func Chdir(dir string) error { return nil }

//go:norace
func exists(name string) error {
	if _, ok := files[clean(name)]; !ok {
		return &PathError{Op: "stat", Path: name, Err: ErrNotExist}
	}
	return nil
}

//go:norace
func Chmod(name string, mode FileMode) error { return exists(name) }

//go:norace
func Chown(name string, uid, gid int) error { return exists(name) }

//go:norace
func Lchown(name string, uid, gid int) error { return exists(name) }

//go:norace
func Chtimes(name string, atime, mtime time.Time) error { return exists(name) }

//go:norace
func SameFile(a, b FileInfo) bool { return a != nil && b != nil && a.Name() == b.Name() }

//go:norace
func Truncate(name string, size int64) error {
	rt.Touch(rt.FSGlobal)
	n, ok := files[clean(name)]
	if !ok {
		return &PathError{Op: "truncate", Path: name, Err: ErrNotExist}
	}
	for int64(len(n.data)) < size {
		n.data = append(n.data, 0)
	}
	n.data = n.data[:size]
	record(Op{Kind: OpTruncate, Path: clean(name), Size: size})
	return nil
}

// Link: the new name holds a copy of the content (a later write through one name does not show
// through the other; nothing in the code under test relies on hard-link identity).
//
//go:norace
func Link(oldname, newname string) error {
	rt.Touch(rt.FSGlobal)
	n, ok := files[clean(oldname)]
	if !ok {
		return &LinkError{Op: "link", Old: oldname, New: newname, Err: ErrNotExist}
	}
	if _, ok := files[clean(newname)]; ok {
		return &LinkError{Op: "link", Old: oldname, New: newname, Err: ErrExist}
	}
	files[clean(newname)] = &inode{data: append([]byte(nil), n.data...)}
	record(Op{Kind: OpCreate, Path: clean(newname)})
	record(Op{Kind: OpWrite, Path: clean(newname), Data: append([]byte(nil), n.data...)})
	return nil
}

//go:norace
func Symlink(oldname, newname string) error { return Link(oldname, newname) }

//go:norace
func Readlink(name string) (string, error) {
	return "", &PathError{Op: "readlink", Path: name, Err: ErrInvalid}
}

//go:norace
func MkdirTemp(dir, pattern string) (string, error) {
	tmpSeq++
	if dir == "" {
		dir = TempDir()
	}
	return strings.TrimSuffix(dir, "/") + "/" + strings.ReplaceAll(pattern, "*", "") + itoa(tmpSeq), nil
}
