//go:build !race

package verifrt

const RaceEnabled = false

func raceHandoffOut()         {}
func raceHandoffIn()          {}
func raceSpawn()              {}
func RaceAcquire(p any)       {}
func RaceRelease(p any)       {}
func RaceReleaseMerge(p any)  {}

// RaceRW marks an atomic access: acquire+release on the address.
func RaceRW(p any) {}
