package verifrt

import "fmt"

// Chan is the scheduled replacement of a buffered Go channel.
type Chan[T any] struct {
	buf    []T
	toks   []*int32 // race build: one synchronisation token per buffered element (a channel with
	// several senders must hand each receiver the clock of the sender of *its* element: a plain
	// release on the channel overwrites the clock of an earlier sender)
	capN   int
	closed bool
}

//go:norace
func NewChan[T any](n int) *Chan[T] {
	// n == 0: an unbuffered channel may be used as a close-only signal (receive blocks until
	// close); a send on it (a rendezvous) is not modelled and refused loudly in Send.
	if n < 0 {
		panic("verifrt: negative channel capacity")
	}
	return &Chan[T]{capN: n}
}

//go:norace
func (c *Chan[T]) Len() int { if c == nil { return 0 }; return len(c.buf) }
//go:norace
func (c *Chan[T]) Cap() int { if c == nil { return 0 }; return c.capN }

//go:norace
func (c *Chan[T]) sendReady() bool { return c != nil && (c.closed || len(c.buf) < c.capN) }
//go:norace
func (c *Chan[T]) recvReady() bool { return c != nil && (c.closed || len(c.buf) > 0) }

//go:norace
func (c *Chan[T]) doSend(v T) {
	if c.closed {
		panic("send on closed channel")
	}
	c.buf = append(c.buf, v)
	if RaceEnabled {
		tok := new(int32)
		c.toks = append(c.toks, tok)
		RaceRelease(tok)
	}
}

//go:norace
func (c *Chan[T]) doRecv() (v T, ok bool) {
	if len(c.buf) > 0 {
		v = c.buf[0]
		c.buf = c.buf[1:]
		if RaceEnabled && len(c.toks) > 0 {
			if c.toks[0] != nil {
				RaceAcquire(c.toks[0])
			}
			c.toks = c.toks[1:]
		}
		return v, true
	}
	RaceAcquire(c) // closed: synchronises with the close
	return v, false
}

//go:norace
func torndown() bool { return Cur != nil && Cur.teardown }

//go:norace
func Send[T any](c *Chan[T], v T) {
	if c != nil && c.capN == 0 {
		panic("verifrt: send on an unbuffered channel (rendezvous) is not supported by the shim")
	}
	Point(OpSend, c, c.sendReady)
	if torndown() {
		return
	}
	c.doSend(v)
}

//go:norace
func Recv[T any](c *Chan[T]) T {
	Point(OpRecv, c, c.recvReady)
	if torndown() {
		var z T
		return z
	}
	v, _ := c.doRecv()
	return v
}

//go:norace
func Recv2[T any](c *Chan[T]) (T, bool) {
	Point(OpRecv, c, c.recvReady)
	if torndown() {
		var z T
		return z, false
	}
	return c.doRecv()
}

// TrySend is a non-blocking send used by timers.
//go:norace
func TrySend[T any](c *Chan[T], v T) bool {
	if c == nil || c.closed || len(c.buf) >= c.capN {
		return false
	}
	c.buf = append(c.buf, v)
	if RaceEnabled {
		c.toks = append(c.toks, nil) // a timer is not a thread: nothing to synchronise with
	}
	return true
}

//go:norace
func Close[T any](c *Chan[T]) {
	Point(OpSend, c, nil)
	if torndown() {
		return
	}
	if c == nil {
		panic("close of nil channel")
	}
	if c.closed {
		panic("close of closed channel")
	}
	c.closed = true
	RaceRelease(c)
}

// ---- select -------------------------------------------------------------------------------

type Case struct {
	ready func() bool
	do    func() (any, bool)
	obj   any
}

type Sel struct {
	I   int
	val any
	ok  bool
}

type recvLike interface {
	recvReady() bool
	recvAny() (any, bool)
}

//go:norace
func (c *Chan[T]) recvAny() (any, bool) { v, ok := c.doRecv(); return v, ok }

//go:norace
func CaseRecv(ch any) Case {
	switch c := ch.(type) {
	case recvLike:
		return Case{ready: c.recvReady, do: c.recvAny, obj: ch}
	case <-chan struct{}:
		return realCase(c)
	case chan struct{}:
		return realCase(c)
	case nil:
		return Case{ready: func() bool { return false }, obj: RealChan}
	}
	panic(fmt.Sprintf("verifrt: unsupported channel type %T in select", ch))
}

// real channels (only lane.Done()) are polled: their readiness only changes through steps of
// scheduled threads, so polling is deterministic.
//go:norace
func realCase(c <-chan struct{}) Case {
	return Case{
		obj: RealChan,
		ready: func() bool {
			if c == nil {
				return false
			}
			select {
			case <-c:
				return true
			default:
				return false
			}
		},
		do: func() (any, bool) {
			select {
			case _, ok := <-c:
				return struct{}{}, ok
			default:
				return struct{}{}, false
			}
		},
	}
}

//go:norace
func CaseSend[T any](c *Chan[T], v T) Case {
	if c != nil && c.capN == 0 {
		panic("verifrt: send on an unbuffered channel (rendezvous) is not supported by the shim")
	}
	return Case{ready: c.sendReady, do: func() (any, bool) { c.doSend(v); return nil, true }, obj: c}
}

//go:norace
func Select(hasDefault bool, cases ...Case) *Sel {
	anyReady := func() bool {
		if hasDefault {
			return true
		}
		for _, c := range cases {
			if c.ready() {
				return true
			}
		}
		return false
	}
	objs := make([]any, 0, len(cases))
	for _, c := range cases {
		objs = append(objs, c.obj)
	}
	mask := func() uint64 {
		var m uint64
		for i, c := range cases {
			if i < 64 && c.ready() {
				m |= 1 << uint(i)
			}
		}
		return m
	}
	Point(OpSelect, &SelInfo{Objs: objs, Mask: mask}, anyReady)
	if torndown() {
		return &Sel{I: -1}
	}
	var ready []int
	for i, c := range cases {
		if c.ready() {
			ready = append(ready, i)
		}
	}
	if len(ready) == 0 {
		return &Sel{I: -1}
	}
	k := 0
	if len(ready) > 1 {
		k = Choose(len(ready), OpSelect)
	}
	i := ready[k]
	v, ok := cases[i].do()
	return &Sel{I: i, val: v, ok: ok}
}

//go:norace
func Got[T any](c *Chan[T], s *Sel) T {
	v, _ := s.val.(T)
	return v
}

//go:norace
func Got2[T any](c *Chan[T], s *Sel) (T, bool) {
	v, _ := s.val.(T)
	return v, s.ok
}
