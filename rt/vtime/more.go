package time

import (
	realtime "time"

	rt "github.com/jimsnab/go-redisemu/verifrt"
)

const (
	Sunday    = realtime.Sunday
	Monday    = realtime.Monday
	Tuesday   = realtime.Tuesday
	Wednesday = realtime.Wednesday
	Thursday  = realtime.Thursday
	Friday    = realtime.Friday
	Saturday  = realtime.Saturday
)

const (
	RFC822Z     = realtime.RFC822Z
	RFC850      = realtime.RFC850
	RFC1123Z    = realtime.RFC1123Z
	RubyDate    = realtime.RubyDate
)

var (
	ParseInLocation        = realtime.ParseInLocation
	LoadLocation           = realtime.LoadLocation
	LoadLocationFromTZData = realtime.LoadLocationFromTZData
)

// Reset of a ticker: stop and start over with the new period, ticks keep arriving on the same channel.
//
//go:norace
func (t *Ticker) Reset(d Duration) {
	t.stop()
	t.stop, _ = rt.AddTimer(d, d, func(now Time) { rt.TrySend(t.C, now) })
}
