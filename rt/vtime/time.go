// Package time (shim): virtual clock, scheduled timers and sleeps; types and pure functions are
// re-exported from the real package.
package time

import (
	realtime "time"

	rt "github.com/jimsnab/go-redisemu/verifrt"
)

type (
	Time       = realtime.Time
	Duration   = realtime.Duration
	Month      = realtime.Month
	Weekday    = realtime.Weekday
	Location   = realtime.Location
	ParseError = realtime.ParseError
)

const (
	Nanosecond  = realtime.Nanosecond
	Microsecond = realtime.Microsecond
	Millisecond = realtime.Millisecond
	Second      = realtime.Second
	Minute      = realtime.Minute
	Hour        = realtime.Hour
)

const (
	Layout      = realtime.Layout
	ANSIC       = realtime.ANSIC
	UnixDate    = realtime.UnixDate
	RFC822      = realtime.RFC822
	RFC1123     = realtime.RFC1123
	RFC3339     = realtime.RFC3339
	RFC3339Nano = realtime.RFC3339Nano
	Kitchen     = realtime.Kitchen
	Stamp       = realtime.Stamp
	StampMilli  = realtime.StampMilli
	StampMicro  = realtime.StampMicro
	StampNano   = realtime.StampNano
	DateTime    = realtime.DateTime
	DateOnly    = realtime.DateOnly
	TimeOnly    = realtime.TimeOnly
)

const (
	January   = realtime.January
	February  = realtime.February
	March     = realtime.March
	April     = realtime.April
	May       = realtime.May
	June      = realtime.June
	July      = realtime.July
	August    = realtime.August
	September = realtime.September
	October   = realtime.October
	November  = realtime.November
	December  = realtime.December
)

var (
	UTC   = realtime.UTC
	Local = realtime.UTC
)

var (
	Date          = realtime.Date
	Unix          = realtime.Unix
	UnixMilli     = realtime.UnixMilli
	UnixMicro     = realtime.UnixMicro
	Parse         = realtime.Parse
	ParseDuration = realtime.ParseDuration
	FixedZone     = realtime.FixedZone
)

//go:norace
func Now() Time             { return rt.Now() }
//go:norace
func Since(t Time) Duration { return rt.Now().Sub(t) }
//go:norace
func Until(t Time) Duration { return t.Sub(rt.Now()) }

// Sleep is a yield: the thread becomes runnable again once another thread has taken a step
// (every Sleep in go-redisemu sits in a retry loop waiting for another thread). Outside the
// scheduler it advances the virtual clock.
//go:norace
func Sleep(d Duration) {
	if rt.Cur == nil {
		rt.Advance(d)
		return
	}
	rt.KillIfTornDown()
	rt.Point(rt.OpYield, nil, nil)
}

type Timer struct {
	C     *rt.Chan[Time]
	stop  func() bool
	reset func(d Duration) bool
}

//go:norace
func NewTimer(d Duration) *Timer {
	t := &Timer{C: rt.NewChan[Time](1)}
	t.stop, t.reset = rt.AddTimer(d, 0, func(now Time) { rt.TrySend(t.C, now) })
	return t
}

//go:norace
func (t *Timer) Stop() bool            { return t.stop() }
//go:norace
func (t *Timer) Reset(d Duration) bool { return t.reset(d) }

//go:norace
func After(d Duration) *rt.Chan[Time] { return NewTimer(d).C }

//go:norace
func AfterFunc(d Duration, f func()) *Timer {
	t := &Timer{}
	t.stop, t.reset = rt.AddTimer(d, 0, func(now Time) { rt.GoNamed("afterfunc", f) })
	return t
}

type Ticker struct {
	C    *rt.Chan[Time]
	stop func() bool
}

//go:norace
func NewTicker(d Duration) *Ticker {
	t := &Ticker{C: rt.NewChan[Time](1)}
	t.stop, _ = rt.AddTimer(d, d, func(now Time) { rt.TrySend(t.C, now) })
	return t
}

//go:norace
func (t *Ticker) Stop() { t.stop() }

//go:norace
func Tick(d Duration) *rt.Chan[Time] { return NewTicker(d).C }
