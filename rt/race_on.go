//go:build race

package verifrt

import (
	"runtime"
	"unsafe"
)

// Race-detector variant. The cooperative hand-off between threads (a real channel per thread)
// is wrapped in RaceDisable/RaceEnable so that the detector does not see it as synchronisation,
// and all scheduler bookkeeping lives in go:norace functions. The shim primitives tell the
// detector the program's own synchronisation (lock = acquire, unlock = release, channel send ->
// receive, atomics = acquire + release). The detector therefore judges exactly the
// happens-before relation of the emulator, on a schedule the explorer chose.

const RaceEnabled = true

//go:norace
func raceHandoffOut() { runtime.RaceDisable() }

//go:norace
func raceHandoffIn() { runtime.RaceEnable() }

//go:norace
func raceSpawn() {}

//go:norace
func ptrOf(p any) unsafe.Pointer {
	return (*[2]unsafe.Pointer)(unsafe.Pointer(&p))[1]
}

//go:norace
func RaceAcquire(p any) {
	if a := ptrOf(p); a != nil {
		runtime.RaceAcquire(a)
	}
}

//go:norace
func RaceRelease(p any) {
	if a := ptrOf(p); a != nil {
		runtime.RaceRelease(a)
	}
}

//go:norace
func RaceReleaseMerge(p any) {
	if a := ptrOf(p); a != nil {
		runtime.RaceReleaseMerge(a)
	}
}

// RaceRW marks an atomic access: acquire + release on the address.
//
//go:norace
func RaceRW(p any) {
	if a := ptrOf(p); a != nil {
		runtime.RaceAcquire(a)
		runtime.RaceReleaseMerge(a)
	}
}
