package signal

import (
	"context"
	"os"
)

//go:norace
func Ignored(sig os.Signal) bool { return false }

// NotifyContext: no signal ever arrives; the context ends when the parent does or stop is called.
//
//go:norace
func NotifyContext(parent context.Context, signals ...os.Signal) (context.Context, context.CancelFunc) {
	return context.WithCancel(parent)
}
