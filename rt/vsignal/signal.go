// Package signal (shim): no process signals are delivered to the emulator under test.
package signal

import (
	"os"

	rt "github.com/jimsnab/go-redisemu/verifrt"
)

func Notify(c *rt.Chan[os.Signal], sig ...os.Signal) {}
func Stop(c *rt.Chan[os.Signal])                     {}
func Ignore(sig ...os.Signal)                        {}
func Reset(sig ...os.Signal)                         {}
