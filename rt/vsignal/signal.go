// Package signal (shim): no process signals are delivered to the emulator under test.
package signal

import (
	"os"

	rt "github.com/jimsnab/go-redisemu/verifrt"
)

//go:norace
func Notify(c *rt.Chan[os.Signal], sig ...os.Signal) {}
//go:norace
func Stop(c *rt.Chan[os.Signal])                     {}
//go:norace
func Ignore(sig ...os.Signal)                        {}
//go:norace
func Reset(sig ...os.Signal)                         {}
