//go:build verif

package redisemu

// Harness injected into package redisemu by the build overlay (never committed to /repo).
// It only *drives* the implementation through its own entry points:
//   - dispatcher level:  clientState.dispatch(request) -> respValue.serialize() -> bytes
//   - socket level:      newClientCxn(lane, net.Conn, dispatcher)
//   - server level:      NewEmulator(...).Start()/Close()

import (
	"context"
	"fmt"

	"github.com/jimsnab/go-lane"

	"github.com/jimsnab/go-redisemu/verifrt"
	net "github.com/jimsnab/go-redisemu/verifrt/vnet"
	vrand "github.com/jimsnab/go-redisemu/verifrt/vrand"
	vsync "github.com/jimsnab/go-redisemu/verifrt/vsync"
	time "github.com/jimsnab/go-redisemu/verifrt/vtime"
)

var vCmds redisCommands
var vInfo *redisInfoTable
var vInitDone bool

// VInit parses the command tables once per process.
func VInit() {
	if vInitDone {
		return
	}
	l := lane.NewNullLane(context.Background())
	rd := newRespDeserializerFromResource(l, cmdSpec)
	value, _, valid := rd.deserializeNext()
	if !valid {
		panic("verif harness: invalid cmdSpec")
	}
	cmds := redisCommands{}
	if !cmds.respDeserialize(l, value) {
		panic("verif harness: cannot deserialize command definitions")
	}
	ri := newRespDeserializerFromResource(l, cmdInfoSpec)
	value, _, valid = ri.deserializeNext()
	if !valid {
		panic("verif harness: invalid cmdInfoSpec")
	}
	info := newRedisInfoTable()
	if !info.respDeserialize(l, value) {
		panic("verif harness: cannot deserialize command info")
	}
	vCmds, vInfo = cmds, info
	vInitDone = true
}

// VResetGlobals puts the package-level state back to what a fresh process has.
func VResetGlobals() {
	clientId = 0
	clients = map[int64]*clientState{}
	clientsMu = vsync.Mutex{}
	infoMu = vsync.Mutex{}
	multiDataStoreLock = vsync.Mutex{}
	rid := info.run_id
	info = redisStats{run_id: rid}
	signals = 0
	testPort = 50000
	vPort = 6400
	vrand.Reseed(1)
	verifrt.SetNow(verifrt.Epoch)
}

// VInst is one emulator core: database set + dispatcher (what startServer builds).
type VInst struct {
	Dss  *dataStoreSet
	Disp *cmdDispatcher
	L    lane.Lane
	Port int
}

var vPort = 6400

func VNew(basePath string) *VInst {
	VInit()
	l := lane.NewNullLane(context.Background())
	vPort++
	vi := &VInst{L: l, Port: vPort}
	vi.Dss = newDataStoreSet(l, basePath, nil)
	vi.Disp = newCmdDispatcher(vi.Port, "127.0.0.1", vCmds, vInfo, vi.Dss)
	return vi
}

// Save runs what the periodic/final saver runs.
func (vi *VInst) Save() error { return vi.Dss.save(vi.L) }

// VClient is an in-process connection (the analogue of the repository's testClient).
type VClient struct {
	mu         vsync.Mutex
	cs         *clientState
	terminated bool
	addr       string
	laddr      string
	vi         *VInst
}

func (vi *VInst) NewClient() *VClient {
	c := &VClient{vi: vi, laddr: "127.0.0.1:6379"}
	c.cs = newClientState(lane.NewNullLane(context.Background()), c, vi.Disp)
	c.addr = fmt.Sprintf("1.2.3.4:%d", 50000+c.cs.id)
	return c
}

func (c *VClient) ClientInfo() []string { return []string{"age=0"} }
func (c *VClient) MatchFilter(filter map[string]string) bool {
	for k, v := range filter {
		switch k {
		case "addr":
			if v != c.addr {
				return false
			}
		case "laddr":
			if v != c.laddr {
				return false
			}
		}
	}
	return true
}
func (c *VClient) RequestClose() {
	c.mu.Lock()
	defer c.mu.Unlock()
	if !c.terminated {
		c.terminated = true
		c.cs.unblock("Error: Server closed the connection", true)
	}
}
func (c *VClient) IsCloseRequested() bool {
	c.mu.Lock()
	defer c.mu.Unlock()
	return c.terminated
}
func (c *VClient) ServerAddr() string { return c.laddr }
func (c *VClient) ClientAddr() string { return c.addr }
func (c *VClient) ServerNow() time.Time { return time.Now() }

func (c *VClient) ID() int64 { return c.cs.id }

// Unregister removes the client from the registry (what a connection teardown does).
func (c *VClient) Unregister() { c.cs.unregister() }

// Do sends one command (array of bulk strings) through the dispatcher and returns the
// serialised reply bytes.
func (c *VClient) Do(args ...string) []byte {
	a := make(respArray, 0, len(args))
	for _, s := range args {
		a = append(a, respValue{data: respBulkString(s)})
	}
	out := c.cs.dispatch(respValue{data: a})
	return out.serialize()
}

// DoBytes parses request bytes with the implementation's own deserializer (exactly what
// clientCxn.parseCommand does) and dispatches the value.
func (c *VClient) DoBytes(req []byte) (reply []byte, consumed int, ok bool) {
	rd := newRespDeserializer(lane.NewNullLane(context.Background()), req)
	v, n, valid := rd.deserializeNext()
	if !valid {
		return nil, 0, false
	}
	out := c.cs.dispatch(v)
	return out.serialize(), n, true
}

// VParse runs only the deserializer.
func VParse(req []byte) (n int, valid bool) {
	rd := newRespDeserializer(lane.NewNullLane(context.Background()), req)
	_, n, valid = rd.deserializeNext()
	return
}

// NewCxn attaches a socket-level connection (the real clientCxn state machine) to a net.Conn.
func (vi *VInst) NewCxn(conn net.Conn) int64 {
	cc := newClientCxn(lane.NewNullLane(context.Background()), conn, vi.Disp)
	return cc.cs.id
}

// VHandlerNames lists the command tokens that have a handler.
func VHandlerNames() []string {
	out := make([]string, 0, len(handlerTable))
	for k := range handlerTable {
		out = append(out, k)
	}
	return out
}

// VNumClients is the size of the package-level client registry.
func VNumClients() int { return len(clients) }

// VIsBlocked reports the capture state of a client without spinning.
func (c *VClient) VIsBlocked() bool { return c.cs.blocked == CS_CAPTURED }

// VEmu wraps the public emulator object.
type VEmu struct{ E *RedisEmu }

func VNewEmu(port int, persist string) *VEmu {
	e, _ := NewEmulator(lane.NewNullLane(context.Background()), port, "", persist, nil)
	return &VEmu{E: e}
}
func (v *VEmu) Start()              { v.E.Start() }
func (v *VEmu) Close()              { v.E.Close() }
func (v *VEmu) RequestTermination() { v.E.RequestTermination() }
func (v *VEmu) WaitForTermination() { v.E.WaitForTermination() }

// VHash exposes the dictionary's hash function so that checks can pick element names that
// collide in the low bits (forcing the bucket table to double, and allowing it to halve).
func VHash(s string) uint64 { return calcSipHash(s) }

// VDeepTableSize is set by the optional deep-introspection file (tag verifdeep): size of the
// bucket table of a hash/set key, or of the keyspace when key is "".
var VDeepTableSize func(vi *VInst, db int, key string) int

// VDeepSessionState (optional, tag verifdeep): the connection's session record in the format of
// the model's SessionState: database, protocol, name, MULTI state, queue length, watch count.
var VDeepSessionState func(c *VClient) string
