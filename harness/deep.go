//go:build verif && verifdeep

package redisemu

import "fmt"

// Optional introspection of private state (bucket-table sizes). It lives under its own build
// tag: if a refactoring breaks it, build.sh falls back to building without it and the checks
// only lose the corresponding evidence counters, never their verdict.

func init() {
	VDeepTableSize = func(vi *VInst, db int, key string) int {
		ds, ok := vi.Dss.dbs[db]
		if !ok {
			return 0
		}
		if key == "" {
			return len(ds.data.buckets)
		}
		v, ok := ds.data.get(key)
		if !ok {
			return 0
		}
		if d, ok := v.(*storeKey).payload.(*redisDict); ok {
			return len(d.buckets)
		}
		return 0
	}
}

func init() {
	VDeepSessionState = func(c *VClient) string {
		cs := c.cs
		multi := cs.cmdQueue != nil
		qlen := 0
		if multi {
			qlen = len(*cs.cmdQueue)
		}
		return fmt.Sprintf("db=%d proto=%d name=%q multi=%v qlen=%d abort=%v watches=%d", cs.selectedDb, cs.respVersion, cs.name, multi, qlen, cs.cmdQueueError, len(cs.watches))
	}
}
