package main

// C15: RESP2 vs RESP3. Differential: the same history and command on two fresh instances, one
// connection speaking RESP2, the other after HELLO 3; the RESP2 reply must consist of RESP2
// types only and equal the canonical down-conversion of the RESP3 reply.

import (
	"fmt"
	"math"
	"sort"
	"strconv"
	"strings"

	redisemu "github.com/jimsnab/go-redisemu"
	vm "github.com/jimsnab/go-redisemu/verifmodel"
	"github.com/jimsnab/go-redisemu/verifrt"
)

func resp2Only(r vm.Reply) (bool, string) {
	switch r.K {
	case vm.KStatus, vm.KErr, vm.KInt, vm.KBulk:
		return true, ""
	case vm.KNil:
		if r.Note == "resp3" {
			return false, "RESP3 null (_)"
		}
		return true, ""
	case vm.KArray:
		for _, e := range r.A {
			if ok, why := resp2Only(e); !ok {
				return false, why
			}
		}
		return true, ""
	}
	return false, "RESP3 type in a RESP2 reply: " + vm.Shape(r)
}

func numEq(s string, f float64) bool {
	switch strings.ToLower(s) {
	case "inf", "+inf":
		return math.IsInf(f, 1)
	case "-inf":
		return math.IsInf(f, -1)
	case "nan":
		return math.IsNaN(f)
	}
	v, err := strconv.ParseFloat(s, 64)
	return err == nil && v == f
}

// downEq: does RESP2 reply r2 equal the down-conversion of RESP3 reply r3?
func downEq(r2, r3 vm.Reply) bool {
	switch r3.K {
	case vm.KNil:
		return r2.K == vm.KNil
	case vm.KStatus:
		return r2.K == vm.KStatus && r2.S == r3.S
	case vm.KErr, vm.KBlobErr:
		return r2.K == vm.KErr && r2.S == r3.S
	case vm.KInt:
		return r2.K == vm.KInt && r2.I == r3.I
	case vm.KBulk:
		return r2.K == vm.KBulk && r2.S == r3.S
	case vm.KVerbatim:
		// "txt:...." -> the text as a string
		txt := r3.S
		if len(txt) >= 4 {
			txt = txt[4:]
		}
		return (r2.K == vm.KBulk || r2.K == vm.KStatus) && r2.S == txt
	case vm.KDouble:
		// "double to string": the string is the text of the double, not merely a text with the same
		// numeric value (2.5e+06 for ,2500000 is a different reply to a client that compares strings)
		return (r2.K == vm.KBulk || r2.K == vm.KStatus) && numEq(r2.S, r3.F) && r2.S == r3.S
	case vm.KBigNum:
		return (r2.K == vm.KBulk || r2.K == vm.KStatus) && r2.S == r3.S
	case vm.KBool:
		return r2.K == vm.KInt && r2.I == r3.I
	case vm.KArray, vm.KPush:
		if r2.K != vm.KArray {
			return false
		}
		if len(r2.A) == len(r3.A) {
			all := true
			for i := range r3.A {
				if !downEq(r2.A[i], r3.A[i]) {
					all = false
					break
				}
			}
			if all {
				return true
			}
		}
		// list of pairs: nested in RESP3, flat in RESP2
		if len(r2.A) == 2*len(r3.A) {
			for i, p := range r3.A {
				if p.K != vm.KArray || len(p.A) != 2 || !downEq(r2.A[2*i], p.A[0]) || !downEq(r2.A[2*i+1], p.A[1]) {
					return false
				}
			}
			return true
		}
		return false
	case vm.KSet:
		if r2.K != vm.KArray || len(r2.A) != len(r3.A) {
			return false
		}
		return multisetEq(r2.A, r3.A, 1)
	case vm.KMap, vm.KAttr:
		if r2.K != vm.KArray || len(r2.A) != len(r3.A) {
			return false
		}
		return multisetEq(r2.A, r3.A, 2)
	}
	return false
}

// multisetEq matches groups of `width` consecutive elements as multisets under downEq.
func multisetEq(a2, a3 []vm.Reply, width int) bool {
	n := len(a3) / width
	used := make([]bool, n)
	for i := 0; i < n; i++ {
		found := false
		for j := 0; j < n && !found; j++ {
			if used[j] {
				continue
			}
			ok := true
			for w := 0; w < width; w++ {
				if !downEq(a2[i*width+w], a3[j*width+w]) {
					ok = false
					break
				}
			}
			if ok {
				used[j] = true
				found = true
			}
		}
		if !found {
			return false
		}
	}
	return true
}

type c15Case struct {
	setup []Op
	cmd   []Op // usually one command; transactions are several
}

func runC15Pair(cs c15Case) (r2, r3 []vm.Reply, raw2, raw3 [][]byte, fail string) {
	run := func(proto int) ([]vm.Reply, [][]byte, string) {
		redisemu.VResetGlobals()
		var out []vm.Reply
		var raws [][]byte
		msg := ""
		done := false
		sched := verifrt.NewSched(nil)
		sched.Run(func() {
			vi := redisemu.VNew("")
			other := vi.NewClient() // the setup runs on another connection
			cl := vi.NewClient()
			if proto == 3 {
				cl.Do("HELLO", "3")
			}
			for _, o := range cs.setup {
				other.Do(o.Args...)
			}
			for _, o := range cs.cmd {
				raw := cl.Do(o.Args...)
				raws = append(raws, raw)
				r, err := vm.Parse1(raw)
				if err != nil {
					msg = fmt.Sprintf("RESP%d reply of %s does not parse: %v", proto, o, err)
					done = true
					return
				}
				out = append(out, r)
			}
			done = true
		})
		if !done {
			msg = fmt.Sprintf("RESP%d run ended with %s %v", proto, sched.Term, firstLine(fmt.Sprint(sched.PanicVal)))
			if sched.Term == verifrt.TermPanic {
				msg += " @" + panicSite(sched.PanicStk)
			}
		}
		return out, raws, msg
	}
	var m2, m3 string
	r2, raw2, m2 = run(2)
	r3, raw3, m3 = run(3)
	if m2 != "" || m3 != "" {
		fail = strings.TrimSpace(m2 + " " + m3)
	}
	return
}

func c15Corpus(tier string) (states [][]Op, cmds [][]Op) {
	states = [][]Op{
		nil,
		fixtureOps(""),
		singletonOps(),
		fixtureOps("100000"),
		{c("SET", "ks", "hello world"), c("SET", "kd", "hello wide"), c("RPUSH", "kl", "3", "1", "2"), c("HSET", "kh", "f", "1.5", "g", "x", "h", "10"), c("SADD", "kz", "m", "n2", "o3", "p4")},
	}
	for _, target := range []string{"kn", "ks", "kl", "kh", "kz", "ke"} {
		for _, o := range commandMatrix(target, true) {
			cmds = append(cmds, []Op{o})
		}
	}
	extra := [][]string{
		{"HELLO"}, {"HELLO", "2"}, {"HELLO", "3"}, {"PING"}, {"PING", "msg"}, {"ECHO", "x"}, {"CLIENT", "ID"}, {"CLIENT", "GETNAME"}, {"CLIENT", "SETNAME", "me"}, {"CLIENT", "INFO"}, {"CLIENT", "LIST"}, {"CLIENT", "NO-EVICT", "on"},
		{"INFO"}, {"INFO", "server"}, {"COMMAND", "COUNT"}, {"COMMAND", "INFO", "get"}, {"COMMAND", "DOCS", "get"}, {"COMMAND", "GETKEYS", "SET", "a", "b"}, {"COMMAND", "GETKEYSANDFLAGS", "SET", "a", "b"}, {"COMMAND", "LIST"}, {"COMMAND", "HELP"},
		{"LCS", "ks", "kd"}, {"LCS", "ks", "kd", "LEN"}, {"LCS", "ks", "kd", "IDX"}, {"LCS", "ks", "kd", "IDX", "WITHMATCHLEN"}, {"LCS", "ks", "kd", "IDX", "MINMATCHLEN", "3"},
		{"HRANDFIELD", "kh", "2", "WITHVALUES"}, {"HRANDFIELD", "kh", "-4", "WITHVALUES"}, {"HRANDFIELD", "kh", "10"}, {"HRANDFIELD", "kn", "2", "WITHVALUES"}, {"HINCRBYFLOAT", "kh", "f", "0.25"}, {"INCRBYFLOAT", "ks2", "2.5"},
		{"SMISMEMBER", "kz", "m", "zz"}, {"SINTERCARD", "1", "kz"}, {"OBJECT", "ENCODING", "ks"}, {"NOSUCHCOMMAND", "a", "b"}, {"GET"}, {"SCAN", "0"}, {"HSCAN", "kh", "0"}, {"SSCAN", "kz", "0"}, {"TYPE", "kh"}, {"EXPIRETIME", "ks"}, {"QUIT"},
		// doubles across the magnitudes where text conversions change notation
		{"HINCRBYFLOAT", "kh", "f", "2500000"}, {"HINCRBYFLOAT", "kh", "f", "1e15"}, {"HINCRBYFLOAT", "kh", "f", "1e17"}, {"HINCRBYFLOAT", "kh", "f", "1e21"}, {"HINCRBYFLOAT", "kh", "f", "0.00001"}, {"HINCRBYFLOAT", "kh", "f", "-0.0000001"}, {"HINCRBYFLOAT", "kh", "new", "3"},
		{"HINCRBYFLOAT", "kh", "f", "-1.5"}, {"HINCRBYFLOAT", "kh", "h", "-10"}, {"INCRBYFLOAT", "ks2", "2500000"}, {"INCRBYFLOAT", "ks2", "1e17"}, {"INCRBYFLOAT", "ks2", "0.00001"}, {"INCRBYFLOAT", "ks2", "-0"},
		{"SORT", "kl"}, {"SORT", "kl", "DESC"}, {"DBSIZE"}, {"SELECT", "3"}, {"WATCH", "ks"}, {"UNWATCH"}, {"DISCARD"}, {"EXEC"}, {"BITFIELD", "ks", "GET", "u8", "0", "INCRBY", "u8", "8", "1"}, {"BITFIELD", "ks", "OVERFLOW", "FAIL", "INCRBY", "u2", "0", "3"},
	}
	for _, a := range extra {
		cmds = append(cmds, []Op{{Args: a}})
	}
	// text that is not UTF-8 (or is multi-byte UTF-8) where the RESP3 type is a TEXT type (verbatim, simple
	// string, error quoting input): both protocols carry the same bytes
	for _, name := range []string{"caf\xe9", "\xff\xfe", "\xe5\x90\x8d\xe5\x89\x8d", "\xc3\x28", "a\x80b"} {
		cmds = append(cmds, []Op{c("CLIENT", "SETNAME", name), c("CLIENT", "LIST")}, []Op{c("CLIENT", "SETNAME", name), c("CLIENT", "INFO")}, []Op{c("CLIENT", "SETNAME", name), c("CLIENT", "GETNAME")},
			[]Op{c("ECHO", name)}, []Op{c("PING", name)}, []Op{c("SET", "kb", name), c("GET", "kb"), c("TYPE", "kb")}, []Op{c("NOSUCH" + name, name)}, []Op{c("CLIENT", "NOSUCH" + name)},
			[]Op{c("HSET", "kb", name, name), c("HGETALL", "kb"), c("HRANDFIELD", "kb", "1", "WITHVALUES")}, []Op{c("SADD", "kb", name), c("SMEMBERS", "kb")}, []Op{c("CLIENT", "SETINFO", "LIB-NAME", name), c("CLIENT", "INFO")})
	}
	// transactions: every reply shape nested inside the EXEC array
	tx := [][]string{{"HGETALL", "kh"}, {"HRANDFIELD", "kh", "2", "WITHVALUES"}, {"HINCRBYFLOAT", "kh", "f", "1.5"}, {"SMEMBERS", "kz"}, {"GET", "kn"}, {"LRANGE", "kl", "0", "-1"}, {"INCR", "kl"}, {"LCS", "ks", "kd", "IDX"}, {"CLIENT", "INFO"}, {"TYPE", "ks"}, {"LPOP", "kn", "2"}, {"BLPOP", "kn", "0"}, {"INFO", "server"}}
	for _, a := range tx {
		cmds = append(cmds, []Op{c("MULTI"), {Args: a}, c("EXEC")})
	}
	all := []Op{c("MULTI")}
	for _, a := range tx {
		all = append(all, Op{Args: a})
	}
	cmds = append(cmds, append(all, c("EXEC")))
	return
}

func runC15(tier string, rep *Report) {
	states, cmds := c15Corpus(tier)
	evals, nontrivial := 0, 0
	shapes := map[string]int{}
	distinct := map[string]bool{}
	for si, st := range states {
		for _, cm := range cmds {
			cs := c15Case{setup: st, cmd: cm}
			r2, r3, raw2, raw3, fail := runC15Pair(cs)
			evals++
			name := strings.ToUpper(cm[len(cm)-1].Args[0])
			if len(cm) > 1 {
				name = "MULTI+" + strings.ToUpper(cm[1].Args[0])
				if len(cm) > 3 {
					name = "MULTI+all"
				}
			} else if (name == "COMMAND" || name == "CLIENT") && len(cm[0].Args) > 1 {
				name += " " + strings.ToUpper(cm[0].Args[1])
			}
			trace := []string{}
			for _, o := range st {
				trace = append(trace, o.String())
			}
			for _, o := range cm {
				trace = append(trace, "=> "+o.String())
			}
			if fail != "" {
				rep.add(name+"|run|"+firstWord(fail), fail, trace)
				continue
			}
			for i := range r2 {
				cmdName := strings.ToUpper(cm[i].Args[0])
				if cmdName == "HELLO" {
					// replies legitimately differ (proto field; HELLO 3 switches the RESP2 connection):
					// protocol switching is the subject of the HELLO state-space part below
					continue
				}
				if cmdName == "CLIENT" || cmdName == "EXEC" {
					// CLIENT INFO / LIST print the connection's own protocol version
					r2[i], r3[i] = maskResp(r2[i]), maskResp(r3[i])
				}
				if cmdName == "COMMAND" && len(cm[i].Args) > 1 && strings.EqualFold(cm[i].Args[1], "LIST") {
					// built from a Go map: the order differs from run to run
					sortBulks(&r2[i])
					sortBulks(&r3[i])
				}
				d := fmt.Sprintf("%s: RESP2 %s  RESP3 %s", cm[i], clip(r2[i].String()), clip(r3[i].String()))
				if ok, why := resp2Only(r2[i]); !ok {
					rep.add(name+"|resp3-type-under-resp2|"+vm.Shape(r3[i]), why+": "+d, trace)
					continue
				}
				if !downEq(r2[i], r3[i]) {
					rep.add(name+"|down-conversion|"+vm.Shape(r3[i])+"->"+vm.Shape(r2[i]), d, trace)
				}
				if string(raw2[i]) != string(raw3[i]) {
					nontrivial++
				}
				shapes[vm.Shape(r3[i])]++
				distinct[fmt.Sprintf("%d|%s", si, cm[i])] = true
			}
			if evals%2003 == 1 {
				rep.sample(map[string]any{"history": trace, "resp2": replyStrings(r2), "resp3": replyStrings(r3)})
			}
		}
	}
	helloForms, helloViol := runC15HelloForms(rep)
	rep.Coverage["hello_forms_checked"] = helloForms
	rep.Coverage["hello_form_violations"] = helloViol
	keys := make([]string, 0, len(shapes))
	for k := range shapes {
		keys = append(keys, k)
	}
	sort.Strings(keys)
	rep.Coverage["states"] = len(states)
	rep.Coverage["transitions"] = evals
	rep.Coverage["traces_validated_against_impl"] = evals * 2
	rep.Coverage["evaluations"] = evals
	rep.Coverage["distinct_nontrivial"] = nontrivial
	rep.Coverage["distinct_cases"] = len(distinct)
	rep.Coverage["resp3_reply_shapes"] = shapes
	rep.Coverage["exhaustive"] = true
	rep.Coverage["rule"] = "every command template x every corpus state, run once under RESP2 and once under RESP3 on fresh instances; non-trivial = the two wire replies differ (a down-conversion actually happened)"
}

func maskResp(r vm.Reply) vm.Reply {
	if r.K == vm.KBulk || r.K == vm.KVerbatim || r.K == vm.KStatus {
		r.S = strings.ReplaceAll(strings.ReplaceAll(r.S, "resp=2", "resp=N"), "resp=3", "resp=N")
		// CLIENT LIST walks a Go map: the order of the lines differs from run to run
		pfx := ""
		body := r.S
		if r.K == vm.KVerbatim && len(body) >= 4 {
			pfx, body = body[:4], body[4:]
		}
		lines := strings.SplitAfter(body, "\n")
		sort.Strings(lines)
		r.S = pfx + strings.Join(lines, "")
	}
	if len(r.A) > 0 {
		a := make([]vm.Reply, len(r.A))
		for i, e := range r.A {
			a[i] = maskResp(e)
		}
		r.A = a
	}
	return r
}

func sortBulks(r *vm.Reply) {
	if r.K == vm.KArray {
		sort.Slice(r.A, func(i, j int) bool { return r.A[i].S < r.A[j].S })
	}
}

func replyStrings(rs []vm.Reply) []string {
	out := make([]string, len(rs))
	for i, r := range rs {
		out[i] = clip(r.String())
	}
	return out
}

func clip(s string) string {
	if len(s) > 300 {
		return s[:300] + "..."
	}
	return s
}

func firstWord(s string) string {
	f := strings.Fields(s)
	if len(f) > 6 {
		f = f[:6]
	}
	return strings.Join(f, "_")
}

// runC15HelloForms: a HELLO that is refused changes NOTHING, a HELLO that is accepted changes
// everything it names - judged from the reply alone, so that it holds whatever the emulator decides
// to accept (names with spaces, AUTH clauses ...): for every form x protocol spoken before x name set
// before x a second connection in either protocol. What the connection speaks is read off the shape
// of HGETALL (map / flat array) and of a double (HINCRBYFLOAT is a bulk string in both; CLIENT INFO
// resp=), the name from CLIENT GETNAME.
func runC15HelloForms(rep *Report) (forms, bad int) {
	var list [][]string
	for _, v := range []string{"2", "3"} {
		list = append(list, []string{"HELLO", v})
		for _, name := range []string{"ok", "bad name", "bad\nname", "tab\tname", "", "nul\x00", "\xff\xfe", strings.Repeat("n", 300)} {
			list = append(list, []string{"HELLO", v, "SETNAME", name}, []string{"HELLO", v, "setname", name})
		}
		list = append(list, []string{"HELLO", v, "SETNAME"}, []string{"HELLO", v, "SETNAME", "a", "extra"}, []string{"HELLO", v, "AUTH", "default", "nopass"}, []string{"HELLO", v, "AUTH", "default"},
			[]string{"HELLO", v, "AUTH", "u", "p", "SETNAME", "both"}, []string{"HELLO", v, "SETNAME", "both", "AUTH", "u", "p"}, []string{"HELLO", v, "SETNAME", "bad name", "AUTH", "u", "p"},
			[]string{"HELLO", v, "NOSUCHOPTION"}, []string{"HELLO", v, "SETNAME", "x", "SETNAME", "y"}, []string{"HELLO", v, "SETNAME", "x", "SETNAME", "bad name"})
	}
	for _, v := range []string{"0", "1", "4", "-3", "x", "", "3.0", "03", " 3", "9223372036854775808"} {
		list = append(list, []string{"HELLO", v}, []string{"HELLO", v, "SETNAME", "named"})
	}
	defer func() {
		f2, b2 := runC15HelloInMulti(rep)
		forms += f2
		bad += b2
	}()
	protoOf := func(cl *redisemu.VClient) int {
		r, err := vm.Parse1(cl.Do("HGETALL", "kh"))
		if err != nil {
			return -1
		}
		if r.K == vm.KMap {
			return 3
		}
		return 2
	}
	nameOf := func(cl *redisemu.VClient) string {
		r, _ := vm.Parse1(cl.Do("CLIENT", "GETNAME"))
		if r.K == vm.KNil {
			return "(none)"
		}
		return r.S
	}
	for _, form := range list {
		for _, before := range []int{2, 3} {
			for _, named := range []bool{false, true} {
				for _, otherProto := range []int{2, 3} {
					forms++
					redisemu.VResetGlobals()
					var msg string
					sched := verifrt.NewSched(nil)
					done := false
					sched.Run(func() {
						vi := redisemu.VNew("")
						other := vi.NewClient()
						other.Do("HSET", "kh", "f", "1")
						if otherProto == 3 {
							other.Do("HELLO", "3")
						}
						cl := vi.NewClient()
						if before == 3 {
							cl.Do("HELLO", "3")
						}
						if named {
							cl.Do("CLIENT", "SETNAME", "before")
						}
						p0, n0 := protoOf(cl), nameOf(cl)
						raw := cl.Do(form...)
						p1, n1 := protoOf(cl), nameOf(cl)
						isErr := len(raw) > 0 && (raw[0] == '-' || raw[0] == '!')
						want := 0
						fmt.Sscanf(form[1], "%d", &want)
						switch {
						case p0 != before:
							msg = fmt.Sprintf("set-up: the connection speaks RESP%d, expected %d", p0, before)
						case isErr && p1 != p0:
							msg = fmt.Sprintf("%v is refused (%s) but the connection now speaks RESP%d instead of RESP%d", quoteArgs(form), clipB(raw), p1, p0)
						case isErr && n1 != n0:
							msg = fmt.Sprintf("%v is refused (%s) but the connection's name changed from %q to %q", quoteArgs(form), clipB(raw), n0, n1)
						case !isErr && want != 2 && want != 3: // "03", " 3": lenient number forms may be accepted
							msg = fmt.Sprintf("%v is accepted (unsupported version): %s", quoteArgs(form), clipB(raw))
						case !isErr && p1 != want:
							msg = fmt.Sprintf("%v is accepted but the connection speaks RESP%d", quoteArgs(form), p1)
						}
						if msg == "" && !isErr {
							// the reply itself is in the protocol that was asked for
							if r, err := vm.Parse1(raw); err != nil || (want == 3) != (r.K == vm.KMap) {
								msg = fmt.Sprintf("%v is accepted but its reply is not in RESP%d: %s", quoteArgs(form), want, clipB(raw))
							}
						}
						if msg == "" && protoOf(other) != otherProto {
							msg = fmt.Sprintf("%v on one connection changed the protocol of another connection (RESP%d before)", quoteArgs(form), otherProto)
						}
						done = true
					})
					if !done && msg == "" {
						msg = fmt.Sprintf("%v: run ended with %s %v", quoteArgs(form), sched.Term, firstLine(fmt.Sprint(sched.PanicVal)))
					}
					if msg != "" {
						bad++
						opt := "plain"
						if len(form) > 2 {
							opt = strings.ToUpper(form[2])
						}
						kind := "other"
						for _, k := range []string{"is refused", "name changed", "unsupported version", "accepted but the connection", "reply is not in", "another connection", "run ended"} {
							if strings.Contains(msg, k) {
								kind = strings.ReplaceAll(k, " ", "-")
								if k == "is refused" && strings.Contains(msg, "now speaks") {
									kind = "refused-but-protocol-changed"
								}
								break
							}
						}
						rep.add(fmt.Sprintf("HELLO-form|%s|from-resp%d|%s", opt, before, kind), msg, map[string]any{"form": form, "protocol_before": before, "name_set_before": named})
					}
				}
			}
		}
	}
	return
}

// runC15HelloInMulti: a HELLO queued inside a transaction switches the protocol when EXEC runs it: the
// commands queued after it answer in the new protocol, the connection speaks it afterwards, and a RESP2
// connection never receives a RESP3 type - whatever was prepared when the commands were queued.
func runC15HelloInMulti(rep *Report) (forms, bad int) {
	for _, before := range []int{2, 3} {
		for _, target := range []string{"2", "3"} {
			for vi, queue := range [][][]string{
				{{"HGETALL", "kh"}, {"HELLO", target}, {"HGETALL", "kh"}, {"HINCRBYFLOAT", "kh", "n", "1.5"}, {"SMEMBERS", "kz"}},
				{{"HELLO", target}, {"HGETALL", "kh"}},
				{{"HELLO", target}, {"HELLO", map[string]string{"2": "3", "3": "2"}[target]}, {"HGETALL", "kh"}, {"HELLO", target}, {"HGETALL", "kh"}},
				{{"HELLO", target, "SETNAME", "inmulti"}, {"CLIENT", "GETNAME"}, {"HGETALL", "kh"}},
			} {
				forms++
				redisemu.VResetGlobals()
				msg := ""
				done := false
				sched := verifrt.NewSched(nil)
				sched.Run(func() {
					vi := redisemu.VNew("")
					cl := vi.NewClient()
					cl.Do("HSET", "kh", "f", "1", "n", "1")
					cl.Do("SADD", "kz", "m")
					if before == 3 {
						cl.Do("HELLO", "3")
					}
					cl.Do("MULTI")
					for _, q := range queue {
						cl.Do(q...)
					}
					raw := cl.Do("EXEC")
					r, err := vm.Parse1(raw)
					want := 2
					if target == "3" {
						want = 3
					}
					after, _ := vm.Parse1(cl.Do("HGETALL", "kh"))
					switch {
					case err != nil || r.K != vm.KArray || len(r.A) != len(queue):
						msg = fmt.Sprintf("EXEC reply %q", clipB(raw))
					case (after.K == vm.KMap) != (want == 3):
						msg = fmt.Sprintf("after the transaction the connection does not speak RESP%d (HGETALL answers %s)", want, vm.Shape(after))
					default:
						if want == 2 {
							if ok, why := resp2Only(r); !ok {
								msg = "the connection is RESP2 after EXEC but the EXEC reply carries a RESP3 type: " + why
							}
						} else {
							// the last HGETALL of the queue comes after the last HELLO 3
							last := r.A[len(r.A)-1]
							for qi := len(queue) - 1; qi >= 0; qi-- {
								if queue[qi][0] == "HGETALL" {
									last = r.A[qi]
									break
								}
							}
							if last.K != vm.KMap {
								msg = fmt.Sprintf("HGETALL queued after HELLO 3 answers %s inside the EXEC reply, not a map", vm.Shape(last))
							}
						}
					}
					done = true
				})
				if !done && msg == "" {
					msg = fmt.Sprintf("run ended with %s %v", sched.Term, firstLine(fmt.Sprint(sched.PanicVal)))
				}
				if msg != "" {
					bad++
					rep.add(fmt.Sprintf("HELLO-in-MULTI|from-resp%d|to-resp%s|queue%d", before, target, vi), fmt.Sprintf("RESP%d connection, MULTI %v EXEC: %s", before, queue, msg), map[string]any{"queue": queue, "protocol_before": before})
				}
			}
		}
	}
	return
}
