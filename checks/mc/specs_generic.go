package main

import redisemu "github.com/jimsnab/go-redisemu"

// C06 / C07: keyspace discipline and expiry. Both are built from one matrix: every command
// template of the emulator applied to a target key of every type (and a missing key).

// fixtures: one key per type with fixed contents
var fixKeys = []string{"ks", "kl", "kh", "kz", "ke"}

func fixtureOps(ttlMs string) []Op {
	// ksrt holds key names: SORT ksrt BY * / GET * dereference the other fixture keys
	ops := []Op{c("SET", "ks", "10"), c("RPUSH", "kl", "e", "f2"), c("HSET", "kh", "f", "1", "g", "x"), c("SADD", "kz", "m", "n2"), c("RPUSH", "ksrt", "ks", "kn", "kl"), c("SET", "ke", "")} // ke: the empty string is a string
	if ttlMs != "" {
		for _, k := range fixKeys {
			ops = append(ops, c("PEXPIRE", k, ttlMs))
		}
	}
	return ops
}

func singletonOps() []Op {
	return []Op{c("SET", "ks", "10"), c("RPUSH", "kl", "e"), c("HSET", "kh", "f", "1"), c("SADD", "kz", "m"), c("SET", "ke", "")}
}

// commandMatrix: every command with K standing for the target key. d is a destination key.
func commandMatrix(K string, full bool) []Op {
	d := "kd"
	t := [][]string{
		// strings
		{"GET", K}, {"SET", K, "v"}, {"SET", K, "v", "NX"}, {"SET", K, "v", "XX", "GET"}, {"SET", K, "v", "KEEPTTL"}, {"SETNX", K, "v"}, {"SETEX", K, "100", "v"}, {"PSETEX", K, "1000", "v"}, {"GETSET", K, "v"}, {"GETDEL", K},
		{"GETEX", K}, {"GETEX", K, "EX", "100"}, {"GETEX", K, "PERSIST"}, {"MGET", K, "ks"}, {"MSET", K, "v"}, {"MSETNX", K, "v"}, {"MSETNX", "kn2", "v", K, "w"}, {"APPEND", K, "v"}, {"STRLEN", K},
		{"GETRANGE", K, "0", "-1"}, {"SUBSTR", K, "0", "0"}, {"SETRANGE", K, "1", "v"}, {"INCR", K}, {"DECR", K}, {"INCRBY", K, "2"}, {"DECRBY", K, "2"}, {"INCRBYFLOAT", K, "1.5"},
		{"LCS", K, "ks"}, {"LCS", "ks", K, "LEN"},
		{"SETBIT", K, "3", "1"}, {"SETBIT", K, "100", "1"}, {"SETBIT", K, "100", "0"}, {"GETBIT", K, "3"}, {"GETBIT", K, "100"}, {"BITCOUNT", K}, {"BITCOUNT", K, "0", "-1"}, {"BITPOS", K, "1"}, {"BITPOS", K, "0"}, {"BITFIELD", K, "GET", "u4", "0"}, {"BITFIELD", K, "SET", "u4", "0", "1"}, {"BITFIELD", K, "INCRBY", "u4", "0", "1"}, {"BITFIELD", K, "SET", "u8", "64", "1"}, {"BITFIELD", K, "INCRBY", "i8", "#9", "1"}, {"BITFIELD", K, "GET", "u8", "64"}, {"SETRANGE", K, "10", "v"}, {"SETRANGE", K, "0", ""},
		{"BITFIELD_RO", K, "GET", "u4", "0"}, {"BITOP", "NOT", d, K}, {"BITOP", "AND", d, K, "ks"}, {"BITOP", "OR", d, "ks", K}, {"BITOP", "XOR", K, "ks", "ks"}, {"BITOP", "NOT", K, "ks"},
		// lists
		{"LPUSH", K, "v"}, {"RPUSH", K, "v"}, {"LPUSHX", K, "v"}, {"RPUSHX", K, "v"}, {"LPOP", K}, {"RPOP", K}, {"LPOP", K, "2"}, {"RPOP", K, "5"}, {"LLEN", K}, {"LINDEX", K, "0"}, {"LRANGE", K, "0", "-1"},
		{"LSET", K, "0", "v"}, {"LINSERT", K, "BEFORE", "e", "v"}, {"LREM", K, "0", "e"}, {"LTRIM", K, "0", "0"}, {"LTRIM", K, "1", "0"}, {"LPOS", K, "e"}, {"LMOVE", K, d, "LEFT", "LEFT"}, {"LMOVE", "kl", K, "LEFT", "LEFT"},
		{"LMOVE", K, K, "LEFT", "RIGHT"}, {"RPOPLPUSH", K, d}, {"RPOPLPUSH", "kl", K}, {"LMPOP", "1", K, "LEFT"}, {"LMPOP", "2", "kn2", K, "RIGHT", "COUNT", "2"},
		{"BLPOP", K, "0.01"}, {"BRPOP", "kn2", K, "0.01"}, {"BLMOVE", K, d, "LEFT", "LEFT", "0.01"}, {"BLMOVE", "kl", K, "RIGHT", "LEFT", "0.01"}, {"BRPOPLPUSH", K, d, "0.01"}, {"BLMPOP", "0.01", "1", K, "LEFT"},
		// hashes
		{"HSET", K, "f", "v"}, {"HSET", K, "q", "v"}, {"HSETNX", K, "f", "v"}, {"HMSET", K, "f", "v"}, {"HGET", K, "f"}, {"HMGET", K, "f", "q"}, {"HGETALL", K}, {"HKEYS", K}, {"HVALS", K}, {"HLEN", K}, {"HEXISTS", K, "f"},
		{"HSTRLEN", K, "f"}, {"HDEL", K, "f"}, {"HDEL", K, "f", "g"}, {"HINCRBY", K, "f", "1"}, {"HINCRBY", K, "g", "1"}, {"HINCRBYFLOAT", K, "f", "1.5"}, {"HINCRBYFLOAT", K, "f", "inf"}, {"HINCRBYFLOAT", K, "f", "nan"}, {"HINCRBYFLOAT", K, "g", "1"},
		{"HRANDFIELD", K}, {"HRANDFIELD", K, "2", "WITHVALUES"}, {"HRANDFIELD", K, "-3"}, {"HSCAN", K, "0", "COUNT", "100"},
		// sets
		{"SADD", K, "m"}, {"SADD", K, "q"}, {"SREM", K, "m"}, {"SREM", K, "m", "n2"}, {"SCARD", K}, {"SISMEMBER", K, "m"}, {"SMISMEMBER", K, "m", "q"}, {"SMEMBERS", K}, {"SMOVE", K, d, "m"}, {"SMOVE", "kz", K, "m"}, {"SMOVE", K, K, "m"},
		{"SRANDMEMBER", K}, {"SRANDMEMBER", K, "2"}, {"SRANDMEMBER", K, "-3"}, {"SSCAN", K, "0", "COUNT", "100"}, {"SINTER", K, "kz"}, {"SINTER", "kz", K}, {"SUNION", K, "kz"}, {"SUNION", "kz", K}, {"SDIFF", K, "kz"}, {"SDIFF", "kz", K},
		{"SINTERSTORE", d, K, "kz"}, {"SUNIONSTORE", d, K}, {"SDIFFSTORE", d, "kz", K}, {"SINTERSTORE", K, "kz", "kz"}, {"SUNIONSTORE", K, "kn2"}, {"SDIFFSTORE", K, "kz"}, {"SINTERCARD", "1", K}, {"SINTERCARD", "2", K, "kz"},
		// generic
		{"DEL", K}, {"DEL", K, K}, {"UNLINK", K}, {"EXISTS", K}, {"EXISTS", K, K, "ks"}, {"TYPE", K}, {"TOUCH", K}, {"TOUCH", K, "ks", "kn2"}, {"RENAME", K, d}, {"RENAME", "ks", K}, {"RENAME", K, K}, {"RENAMENX", K, d}, {"RENAMENX", "ks", K}, {"RENAMENX", K, "kl"},
		{"COPY", K, d}, {"COPY", K, d, "REPLACE"}, {"COPY", "ks", K}, {"COPY", "ks", K, "REPLACE"}, {"COPY", "kl", K, "REPLACE"}, {"COPY", "kh", K, "REPLACE"}, {"COPY", "kz", K, "REPLACE"}, {"COPY", K, K},
		{"EXPIRE", K, "100"}, {"EXPIRE", K, "-1"}, {"PEXPIRE", K, "100000"}, {"EXPIREAT", K, "1893457000"}, {"PEXPIREAT", K, "1893457000000"}, {"EXPIRE", K, "150", "NX"}, {"EXPIRE", K, "150", "XX"}, {"EXPIRE", K, "150", "GT"}, {"EXPIRE", K, "150", "LT"}, {"EXPIRE", K, "50", "GT"}, {"EXPIRE", K, "50", "LT"},
		{"PERSIST", K}, {"TTL", K}, {"PTTL", K}, {"EXPIRETIME", K}, {"PEXPIRETIME", K},
		// patterns without any special character (the key's own name), with one, and through SCAN
		{"KEYS", K}, {"KEYS", K + "*"}, {"KEYS", "k?"}, {"KEYS", "\\" + K}, {"SCAN", "0", "MATCH", K, "COUNT", "100"}, {"SCAN", "0", "MATCH", "k[a-z]", "COUNT", "100"}, {"EXISTS", K, K}, {"TOUCH", K}, {"RANDOMKEY"},
		{"SORT", K}, {"SORT", K, "ALPHA"}, {"SORT", K, "ALPHA", "DESC"}, {"SORT", K, "ALPHA", "STORE", d}, {"SORT", K, "LIMIT", "0", "1", "ALPHA"}, {"SORT", K, "BY", "nosort"}, {"SORT", "kl", "ALPHA", "STORE", K},
		{"SORT", "ksrt", "BY", "*", "ALPHA"}, {"SORT", "ksrt", "GET", "*", "ALPHA"}, {"SORT", "ksrt", "BY", "*", "GET", "#", "GET", "*", "ALPHA"}, {"SORT", "ksrt", "GET", "*", "ALPHA", "STORE", "kd"}, {"SORT", "ksrt", "BY", "kh->*", "GET", "kh->f", "ALPHA"},
		// the destination of STORE is itself read by a GET / BY pattern: the result is built from the old values
		{"SORT", "ksrt", "GET", "*", "ALPHA", "STORE", "ks"}, {"SORT", "ksrt", "GET", "#", "GET", "*", "ALPHA", "STORE", "ks"}, {"SORT", "ksrt", "BY", "*", "GET", "*", "ALPHA", "DESC", "STORE", "ks"}, {"SORT", "ksrt", "GET", "*", "ALPHA", "LIMIT", "1", "2", "STORE", "kn"}, {"SORT", "ksrt", "GET", "kh->*", "GET", "*", "ALPHA", "STORE", "kh"}, {"SORT", "ksrt", "GET", "*", "ALPHA", "STORE", "ksrt"},
		{"DUMP", K}, {"KEYS", "*"}, {"KEYS", "k?"}, {"DBSIZE"}, {"RANDOMKEY"}, {"SCAN", "0", "COUNT", "100"}, {"SCAN", "0", "COUNT", "100", "TYPE", "list"}, {"SCAN", "0", "COUNT", "100", "MATCH", "k[lh]"},
		// failing forms: syntax, range, overflow
		{"SET", K, "v", "EX", "0"}, {"SET", K, "v", "BOGUS"}, {"SETEX", K, "0", "v"}, {"INCRBY", K, "9223372036854775807"}, {"DECRBY", K, "-9223372036854775808"}, {"SETRANGE", K, "-1", "v"}, {"LSET", K, "7", "v"}, {"LINSERT", K, "MIDDLE", "e", "v"},
		{"LPOP", K, "-1"}, {"LMPOP", "0", K, "LEFT"}, {"HINCRBY", K, "f", "9223372036854775807"}, {"HINCRBY", K, "f", "abc"}, {"HINCRBYFLOAT", K, "f", "abc"}, {"SETBIT", K, "3", "2"}, {"SETBIT", K, "-1", "1"}, {"BITFIELD", K, "SET", "u64", "0", "1"},
		{"EXPIRE", K, "abc"}, {"EXPIRE", K, "100", "BOGUS"}, {"SINTERCARD", "1", K, "LIMIT", "-1"}, {"COPY", K, d, "BOGUS"}, {"SORT", K, "LIMIT", "0"}, {"RENAME", K}, {"HSET", K, "f"}, {"MSET", K},
	}
	_ = full
	out := make([]Op, 0, len(t))
	for _, a := range t {
		out = append(out, Op{Args: a})
	}
	return out
}

// aliasMatrix: every command that copies a value into another key, followed by a change of the source
// and by a change of the destination: the two keys must not share storage afterwards (the full state
// observation after the macro operation sees a change leaking through)
func aliasMatrix() []Op {
	type cp struct {
		copy     []string
		src, dst string
		kind     byte
	}
	cps := []cp{
		{[]string{"COPY", "ks", "kd"}, "ks", "kd", 's'}, {[]string{"COPY", "kl", "kd"}, "kl", "kd", 'l'}, {[]string{"COPY", "kh", "kd"}, "kh", "kd", 'h'}, {[]string{"COPY", "kz", "kd"}, "kz", "kd", 'z'},
		{[]string{"COPY", "kz", "kd", "REPLACE"}, "kz", "kd", 'z'}, {[]string{"SUNIONSTORE", "kd", "kz"}, "kz", "kd", 'z'}, {[]string{"SDIFFSTORE", "kd", "kz"}, "kz", "kd", 'z'}, {[]string{"SINTERSTORE", "kd", "kz"}, "kz", "kd", 'z'},
		{[]string{"SUNIONSTORE", "kd", "kz", "kn"}, "kz", "kd", 'z'}, {[]string{"SDIFFSTORE", "kd", "kz", "kn"}, "kz", "kd", 'z'}, {[]string{"SINTERSTORE", "kd", "kz", "kz"}, "kz", "kd", 'z'}, {[]string{"SUNIONSTORE", "kd", "kn", "kz"}, "kz", "kd", 'z'},
		{[]string{"SORT", "kl", "ALPHA", "STORE", "kd"}, "kl", "kd", 'l'}, {[]string{"BITOP", "AND", "kd", "ks"}, "ks", "kd", 's'}, {[]string{"BITOP", "OR", "kd", "ks", "kn"}, "ks", "kd", 's'}, {[]string{"RENAME", "kz", "kd"}, "kd", "kd", 'z'},
		{[]string{"SETRANGE", "kd", "0", ""}, "ks", "kd", 's'}, {[]string{"LMOVE", "kl", "kd", "LEFT", "LEFT"}, "kl", "kd", 'l'},
	}
	mut := map[byte][][]string{
		's': {{"APPEND", "%", "x"}, {"SETRANGE", "%", "0", "Z"}, {"SETBIT", "%", "1", "1"}, {"INCR", "%"}},
		'l': {{"RPUSH", "%", "q"}, {"LSET", "%", "0", "q"}, {"LPOP", "%"}},
		'h': {{"HSET", "%", "f", "q"}, {"HSET", "%", "q", "q"}, {"HDEL", "%", "f"}},
		'z': {{"SADD", "%", "q"}, {"SREM", "%", "m"}, {"SREM", "%", "m", "n2"}},
	}
	var out []Op
	for _, p := range cps {
		for _, victim := range []string{p.src, p.dst} {
			for _, m := range mut[p.kind] {
				a := append([]string{}, m...)
				for i := range a {
					if a[i] == "%" {
						a[i] = victim
					}
				}
				out = append(out, Op{Args: p.copy, Then: []Op{{Args: a}}})
			}
		}
	}
	return out
}

func matrixAll(targets []string) []Op {
	var S []Op
	seen := map[string]bool{}
	for _, k := range targets {
		for _, op := range commandMatrix(k, true) {
			key := op.String()
			if !seen[key] {
				seen[key] = true
				S = append(S, op)
			}
		}
	}
	return S
}

func specC06(tier string) *SeqSpec {
	s := &SeqSpec{ID: "C06", Sessions: 1, Keys: []string{"ks", "kl", "kh", "kz", "kn", "kn2", "kd", "ke"}, DBs: []int{0}, TTL: true}
	s.Inits = [][]Op{fixtureOps(""), singletonOps(), fixtureOps("100000"), append(singletonOps(), c("SET", "kd", "old", "PX", "5000"))}
	s.Sweep = append(matrixAll([]string{"kn", "ks", "kl", "kh", "kz", "ke"}), aliasMatrix()...)
	// chained: generic commands and removers, so that states "after the last element went away",
	// "after a rename", "after a copy" are themselves starting points of the matrix
	s.Alphabet = []Op{
		c("DEL", "ks", "kl"), c("UNLINK", "kh"), c("RENAME", "kl", "kd"), c("RENAME", "kh", "ks"), c("RENAMENX", "kz", "kd"), c("COPY", "kl", "kd"), c("COPY", "kh", "kd", "REPLACE"), c("COPY", "kz", "kd", "REPLACE"), c("COPY", "ks", "kd"),
		c("LPOP", "kl"), c("RPOP", "kl", "2"), c("LREM", "kl", "0", "e"), c("LTRIM", "kl", "1", "0"), c("LMOVE", "kl", "kd", "LEFT", "LEFT"), c("LMPOP", "1", "kl", "LEFT", "COUNT", "9"),
		c("HDEL", "kh", "f"), c("HDEL", "kh", "g"), c("SREM", "kz", "m"), c("SREM", "kz", "n2"), c("SMOVE", "kz", "kd", "m"), c("SDIFFSTORE", "kz", "kz", "kz"), c("SINTERSTORE", "kd", "kz", "kn"),
		c("GETDEL", "ks"), c("EXPIRE", "kl", "0"), c("PEXPIRE", "kh", "20000"), c("PERSIST", "kz"), c("SORT", "kl", "ALPHA", "STORE", "kd"), c("SORT", "kz", "ALPHA", "STORE", "kd"), c("BITOP", "AND", "ks", "kn", "kn2"),
		c("SET", "kl", "now-a-string"), c("LPUSH", "kn", "x"), c("HSET", "kn", "f", "v"), c("SADD", "kn", "x"),
		// keys whose deadline has passed but which nothing has reclaimed yet: they do not exist any more, for
		// KEYS / SCAN / EXISTS / TYPE / RANDOMKEY and for every command of the matrix
		{Args: []string{"PEXPIRE", "ks", "1"}, Then: []Op{{Args: []string{"PING"}, Advance: 5}}}, {Args: []string{"PEXPIRE", "kl", "1"}, Then: []Op{{Args: []string{"PEXPIRE", "kh", "1"}}, {Args: []string{"PING"}, Advance: 5}}},
		{Args: []string{"PEXPIRE", "kz", "2"}, Then: []Op{{Args: []string{"PEXPIRE", "ke", "2"}}, {Args: []string{"PING"}, Advance: 5}}}, c("EXPIRE", "ks", "-1"), c("EXPIREAT", "kh", "1"), c("PEXPIREAT", "kl", "1"),
	}
	// the key space itself as a table with a history: fill, drain in four orders, churn with colliding names
	// (the removal counter and the table size go through every state; KEYS / DBSIZE / every key after each step)
	s.Long = dictHistories("SET", "DEL", "", true, tier)
	s.Depth = 1
	if tier == "thorough" {
		s.Depth = 2
	}
	return s
}

// C06 part 2: KEYS against a port of Redis' glob matcher, all patterns of <= 3 symbols
func specC06glob(tier string) *SeqSpec {
	s := &SeqSpec{ID: "C06#glob", Sessions: 1, DBs: []int{0}}
	alphaN := []string{"a", "b", "-", "^", "]"}
	var init []Op
	var names []string
	for _, x := range alphaN {
		names = append(names, x)
		for _, y := range alphaN {
			names = append(names, x+y)
		}
	}
	names = append(names, "abc", "a*", "[a]", "\\a")
	for _, n := range names {
		init = append(init, c("SET", n, "1"))
	}
	s.Inits = [][]Op{init}
	s.Keys = names
	sym := []string{"a", "b", "*", "?", "[", "]", "\\", "-", "^"}
	var S []Op
	for _, x := range sym {
		S = append(S, c("KEYS", x))
		for _, y := range sym {
			S = append(S, c("KEYS", x+y))
			for _, z := range sym {
				S = append(S, c("KEYS", x+y+z))
				if tier == "thorough" {
					for _, w := range []string{"]", "a", "*", "-"} {
						S = append(S, c("KEYS", x+y+z+w))
					}
				}
			}
		}
	}
	S = append(S, c("KEYS", "[a-b]*"), c("KEYS", "[^a]?"), c("KEYS", "[b-a]"), c("KEYS", "*[*]*"), c("KEYS", "a[b"), c("KEYS", "[a-"), c("KEYS", "\\[a\\]"), c("KEYS", "**a**"), c("KEYS", ""), c("KEYS", "[]a]"), c("KEYS", "[^]a]"), c("KEYS", "[a\\-b]"),
		c("SCAN", "0", "COUNT", "1000", "MATCH", "[a-b]?"), c("SCAN", "0", "COUNT", "1000", "MATCH", "[^a]*"))
	s.Sweep = S
	s.Depth = 0
	s.Probes = nil
	return s
}

func specC07(tier string) *SeqSpec {
	s := &SeqSpec{ID: "C07", Sessions: 1, Keys: []string{"ks", "kl", "kh", "kz", "kn", "kn2", "kd", "ke"}, DBs: []int{0}, TTL: true}
	adv := func(ms int64) Op { return Op{Args: []string{"PING"}, Advance: ms} }
	s.Inits = [][]Op{
		append(fixtureOps("100000"), adv(99998)),  // phase B: 2 ms before the deadline
		append(fixtureOps("100000"), adv(99999)),  // 1 ms before
		append(fixtureOps("100000"), adv(100001)), // phase C: 1 ms after, objects still stored
		append(fixtureOps("100000"), adv(100002)),
		append(fixtureOps("100000"), adv(5000000)),
		// mixed: only some keys expired, destination key expired
		append(append(fixtureOps(""), c("PEXPIRE", "kl", "1000"), c("PEXPIRE", "kz", "1000"), c("SET", "kd", "old", "PX", "1000")), adv(1001)),
		append(append(fixtureOps(""), c("PEXPIRE", "ks", "1000"), c("PEXPIRE", "kh", "1000"), c("SET", "kd", "old", "PX", "500000")), adv(1500)),
		append(singletonOps(), c("EXPIREAT", "kl", "1893456010"), c("PEXPIREAT", "kh", "1893456010000"), c("SET", "kz2", "x", "EXAT", "1893456010"), adv(10001)),
	}
	S := matrixAll([]string{"kn", "ks", "kl", "kh", "kz", "ke"})
	// complete TTL option matrix
	for _, k := range []string{"ks", "kl", "kn"} {
		for _, cmd := range [][]string{{"EXPIRE", "50"}, {"EXPIRE", "200"}, {"EXPIRE", "-5"}, {"PEXPIRE", "50000"}, {"PEXPIRE", "200000"}, {"PEXPIRE", "-5"}, {"EXPIREAT", "1893456050"}, {"EXPIREAT", "1893457200"}, {"EXPIREAT", "1000"}, {"PEXPIREAT", "1893456050000"}, {"PEXPIREAT", "1893459999000"}, {"PEXPIREAT", "1000"}} {
			for _, opt := range []string{"", "NX", "XX", "GT", "LT", "nx", "Gt"} {
				a := []string{cmd[0], k, cmd[1]}
				if opt != "" {
					a = append(a, opt)
				}
				S = append(S, Op{Args: a})
			}
		}
	}
	// long lifetimes: months and years in every unit (a seeded change of wave 6 clamped millisecond
	// lifetimes with the limit that is right for seconds)
	for _, k := range []string{"ks", "kl", "kn"} {
		for _, cmd := range [][]string{{"PEXPIRE", "15552000000"}, {"PEXPIRE", "315360000000"}, {"PEXPIRE", "9223372036855"}, {"EXPIRE", "15552000"}, {"EXPIRE", "315360000"}, {"EXPIRE", "9223372037"},
			{"PEXPIREAT", "1909008000000"}, {"PEXPIREAT", "4102444800000"}, {"EXPIREAT", "4102444800"}, {"EXPIREAT", "32503680000"}} {
			S = append(S, Op{Args: []string{cmd[0], k, cmd[1]}}, Op{Args: []string{cmd[0], k, cmd[1], "GT"}}, Op{Args: []string{cmd[0], k, cmd[1], "LT"}})
		}
	}
	for _, e := range [][]string{{"PX", "15552000000"}, {"PX", "315360000000"}, {"EX", "315360000"}, {"EX", "9223372037"}, {"PXAT", "4102444800000"}, {"EXAT", "32503680000"}} {
		S = append(S, Op{Args: append([]string{"SET", "ks", "v"}, e...)}, Op{Args: append([]string{"SET", "kn", "v"}, e...)}, Op{Args: append([]string{"GETEX", "ks"}, e...)})
	}
	// writes of the value the key already holds are writes: a plain SET clears the deadline all the same
	for _, same := range [][]string{{"SET", "ks", "10"}, {"SET", "ks", "10", "XX"}, {"SET", "ks", "10", "GET"}, {"GETSET", "ks", "10"}, {"MSET", "ks", "10"}, {"SET", "ks", "10", "KEEPTTL"}, {"SETRANGE", "ks", "0", "10"}, {"APPEND", "ks", ""}, {"SET", "ke", ""}, {"SETEX", "ks", "100", "10"},
		{"LSET", "kl", "0", "e"}, {"HSET", "kh", "f", "1"}, {"SADD", "kz", "m"}, {"COPY", "ks", "ks2"}, {"RENAME", "ks", "ks"}, {"SUNIONSTORE", "kz", "kz"}, {"BITOP", "OR", "ks", "ks"}} {
		S = append(S, Op{Args: same})
	}
	// absolute deadlines at the end of the number range
	for _, k := range []string{"ks", "kn"} {
		// (deadlines after the year 9999 that ARE expressible are not judged: the emulator keeps such keys for ever)
		S = append(S, c("EXPIREAT", k, "9223372036854775807"), c("EXPIREAT", k, "9223372036854776"), c("SET", k, "v", "EXAT", "9223372036854775807"), c("GETEX", k, "EXAT", "9223372036854776"), c("EXPIREAT", k, "9223372036854776", "GT"), c("SET", k, "v", "EXAT", "9223372036854776", "NX"))
	}
	S = append(S, c("PSETEX", "ks", "15552000000", "v"), c("PSETEX", "kn", "315360000000", "v"), c("SETEX", "ks", "315360000", "v"), c("SETEX", "kn", "9223372037", "v"))
	for _, k := range []string{"ks", "kn"} {
		for _, e := range [][]string{{"EX", "100"}, {"PX", "100000"}, {"EXAT", "1893457000"}, {"PXAT", "1893457000000"}, {"EXAT", "1000"}, {"PXAT", "1000"}, {"KEEPTTL"}} {
			S = append(S, Op{Args: append([]string{"SET", k, "v"}, e...)}, Op{Args: append([]string{"SET", k, "v", "XX"}, e...)})
			if e[0] != "KEEPTTL" {
				S = append(S, Op{Args: append([]string{"GETEX", k}, e...)})
			}
		}
	}
	s.Sweep = S
	s.Alphabet = []Op{
		adv(1), adv(3), adv(100000), c("PERSIST", "ks"), c("PERSIST", "kl"), c("PEXPIRE", "ks", "10"), c("PEXPIRE", "kl", "10"), c("EXPIRE", "kh", "150", "GT"), c("EXPIRE", "kz", "1", "LT"),
		c("SET", "ks", "w"), c("SET", "ks", "w", "KEEPTTL"), c("APPEND", "ks", "x"), c("INCR", "ks"), c("RPUSH", "kl", "z"), c("HSET", "kh", "z", "1"), c("SADD", "kz", "z"), c("RENAME", "ks", "kd"), c("COPY", "kl", "kd", "REPLACE"),
		c("SUNIONSTORE", "kz", "kz", "kz"), c("GETSET", "ks", "w"), c("MSET", "ks", "w"), c("BITOP", "OR", "ks", "ks", "ks"), c("SETRANGE", "ks", "0", "Z"), c("LSET", "kl", "0", "z"),
	}
	// expired-but-stored keys in a key space with a removal history: r keys deleted before, then four keys'
	// deadlines pass; whatever reclaims them (and may resize the table doing so) must not hide a live key
	for r := 0; r <= 44; r++ {
		if tier != "thorough" && r%2 == 1 && r > 24 {
			continue
		}
		var h []Op
		for i := 0; i < 48; i++ {
			h = append(h, c("SET", "x"+itoa(i), itoa(i)))
		}
		del := []string{"DEL"}
		for i := 0; i < r; i++ {
			del = append(del, "x"+itoa(i))
			if len(del) == 9 || i == r-1 {
				h = append(h, Op{Args: del})
				del = []string{"DEL"}
			}
		}
		for i := 44; i < 48; i++ {
			h = append(h, c("PEXPIRE", "x"+itoa(i), "1"))
		}
		h = append(h, Op{Args: []string{"PING"}, Advance: 5}, c("DBSIZE"), c("SCAN", "0", "COUNT", "1000"), c("RANDOMKEY"), c("EXISTS", "x45", "x46"), c("SET", "x45", "again"), c("PING"))
		s.Long = append(s.Long, h)
	}
	// the same in a small table with a chosen layout (names picked by the dictionary's own bucket mapping):
	// a pair in adjacent buckets pins the table at 32, one of the pair is deleted (the table is reducible now),
	// r removals accumulate, live keys sit behind a key whose deadline then passes
	nameAt := func(prefix string, bucket uint32) string {
		for i := 0; i < 200000; i++ {
			if n := prefix + itoa(i); redisemu.VBucket(n, 32) == bucket {
				return n
			}
		}
		return prefix
	}
	for _, dyingAt := range []uint32{16, 2, 9} {
		for r := 0; r <= 22; r++ {
			if tier != "thorough" && dyingAt != 16 && r%3 != 0 {
				continue
			}
			keep, twin, temp, dying := nameAt("keep", 0), nameAt("twin", 1), nameAt("temp", 4), nameAt("dying", dyingAt)
			h := []Op{c("SET", keep, "v"), c("SET", twin, "v"), c("DEL", twin)}
			for k := 0; k < r; k++ {
				h = append(h, c("SET", temp, "t"), c("DEL", temp))
			}
			for _, bkt := range []uint32{18, 20, 22, 24, 6, 12} {
				h = append(h, c("SET", nameAt("live", bkt), "v"))
			}
			h = append(h, c("EXPIRE", nameAt("live", 20), "1000"), c("SET", dying, "v", "PX", "5"), Op{Args: []string{"PING"}, Advance: 30}, c("DBSIZE"), c("SCAN", "0", "COUNT", "1000"), c("SET", "after", "1"), c("DEL", "after"), c("PING"))
			s.Long = append(s.Long, h)
		}
	}
	s.Depth = 1
	if tier == "thorough" {
		s.Depth = 2
	}
	return s
}
