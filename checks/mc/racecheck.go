package main

// C16: data races. Every pair of command templates (and connection set-up / tear-down,
// introspection, saver, transaction and blocking bodies) runs as two or three threads under the
// controlled scheduler in a -race build whose scheduler hand-offs are invisible to the race
// detector; all schedules up to the preemption bound are explored and the detector's reports
// are collected from its log files.

import (
	vnet "github.com/jimsnab/go-redisemu/verifrt/vnet"
	"bufio"
	"fmt"
	"os"
	"path/filepath"
	"sort"
	"strings"

	redisemu "github.com/jimsnab/go-redisemu"
	"github.com/jimsnab/go-redisemu/verifrt"
	vos "github.com/jimsnab/go-redisemu/verifrt/vos"
)

func init() {
	extraRunners["C16"] = runRaceCheck
	extraScenarios["C16/race"] = raceScenarios
}

// one template per handler, on keys that collide
var raceTemplates = [][]string{
	{"GET", "ks"}, {"SET", "ks", "v"}, {"SETNX", "kn", "v"}, {"SETEX", "ks", "100", "v"}, {"GETSET", "ks", "v"}, {"GETDEL", "ks"}, {"GETEX", "ks", "EX", "100"}, {"MGET", "ks", "kn"}, {"MSET", "ks", "1", "kn", "2"}, {"MSETNX", "kn", "1", "kn2", "2"},
	{"APPEND", "ks", "x"}, {"STRLEN", "ks"}, {"GETRANGE", "ks", "0", "-1"}, {"SETRANGE", "ks", "1", "Z"}, {"INCR", "ks"}, {"DECRBY", "ks", "2"}, {"INCRBYFLOAT", "ks", "1.5"}, {"LCS", "ks", "ks2"},
	{"SETBIT", "ks", "3", "1"}, {"GETBIT", "ks", "3"}, {"BITCOUNT", "ks"}, {"BITPOS", "ks", "1"}, {"BITFIELD", "ks", "INCRBY", "u4", "0", "1"}, {"BITFIELD_RO", "ks", "GET", "u4", "0"}, {"BITOP", "OR", "ks", "ks", "ks2"}, {"BITOP", "NOT", "kn", "ks"},
	{"LPUSH", "kl", "v"}, {"RPUSH", "kl", "v"}, {"LPUSHX", "kl", "v"}, {"LPOP", "kl"}, {"RPOP", "kl", "2"}, {"LLEN", "kl"}, {"LINDEX", "kl", "0"}, {"LRANGE", "kl", "0", "-1"}, {"LSET", "kl", "0", "v"}, {"LINSERT", "kl", "BEFORE", "e", "v"},
	{"LREM", "kl", "0", "e"}, {"LTRIM", "kl", "0", "0"}, {"LPOS", "kl", "e"}, {"LMOVE", "kl", "kl2", "LEFT", "RIGHT"}, {"RPOPLPUSH", "kl2", "kl"}, {"LMPOP", "1", "kl", "LEFT"}, {"BLPOP", "kl", "0.01"}, {"BLMOVE", "kl", "kl2", "LEFT", "LEFT", "0.01"},
	{"HSET", "kh", "f", "v"}, {"HSETNX", "kh", "q", "v"}, {"HGET", "kh", "f"}, {"HMGET", "kh", "f", "q"}, {"HGETALL", "kh"}, {"HKEYS", "kh"}, {"HVALS", "kh"}, {"HLEN", "kh"}, {"HEXISTS", "kh", "f"}, {"HSTRLEN", "kh", "f"}, {"HDEL", "kh", "f"},
	{"HINCRBY", "kh", "f", "1"}, {"HINCRBYFLOAT", "kh", "f", "1.5"}, {"HRANDFIELD", "kh", "2", "WITHVALUES"}, {"HSCAN", "kh", "0"},
	{"SADD", "kz", "q"}, {"SREM", "kz", "m"}, {"SCARD", "kz"}, {"SISMEMBER", "kz", "m"}, {"SMISMEMBER", "kz", "m", "q"}, {"SMEMBERS", "kz"}, {"SMOVE", "kz", "kz2", "m"}, {"SRANDMEMBER", "kz", "2"}, {"SSCAN", "kz", "0"},
	{"SINTER", "kz", "kz2"}, {"SUNION", "kz", "kz2"}, {"SDIFF", "kz", "kz2"}, {"SINTERSTORE", "kz", "kz", "kz2"}, {"SUNIONSTORE", "kz2", "kz", "kz2"}, {"SDIFFSTORE", "kn", "kz", "kz2"}, {"SINTERCARD", "2", "kz", "kz2"},
	{"DEL", "ks", "kl"}, {"UNLINK", "kh", "kz"}, {"EXISTS", "ks", "kl"}, {"TYPE", "ks"}, {"TOUCH", "ks", "kh"}, {"RENAME", "ks", "ks2"}, {"RENAMENX", "kl", "kn"}, {"COPY", "kh", "kn", "REPLACE"}, {"COPY", "kl", "kl2", "REPLACE"},
	{"EXPIRE", "ks", "100"}, {"PEXPIRE", "kl", "100000"}, {"EXPIREAT", "kh", "1893457000"}, {"PERSIST", "ks"}, {"TTL", "ks"}, {"PTTL", "kl"}, {"EXPIRETIME", "ks"}, {"PEXPIRETIME", "kh"},
	{"KEYS", "*"}, {"SCAN", "0"}, {"RANDOMKEY"}, {"DBSIZE"}, {"SORT", "kl", "ALPHA"}, {"SORT", "kl", "ALPHA", "STORE", "kl2"}, {"DUMP", "ks"}, {"FLUSHDB"}, {"FLUSHALL"}, {"SELECT", "1"},
	{"PING"}, {"ECHO", "x"}, {"HELLO", "3"}, {"CLIENT", "ID"}, {"CLIENT", "SETNAME", "nm"}, {"CLIENT", "GETNAME"}, {"CLIENT", "INFO"}, {"CLIENT", "LIST"}, {"CLIENT", "NO-EVICT", "on"}, {"CLIENT", "UNBLOCK", "$id0"}, {"CLIENT", "KILL", "ID", "$id0"},
	{"INFO"}, {"COMMAND", "COUNT"}, {"COMMAND", "GETKEYS", "SET", "a", "b"}, {"WATCH", "ks"}, {"UNWATCH"},
	// the remaining handlers (every handler of the dispatch table has a template)
	{"CLIENT", "SETINFO", "LIB-NAME", "lib"}, {"CLIENT", "SETINFO", "LIB-VER", "1.0"}, {"COMMAND", "DOCS", "get"}, {"COMMAND", "GETKEYSANDFLAGS", "SET", "a", "b"}, {"COMMAND", "INFO", "get"}, {"COMMAND", "LIST"}, {"COMMAND", "HELP"},
	{"DECR", "ks"}, {"INCRBY", "ks", "2"}, {"HMSET", "kh", "f", "v"}, {"PEXPIREAT", "kl", "1893457000000"}, {"PSETEX", "ks", "100000", "v"}, {"RPUSHX", "kl", "v"}, {"SUBSTR", "ks", "0", "0"},
	{"BRPOP", "kl", "0.01"}, {"BRPOPLPUSH", "kl", "kl2", "0.01"}, {"BLMPOP", "0.01", "1", "kl", "LEFT"},
	// option clauses in other orders than the command table lists them, and several of them (the argument
	// parser works on tables shared by all connections)
	{"SET", "ks", "v", "GET", "NX"}, {"SET", "ks", "v", "KEEPTTL", "XX", "GET"}, {"SET", "ks", "v", "PX", "100000", "NX"}, {"GETEX", "ks", "PERSIST"}, {"EXPIRE", "ks", "100", "GT"}, {"LPOS", "kl", "e", "MAXLEN", "5", "COUNT", "0", "RANK", "1"},
	{"SCAN", "0", "COUNT", "5", "TYPE", "string", "MATCH", "k*"}, {"SORT", "kl", "LIMIT", "0", "1", "DESC", "ALPHA"}, {"SORT", "kl", "ALPHA", "GET", "#", "GET", "k*", "BY", "nosort"}, {"BITFIELD", "ks", "OVERFLOW", "SAT", "SET", "u4", "0", "1", "GET", "u4", "4"},
	{"BITPOS", "ks", "1", "0", "-1", "BIT"}, {"BITCOUNT", "ks", "0", "-1", "BYTE"}, {"LCS", "ks", "ks2", "IDX", "WITHMATCHLEN", "MINMATCHLEN", "1"}, {"HSCAN", "kh", "0", "COUNT", "5", "MATCH", "*"}, {"CLIENT", "KILL", "LADDR", "9.9.9.9:1", "SKIPME", "yes", "ID", "999"},
	{"CLIENT", "LIST", "TYPE", "normal"}, {"HELLO", "3", "SETNAME", "nm"}, {"COPY", "kh", "kn", "REPLACE", "DB", "0"}, {"RESTORE", "kn", "0", "x", "ABSTTL", "REPLACE"}, {"LMPOP", "2", "kl", "kl2", "RIGHT", "COUNT", "2"}, {"SINTERCARD", "2", "kz", "kz2", "LIMIT", "1"},
}

var raceSetup = [][]string{
	{"SET", "ks", "10", "PX", "500000"}, {"SET", "ks2", "7"}, {"RPUSH", "kl", "e", "f2"}, {"RPUSH", "kl2", "z"}, {"HSET", "kh", "f", "1", "g", "x"}, {"SADD", "kz", "m", "n2"}, {"SADD", "kz2", "n2", "o3"},
}

type raceScenario struct {
	name    string
	threads [][][]string // per connection: commands
	special string       // additional special thread
}

func (rs *raceScenario) scenario() *Scenario {
	mo := strings.Contains(rs.name, "CLIENT_LIST") || strings.Contains(rs.name, "CLIENT_KILL") || strings.Contains(rs.name, "kill")
	sc := &Scenario{Name: rs.name, Body: rs.body, MapOrder: mo}
	if strings.HasPrefix(rs.special, "wire") {
		sc.BoundDelta = -1 // a socket connection takes ~40 scheduling points per command
	}
	return sc
}

func (rs *raceScenario) body(x *Exec) {
	persist := ""
	if rs.special == "saver" {
		vos.ResetFS()
		persist = "data/emu"
	}
	vi := redisemu.VNew(persist)
	x.Inst = vi
	obs := vi.NewClient()
	for _, c := range raceSetup {
		obs.Do(c...)
	}
	clients := make([]*redisemu.VClient, len(rs.threads))
	for i := range rs.threads {
		clients[i] = vi.NewClient()
	}
	for i := range rs.threads {
		i := i
		verifrt.GoNamed(fmt.Sprintf("conn%d", i+1), func() {
			for _, c := range rs.threads[i] {
				x.do(i+1, clients[i], subst(c, clients)...)
			}
		})
	}
	switch rs.special {
	case "connect":
		verifrt.GoNamed("connect", func() {
			c := vi.NewClient()
			c.Do("PING")
		})
	case "disconnect":
		verifrt.GoNamed("disconnect", func() { obs.Unregister() })
	case "connect-disconnect":
		verifrt.GoNamed("connect-disconnect", func() {
			c := vi.NewClient()
			c.Do("SET", "ks", "w")
			c.Unregister()
		})
	case "saver":
		verifrt.GoNamed("saver", func() { vi.Save() })
	case "second-instance":
		// another emulator in the same process, with its own connections coming, working and going
		verifrt.GoNamed("second-instance", func() {
			vi2 := redisemu.VNew("")
			c1, c2 := vi2.NewClient(), vi2.NewClient()
			c1.Do("SET", "ks", "other")
			c2.Do("CLIENT", "LIST")
			c2.Do("RPUSH", "kl", "o")
			c1.Unregister()
			c2.Do("CLIENT", "SETNAME", "second")
			c2.Unregister()
		})
	case "wire", "wire-kill", "wire-close":
		// a connection of the socket kind (clientCxn state machine) next to the in-process ones
		srv, cli := vnet.Pipe("127.0.0.1:6379", "127.0.0.1:40009")
		id := vi.NewCxn(srv)
		verifrt.GoNamed("wire", func() {
			w := &wcli{c: cli, name: "wire"}
			w.call("SET", "ks", "w")
			if rs.special == "wire-close" {
				cli.Close()
				return
			}
			w.call("GET", "ks")
		})
		if rs.special == "wire-kill" {
			verifrt.GoNamed("killer", func() { obs.Do("CLIENT", "KILL", "ID", fmt.Sprint(id)) })
		}
	}
	verifrt.AwaitQuiescence()
}

// sameKey: the two command templates have a key name in common
func sameKey(a, b []string) bool {
	for _, x := range a[1:] {
		if len(x) < 2 || x[0] != 'k' {
			continue
		}
		for _, y := range b[1:] {
			if x == y {
				return true
			}
		}
	}
	return false
}

func raceScenarios(tier string) []*Scenario {
	var out []*Scenario
	add := func(rs *raceScenario) { out = append(out, rs.scenario()) }
	label := func(c []string) string { return strings.Join(c, "_") }
	n := len(raceTemplates)
	for i := 0; i < n; i++ {
		for j := i; j < n; j++ {
			if tier != "thorough" && i != j && !sameKey(raceTemplates[i], raceTemplates[j]) && (i*7+j*3)%8 != 0 {
				// quick: every pair of templates that name a common key (where a race on the stored
				// object can be), all self pairs, and an eighth of the remaining pairs; thorough: all
				continue
			}
			add(&raceScenario{name: "pair/" + label(raceTemplates[i]) + "||" + label(raceTemplates[j]), threads: [][][]string{{raceTemplates[i]}, {raceTemplates[j]}}})
		}
	}
	// special bodies against every template
	for _, sp := range []string{"connect", "disconnect", "connect-disconnect", "saver", "second-instance"} {
		for i, t := range raceTemplates {
			if tier != "thorough" && sp == "second-instance" && i%9 != 0 && t[0] != "CLIENT" && t[0] != "INFO" && t[0] != "HELLO" {
				continue
			}
			if tier != "thorough" && sp != "saver" && sp != "second-instance" && i%3 != 0 {
				continue
			}
			add(&raceScenario{name: sp + "/" + label(t), threads: [][][]string{{t}}, special: sp})
		}
	}
	// transactions and blocked clients against a sample of templates
	tx := [][]string{{"MULTI"}, {"SET", "ks", "t"}, {"RPUSH", "kl", "t"}, {"HSET", "kh", "t", "1"}, {"EXEC"}}
	blk := [][]string{{"BLPOP", "kb", "0"}}
	for i, t := range raceTemplates {
		if tier != "thorough" && i%2 != 0 {
			continue
		}
		add(&raceScenario{name: "exec/" + label(t), threads: [][][]string{tx, {t}}})
		add(&raceScenario{name: "blocked/" + label(t), threads: [][][]string{blk, {t}, {{"RPUSH", "kb", "x"}}}})
	}
	// socket connections: the clientCxn state machine against commands, CLIENT KILL and a peer close
	for i, t := range raceTemplates {
		if tier != "thorough" && i%8 != 0 {
			continue
		}
		add(&raceScenario{name: "wire/" + label(t), threads: [][][]string{{t}}, special: "wire"})
	}
	add(&raceScenario{name: "wire-kill/CLIENT_LIST", threads: [][][]string{{{"CLIENT", "LIST"}}}, special: "wire-kill"})
	add(&raceScenario{name: "wire-kill/SET_ks_v", threads: [][][]string{{{"SET", "ks", "v"}}}, special: "wire-kill"})
	add(&raceScenario{name: "wire-close/CLIENT_LIST", threads: [][][]string{{{"CLIENT", "LIST"}}}, special: "wire-close"})
	add(&raceScenario{name: "wire-close/LPOP_kl", threads: [][][]string{{{"LPOP", "kl"}}}, special: "wire-close"})
	// the real Start/Close (C20's scenarios, here only for what the race detector says about them)
	for _, sc := range lifeScenarios(tier) {
		switch sc.Name {
		case "close/idle", "close/blocked", "race/command-during-close", "race/connect-during-close", "persist/idle", "two-instances/idle":
			if tier != "thorough" && sc.Name != "close/idle" && sc.Name != "close/blocked" {
				continue
			}
			c := *sc
			c.Name = "life/" + sc.Name
			c.Check = nil
			c.BoundDelta = -1
			out = append(out, &c)
		}
	}
	add(&raceScenario{name: "exec||exec", threads: [][][]string{tx, tx}})
	add(&raceScenario{name: "watch-exec||writers", threads: [][][]string{{{"WATCH", "ks", "kl"}, {"MULTI"}, {"INCR", "ks"}, {"EXEC"}}, {{"SET", "ks", "5"}}, {{"RPUSH", "kl", "w"}}}})
	add(&raceScenario{name: "blocked||unblock||push", threads: [][][]string{{{"BLPOP", "kb", "0"}}, {{"CLIENT", "UNBLOCK", "$id0"}}, {{"RPUSH", "kb", "x"}}}})
	add(&raceScenario{name: "blocked||kill", threads: [][][]string{{{"BLPOP", "kb", "0"}}, {{"CLIENT", "KILL", "ID", "$id0"}}}})
	add(&raceScenario{name: "blocked||list", threads: [][][]string{{{"BLPOP", "kb", "0"}}, {{"CLIENT", "LIST"}}}})
	if tier == "thorough" {
		// (three busy threads with spin-wait loops: too many schedules for the quick tier's time)
		add(&raceScenario{name: "blocked||list||list", threads: [][][]string{{{"BLPOP", "kb", "0"}}, {{"CLIENT", "LIST"}}, {{"CLIENT", "LIST"}}}})
		add(&raceScenario{name: "blocked||kill||list", threads: [][][]string{{{"BLPOP", "kb", "0"}}, {{"CLIENT", "KILL", "ID", "$id0"}}, {{"CLIENT", "LIST"}}}})
	}
	// connections in different databases: whatever they share is not protected by either database's lock
	add(&raceScenario{name: "db0:BLPOP||db1:BLPOP||pushes", threads: [][][]string{{{"BLPOP", "kb", "0.01"}}, {{"SELECT", "1"}, {"BLPOP", "kb", "0.01"}}, {{"RPUSH", "kb", "x"}}}})
	add(&raceScenario{name: "db0:BLMOVE-served||db1:BLPOP-served", threads: [][][]string{{{"BLMOVE", "kb", "kb2", "LEFT", "LEFT", "0"}}, {{"SELECT", "1"}, {"BLPOP", "kb", "0"}}, {{"RPUSH", "kb", "x"}, {"SELECT", "1"}, {"RPUSH", "kb", "y"}}}})
	add(&raceScenario{name: "db0:CLIENT_LIST||db1:WATCH||db1:SET", threads: [][][]string{{{"CLIENT", "LIST"}, {"CLIENT", "INFO"}}, {{"SELECT", "1"}, {"WATCH", "kw"}, {"MULTI"}, {"GET", "kw"}, {"EXEC"}}, {{"SELECT", "1"}, {"SET", "kw", "1"}, {"RPUSH", "kw2", "x"}}}})
	add(&raceScenario{name: "db0:EXEC(SELECT1)||db1:SET||db0:SET", threads: [][][]string{{{"MULTI"}, {"SET", "ks", "t"}, {"SELECT", "1"}, {"SET", "ks", "t1"}, {"DBSIZE"}, {"EXEC"}}, {{"SELECT", "1"}, {"SET", "ks", "w1"}, {"GET", "ks"}}, {{"SET", "ks", "w0"}}}})
	add(&raceScenario{name: "db0:HSET||db1:HSET||db2:SADD", threads: [][][]string{{{"HSET", "kh", "f", "1"}, {"HGETALL", "kh"}}, {{"SELECT", "1"}, {"HSET", "kh", "f", "1"}, {"HGETALL", "kh"}}, {{"SELECT", "2"}, {"SADD", "kz", "m"}, {"SMEMBERS", "kz"}}}})
	// command numbers are per database and the lock bypass of EXEC goes by number: a transaction that crosses
	// into database 1 against a connection there whose n-th command has every number EXEC could carry
	for n := 0; n <= 24; n++ {
		if tier != "thorough" && n%2 == 1 {
			continue
		}
		other := [][]string{{"SELECT", "1"}}
		for i := 0; i < n; i++ {
			other = append(other, []string{"PING"})
		}
		other = append(other, []string{"RPUSH", "kq", "o"}, []string{"LPOP", "kq"})
		add(&raceScenario{name: fmt.Sprintf("db0:EXEC(SELECT1,RPUSH,LRANGE)||db1:PINGx%d+RPUSH", n), threads: [][][]string{{{"MULTI"}, {"SELECT", "1"}, {"RPUSH", "kq", "t"}, {"LRANGE", "kq", "0", "-1"}, {"EXEC"}}, other}})
	}
	add(&raceScenario{name: "select||flushall||dbsize", threads: [][][]string{{{"SELECT", "1"}, {"SET", "a", "1"}, {"DBSIZE"}}, {{"FLUSHALL"}}, {{"SELECT", "1"}, {"DBSIZE"}}}})
	return out
}

// ---- race report parsing ---------------------------------------------------------------------

type raceReport struct {
	Sig    string
	Stacks [2][]string
	Kinds  [2]string
}

// attributed: the frame an access is attributed to (the first one that is not a runtime helper)
func attributed(stack []string) string {
	for _, fr := range stack {
		if !strings.HasPrefix(fr, "runtime.") && !strings.HasPrefix(fr, "internal/") {
			return fr
		}
	}
	if len(stack) > 0 {
		return stack[0]
	}
	return "?"
}

func emulatorFrame(fn, file string) bool {
	if !strings.HasPrefix(fn, "github.com/jimsnab/go-redisemu.") {
		return false
	}
	if strings.Contains(file, "zz_verif_") || strings.Contains(file, "/verif/harness/") {
		return false
	}
	return true
}

func shortFn(fn string) string {
	fn = strings.TrimPrefix(fn, "github.com/jimsnab/go-redisemu.")
	if i := strings.Index(fn, "("); i > 0 && strings.HasSuffix(fn, ")") && !strings.HasPrefix(fn, "(") {
		fn = fn[:i]
	}
	// anonymous functions: keep the enclosing function
	for strings.HasSuffix(fn, "()") {
		fn = strings.TrimSuffix(fn, "()")
	}
	return fn
}

func parseRaceReports(dir string) (reports []raceReport, rawCount int) {
	files, _ := filepath.Glob(filepath.Join(dir, "rr.*"))
	for _, f := range files {
		fh, err := os.Open(f)
		if err != nil {
			continue
		}
		sc := bufio.NewScanner(fh)
		sc.Buffer(make([]byte, 1<<20), 1<<20)
		var cur *raceReport
		stackIdx := -1
		var pendingFn string
		flush := func() {
			if cur == nil {
				return
			}
			rawCount++
			ok := true
			var tops [2]string
			for k := 0; k < 2; k++ {
				if len(cur.Stacks[k]) == 0 {
					ok = false
					break
				}
				// the access itself must be in emulator code (not inside a shim or the harness); memory
				// moved by a runtime helper (copy, append, string conversion) belongs to its caller
				top := 0
				for top < len(cur.Stacks[k])-1 && (strings.HasPrefix(cur.Stacks[k][top], "runtime.") || strings.HasPrefix(cur.Stacks[k][top], "internal/")) {
					top++
				}
				parts := strings.SplitN(cur.Stacks[k][top], " @ ", 2)
				if len(parts) != 2 || !emulatorFrame(parts[0], parts[1]) {
					ok = false
					break
				}
				tops[k] = cur.Kinds[k] + ":" + shortFn(parts[0])
				// an access made while a thread is being torn down at the end of an execution
				// (deferred functions run with all shim operations disabled) is not the program's
				for _, fr := range cur.Stacks[k] {
					if strings.HasPrefix(fr, "runtime.gopanic") {
						ok = false
					}
				}
			}
			if ok {
				if tops[0] > tops[1] {
					tops[0], tops[1] = tops[1], tops[0]
				}
				cur.Sig = tops[0] + " <-> " + tops[1]
				reports = append(reports, *cur)
			}
			cur = nil
		}
		for sc.Scan() {
			line := sc.Text()
			t := strings.TrimSpace(line)
			switch {
			case strings.HasPrefix(t, "WARNING: DATA RACE"):
				flush()
				cur = &raceReport{}
				stackIdx = -1
			case cur == nil:
			case strings.HasPrefix(t, "=================="):
				if stackIdx >= 0 {
					flush()
				}
			case (strings.HasPrefix(t, "Read at") || strings.HasPrefix(t, "Write at") || strings.HasPrefix(t, "Previous read at") || strings.HasPrefix(t, "Previous write at") || strings.HasPrefix(t, "Atomic") || strings.HasPrefix(t, "Previous atomic")) && strings.Contains(t, "by "):
				stackIdx++
				if stackIdx < 2 {
					k := "read"
					if strings.Contains(strings.ToLower(t), "write") {
						k = "write"
					}
					cur.Kinds[stackIdx] = k
				}
			case strings.HasPrefix(t, "Goroutine ") || t == "":
				if t != "" {
					stackIdx = 2 // creation stacks: ignore
				}
			default:
				if stackIdx >= 0 && stackIdx < 2 {
					if strings.HasPrefix(line, "      ") || strings.Contains(t, ".go:") {
						// file line of the previous function line
						if pendingFn != "" {
							file := t
							if i := strings.Index(file, " +0x"); i > 0 {
								file = file[:i]
							}
							cur.Stacks[stackIdx] = append(cur.Stacks[stackIdx], pendingFn+" @ "+file)
							pendingFn = ""
						}
					} else {
						pendingFn = t
						if i := strings.LastIndex(pendingFn, "("); i > 0 && strings.HasSuffix(pendingFn, ")") {
							// strip the argument list "f(...)" printed by the runtime
							pendingFn = pendingFn[:i]
						}
					}
				}
			}
		}
		flush()
		fh.Close()
	}
	return
}

// runRaceCompanion: the scenarios of another property's group explored in the race build; what the
// race detector reports is a violation of that property (C08: a command that touches the store
// without the database lock is not atomic, even though the controlled scheduler, which switches
// threads at synchronisation operations only, cannot interleave inside it).
func runRaceCompanion(prop string, groups []string, bound int, tier string, rep *Report) {
	if !verifrt.RaceEnabled {
		rep.HarnessErr = append(rep.HarnessErr, "the race companion pass must run in the -race build")
		return
	}
	dir := os.Getenv("VERIF_RACE_DIR")
	if dir == "" {
		rep.HarnessErr = append(rep.HarnessErr, "VERIF_RACE_DIR is not set")
		return
	}
	for _, group := range groups {
		runExplore(prop, group, exploreScenarios(prop, group, tier), bound, tier, rep)
	}
	group := strings.Join(groups, "+")
	reports, raw := parseRaceReports(dir)
	counts := map[string]int{}
	first := map[string]*raceReport{}
	var order []string
	for i := range reports {
		r := &reports[i]
		counts[r.Sig]++
		if first[r.Sig] == nil {
			first[r.Sig] = r
			order = append(order, r.Sig)
		}
	}
	sort.Strings(order)
	for _, sig := range order {
		r := first[sig]
		rep.add("unsynchronised-access|"+sig, fmt.Sprintf("race detector, scenarios %s/%s: %s at %s  vs  %s at %s: the command is not executed under the lock that makes it atomic", prop, group, r.Kinds[0], attributed(r.Stacks[0]), r.Kinds[1], attributed(r.Stacks[1])), map[string]any{"stack1": r.Stacks[0], "stack2": r.Stacks[1]})
		rep.findings["unsynchronised-access|"+sig].Count = counts[sig]
	}
	rep.Coverage["race_reports_raw"] = raw
	rep.Coverage["race_reports_in_emulator_code"] = len(reports)
}

func runRaceCheck(tier string, rep *Report) {
	if !verifrt.RaceEnabled {
		rep.HarnessErr = append(rep.HarnessErr, "C16 must run in the -race build (bin/verif selects it)")
		return
	}
	dir := os.Getenv("VERIF_RACE_DIR")
	if dir == "" {
		rep.HarnessErr = append(rep.HarnessErr, "VERIF_RACE_DIR is not set (bin/verif sets GORACE=log_path=... and this variable)")
		return
	}
	bound := 1
	if tier == "thorough" {
		bound = 2
	}
	scs := raceScenarios(tier)
	runExplore("C16", "race", scs, bound, tier, rep)
	reports, raw := parseRaceReports(dir)
	bySig := map[string]*raceReport{}
	counts := map[string]int{}
	var order []string
	for i := range reports {
		r := &reports[i]
		counts[r.Sig]++
		if _, ok := bySig[r.Sig]; !ok {
			bySig[r.Sig] = r
			order = append(order, r.Sig)
		}
	}
	sort.Strings(order)
	for _, sig := range order {
		r := bySig[sig]
		detail := fmt.Sprintf("race detector: %s at %s  vs  %s at %s", r.Kinds[0], attributed(r.Stacks[0]), r.Kinds[1], attributed(r.Stacks[1]))
		rep.add(sig, detail, map[string]any{"stack1": r.Stacks[0], "stack2": r.Stacks[1]})
		rep.findings[sig].Count = counts[sig]
	}
	rep.Coverage["race_reports_raw"] = raw
	rep.Coverage["race_reports_in_emulator_code"] = len(reports)
	rep.Coverage["distinct_races"] = len(order)
	rep.Coverage["command_templates"] = len(raceTemplates)
	rep.Assume = append(rep.Assume,
		"the verdict on each explored schedule is the Go race detector's happens-before analysis; scheduler hand-offs are hidden from it (RaceDisable), shim primitives report the program's own synchronisation",
		"only reports whose both accesses are in emulator code count (accesses inside the shims or the harness are ignored); a race is identified by the unordered pair of accessing functions")
}
