package main

import "strconv"

func c(args ...string) Op { return Op{Args: args} }

func itoa(i int) string { return strconv.Itoa(i) }

// C03: list family
func specC03(tier string) *SeqSpec {
	s := &SeqSpec{ID: "C03", Sessions: 1, Keys: []string{"k1", "k2", "s1"}, DBs: []int{0}}
	s.Inits = [][]Op{
		{c("SET", "s1", "v")},
		{c("SET", "s1", "v"), c("RPUSH", "k1", "x", "y", "x", "y"), c("RPUSH", "k2", "y")},
		{c("SET", "s1", "v"), c("RPUSH", "k1", "x", "x", "y", "x", "y")},
	}
	A := []Op{
		c("LPUSH", "k1", "x"), c("LPUSH", "k1", "y"), c("RPUSH", "k1", "x"), c("RPUSH", "k1", "y"), c("RPUSH", "k1", "x", "y"),
		c("LPUSH", "k1", "y", "x"), c("LPUSH", "k2", "x"), c("RPUSH", "k2", "y"),
		c("LPUSHX", "k1", "x"), c("RPUSHX", "k1", "y"), c("RPUSHX", "k2", "x"), c("LPUSHX", "k2", "y", "x"),
		c("LPOP", "k1"), c("RPOP", "k1"), c("LPOP", "k1", "2"), c("RPOP", "k1", "2"), c("LPOP", "k2"), c("RPOP", "k2"),
		c("LPOP", "k1", "0"), c("RPOP", "k1", "5"),
		c("LSET", "k1", "0", "y"), c("LSET", "k1", "-1", "x"), c("LSET", "k1", "2", "y"), c("LSET", "k1", "-3", "x"),
		c("LINSERT", "k1", "BEFORE", "x", "y"), c("LINSERT", "k1", "AFTER", "x", "y"), c("LINSERT", "k1", "BEFORE", "y", "x"), c("LINSERT", "k1", "AFTER", "y", "x"),
		c("LREM", "k1", "0", "x"), c("LREM", "k1", "1", "x"), c("LREM", "k1", "-1", "x"), c("LREM", "k1", "-2", "y"), c("LREM", "k1", "2", "y"), c("LREM", "k2", "0", "y"),
		c("LTRIM", "k1", "1", "-1"), c("LTRIM", "k1", "0", "-2"), c("LTRIM", "k1", "1", "1"), c("LTRIM", "k1", "0", "0"), c("LTRIM", "k1", "2", "1"), c("LTRIM", "k1", "-2", "-1"), c("LTRIM", "k1", "1", "2"),
		c("LMOVE", "k1", "k2", "LEFT", "RIGHT"), c("LMOVE", "k1", "k2", "RIGHT", "LEFT"), c("LMOVE", "k2", "k1", "LEFT", "LEFT"), c("LMOVE", "k2", "k1", "RIGHT", "RIGHT"),
		c("LMOVE", "k1", "k1", "LEFT", "RIGHT"), c("LMOVE", "k1", "k1", "RIGHT", "LEFT"), c("LMOVE", "k1", "k1", "LEFT", "LEFT"), c("LMOVE", "k1", "k1", "RIGHT", "RIGHT"),
		c("RPOPLPUSH", "k1", "k2"), c("RPOPLPUSH", "k1", "k1"), c("RPOPLPUSH", "k2", "k1"),
		c("LMPOP", "1", "k1", "LEFT"), c("LMPOP", "2", "k1", "k2", "RIGHT", "COUNT", "2"), c("LMPOP", "2", "k2", "k1", "LEFT", "COUNT", "5"), c("LMPOP", "1", "k2", "RIGHT"),
		c("DEL", "k1"),
	}
	s.Alphabet = A
	// depth-1 sweeps from every reached state: reads, failing commands, extreme arguments
	var S []Op
	rng := 3
	if tier == "thorough" {
		rng = 6
	}
	for i := -rng; i <= rng; i++ {
		S = append(S, c("LINDEX", "k1", itoa(i)))
		S = append(S, c("LSET", "k1", itoa(i), "z"))
		for j := -rng; j <= rng; j++ {
			S = append(S, c("LRANGE", "k1", itoa(i), itoa(j)))
			if tier == "thorough" || (i+j)%2 == 0 {
				S = append(S, c("LTRIM", "k1", itoa(i), itoa(j)))
			}
		}
	}
	big := []string{"9223372036854775807", "-9223372036854775808", "4294967296", "-4294967296"}
	for _, b := range big {
		S = append(S, c("LINDEX", "k1", b), c("LRANGE", "k1", b, "-1"), c("LRANGE", "k1", "0", b), c("LTRIM", "k1", "0", b), c("LTRIM", "k1", b, "-1"), c("LSET", "k1", b, "z"), c("LREM", "k1", b, "x"))
	}
	for _, e := range []string{"x", "y", "q"} {
		S = append(S, c("LPOS", "k1", e))
		for _, rank := range []string{"", "1", "2", "3", "-1", "-2", "-3"} {
			for _, cnt := range []string{"", "0", "1", "2"} {
				for _, ml := range []string{"", "0", "1", "2"} {
					if tier != "thorough" && rank != "" && cnt != "" && ml != "" && (len(rank)+len(cnt)+len(ml))%2 == 0 {
						continue
					}
					a := []string{"LPOS", "k1", e}
					if rank != "" {
						a = append(a, "RANK", rank)
					}
					if cnt != "" {
						a = append(a, "COUNT", cnt)
					}
					if ml != "" {
						a = append(a, "MAXLEN", ml)
					}
					S = append(S, Op{Args: a})
				}
			}
		}
	}
	S = append(S, c("LPOS", "k1", "x", "RANK", "0"), c("LPOS", "k1", "x", "COUNT", "-1"), c("LPOS", "k1", "x", "MAXLEN", "-1"), c("LPOS", "k1", "x", "MAXLEN", "2", "RANK", "-1", "COUNT", "0"))
	for _, n := range []string{"-3", "-2", "-1", "0", "1", "2", "3"} {
		S = append(S, c("LREM", "k1", n, "x"), c("LREM", "k1", n, "y"))
	}
	S = append(S, c("LLEN", "k1"), c("LLEN", "k2"), c("LLEN", "nokey"), c("LRANGE", "k2", "0", "-1"), c("LINDEX", "k2", "0"),
		c("LPOP", "k1", "-1"), c("RPOP", "k1", "-1"), c("LPOP", "k1", "1"), c("LPOP", "k1", "3"), c("RPOP", "k1", "3"), c("LPOP", "nokey", "0"), c("LPOP", "nokey", "2"), c("LPOP", "nokey"),
		c("LMPOP", "0", "k1", "LEFT"), c("LMPOP", "1", "k1", "LEFT", "COUNT", "0"), c("LMPOP", "2", "k1", "LEFT"), c("LMPOP", "1", "k1", "UP"), c("LMPOP", "2", "nokey", "k1", "RIGHT", "COUNT", "3"),
		c("LMOVE", "k1", "k2", "UP", "LEFT"), c("LMOVE", "nokey", "k2", "LEFT", "LEFT"), c("LMOVE", "nokey", "s1", "LEFT", "LEFT"), c("RPOPLPUSH", "nokey", "s1"),
		c("LINSERT", "k1", "MIDDLE", "x", "y"), c("LINSERT", "nokey", "BEFORE", "x", "y"), c("LINSERT", "k1", "BEFORE", "q", "y"),
		c("LSET", "nokey", "0", "x"),
		// wrong type: every list command against a string key must answer WRONGTYPE and change nothing
		c("LPUSH", "s1", "x"), c("RPUSH", "s1", "x"), c("LPUSHX", "s1", "x"), c("RPUSHX", "s1", "x"), c("LPOP", "s1"), c("RPOP", "s1"), c("LPOP", "s1", "2"), c("LLEN", "s1"),
		c("LINDEX", "s1", "0"), c("LRANGE", "s1", "0", "-1"), c("LSET", "s1", "0", "x"), c("LINSERT", "s1", "BEFORE", "x", "y"), c("LREM", "s1", "0", "x"), c("LTRIM", "s1", "0", "-1"),
		c("LPOS", "s1", "x"), c("LMOVE", "s1", "k1", "LEFT", "LEFT"), c("LMOVE", "k1", "s1", "LEFT", "LEFT"), c("RPOPLPUSH", "s1", "k1"), c("RPOPLPUSH", "k1", "s1"),
		c("LMPOP", "1", "s1", "LEFT"), c("LMPOP", "2", "nokey", "s1", "LEFT"), c("LMPOP", "2", "k1", "s1", "LEFT"),
	)
	s.Sweep = S
	// read; change; [change;] reads - from the initial states
	reads := []Op{c("LINDEX", "k1", "0"), c("LINDEX", "k1", "1"), c("LINDEX", "k1", "2"), c("LINDEX", "k1", "3"), c("LINDEX", "k1", "-1"), c("LINDEX", "k1", "-2"), c("LRANGE", "k1", "1", "2"), c("LPOS", "k1", "y", "RANK", "2"), c("LLEN", "k1"), c("LINDEX", "k2", "0")}
	var changes []Op
	for _, a := range A {
		if tier == "thorough" || !(a.Args[0] == "LPUSHX" || a.Args[0] == "RPUSHX" || a.Args[0] == "LSET" || a.Args[0] == "LREM" && a.Args[2] != "0") {
			changes = append(changes, a)
		}
	}
	s.InitSweep = staleSweep(reads, changes)
	// elements of different lengths pushed by ONE command (they may share storage), the empty element among
	// them; then values of other lengths than the element they replace or sit next to
	for _, v := range []string{"", "z", "first", "0123456789abcdef0123456789abcdef"} {
		var after []Op
		for _, i := range []string{"0", "1", "2", "-1"} {
			after = append(after, c("LSET", "k1", i, v), c("LSET", "k2", i, v))
		}
		after = append(after, c("LINSERT", "k1", "BEFORE", "three", v), c("LINSERT", "k1", "AFTER", "", v), c("RPUSH", "k1", v, "p", v), c("LPUSH", "k1", v), c("LREM", "k1", "0", v), c("LPOS", "k1", v), c("LSET", "k1", "1", v+v))
		for _, a := range after {
			s.InitSweep = append(s.InitSweep, Op{Args: []string{"DEL", "k1", "k2"}, Then: []Op{c("RPUSH", "k1", "one", "", "three", "b"), c("LPUSH", "k2", "", "b", "cc"), a, c("LRANGE", "k1", "0", "-1"), c("LRANGE", "k2", "0", "-1")}})
		}
	}
	// lists that were not built by pushes but made by a copying command (their nodes are linked by other code):
	// every command of the family on the copy, then reads from both ends and pops down to the last element
	for _, a := range A {
		for _, via := range [][]Op{{c("COPY", "k1", "kc"), c("DEL", "k1"), c("RENAME", "kc", "k1")}, {c("SORT", "k1", "BY", "nosort", "STORE", "kc"), c("DEL", "k1"), c("RENAME", "kc", "k1")}} {
			seq := append(append([]Op{}, via...), a, c("LRANGE", "k1", "0", "-1"), c("LINDEX", "k1", "-1"), c("LINDEX", "k1", "-2"), c("LINDEX", "k1", "-3"), c("LINDEX", "k1", "-4"), c("LINDEX", "k1", "-5"), c("LLEN", "k1"),
				c("LINSERT", "k1", "BEFORE", "y", "ins"), c("LREM", "k1", "-1", "x"), c("RPOP", "k1"), c("LRANGE", "k1", "0", "-1"), c("RPOP", "k1", "2"), c("LLEN", "k1"), c("LRANGE", "k1", "0", "-1"), c("LPOP", "k1", "9"), c("EXISTS", "k1"))
			o := seq[0]
			o.Then = seq[1:]
			s.InitSweep = append(s.InitSweep, o)
		}
	}
	s.Keys = append(s.Keys, "kc")
	// long lists (200 and 1000 elements; every earlier state has at most 8): searches that miss, writes in the
	// middle, searches for what was just written, from both ends
	for _, n := range []int{200, 1000} {
		push := []string{"RPUSH", "k1"}
		for i := 0; i < n; i++ {
			push = append(push, "e"+itoa(i))
		}
		mid, far := itoa(n/2), itoa(n-3)
		h := []Op{{Args: push}, c("LREM", "k1", "0", "nosuch"), c("LPOS", "k1", "nosuch"), c("LINSERT", "k1", "BEFORE", "nosuch", "x"), c("LSET", "k1", "10", "fresh"), c("LPOS", "k1", "fresh"), c("LPOS", "k1", "e10"),
			c("LINSERT", "k1", "BEFORE", "fresh", "ins1"), c("LINSERT", "k1", "AFTER", "e"+far, "ins2"), c("LREM", "k1", "1", "fresh"), c("LREM", "k1", "-1", "e"+mid), c("LINDEX", "k1", mid), c("LINDEX", "k1", "-"+mid),
			c("LRANGE", "k1", mid, itoa(n/2+5)), c("LSET", "k1", "-2", "tail"), c("LPOS", "k1", "tail", "RANK", "-1"), c("LPOS", "k1", "e5", "MAXLEN", "3"), c("LPOS", "k1", "e"+far, "RANK", "-1", "MAXLEN", "10"),
			c("LMOVE", "k1", "k1", "RIGHT", "LEFT"), c("LPOS", "k1", "tail"), c("RPOP", "k1", "3"), c("LPOP", "k1", "2"), c("LSET", "k1", mid, "fresh2"), c("LREM", "k1", "0", "fresh2"), c("LPUSH", "k1", "fresh3"), c("LPOS", "k1", "fresh3"),
			c("LTRIM", "k1", "5", "-6"), c("LLEN", "k1"), c("LPOS", "k1", "ins1"), c("LREM", "k1", "0", "ins2"), c("LTRIM", "k1", "0", "130"), c("LSET", "k1", "100", "w"), c("LPOS", "k1", "w"), c("LTRIM", "k1", "0", "120"), c("LSET", "k1", "60", "w2"), c("LPOS", "k1", "w2"), c("LREM", "k1", "0", "w2")}
		s.Long = append(s.Long, h)
	}
	s.Depth = 3
	if tier == "thorough" {
		s.Depth = 4
	}
	return s
}
