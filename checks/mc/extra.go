package main

import (
	"encoding/json"
	"fmt"
	"os"
	"strings"
	"time"

	redisemu "github.com/jimsnab/go-redisemu"
	vm "github.com/jimsnab/go-redisemu/verifmodel"
	"github.com/jimsnab/go-redisemu/verifrt"
)

// levelOverride: evidence level of properties whose check is not model_checking
var levelOverride = map[string]string{}

var extraGroups = map[string][]exploreGroup{}
var extraScenarios = map[string]func(tier string) []*Scenario{}
var extraRunners = map[string]func(tier string, rep *Report){}
var extraCommands = map[string]func(args []string){}

func exploreGroupsExtra(id string) []exploreGroup { return extraGroups[id] }

func exploreScenariosExtra(id, group, tier string) []*Scenario {
	if f, ok := extraScenarios[id+"/"+group]; ok {
		return f(tier)
	}
	return nil
}

func runExtra(id, tier string, rep *Report) bool {
	if f, ok := extraRunners[id]; ok {
		f(tier, rep)
		return true
	}
	return false
}

func extraCommand(args []string) bool {
	if f, ok := extraCommands[args[0]]; ok {
		f(args[1:])
		return true
	}
	return false
}

// runReplay re-executes the counterexample stored in a replay file without any exploration.
func runReplay(args []string) int {
	if len(args) < 1 {
		fmt.Fprintln(os.Stderr, "usage: mc replay <file>")
		return 2
	}
	data, err := os.ReadFile(args[0])
	if err != nil {
		fmt.Fprintln(os.Stderr, err)
		return 2
	}
	var rf struct {
		Property  string          `json:"property"`
		Signature string          `json:"signature"`
		Detail    string          `json:"detail"`
		Trace     json.RawMessage `json:"trace"`
	}
	if err := json.Unmarshal(data, &rf); err != nil {
		fmt.Fprintln(os.Stderr, err)
		return 2
	}
	fmt.Printf("property %s\nsignature %s\nrecorded: %s\n", rf.Property, rf.Signature, rf.Detail)
	redisemu.VInit()
	var sched struct {
		Scenario string `json:"scenario"`
		Choices  []int  `json:"choices"`
		Ops      []Op   `json:"ops"`
	}
	json.Unmarshal(rf.Trace, &sched)
	var gc struct {
		Case *int   `json:"case"`
		Tier string `json:"tier"`
		Name string `json:"name"`
	}
	json.Unmarshal(rf.Trace, &gc)
	if mk, ok := genLists[rf.Property]; ok && gc.Case != nil && gc.Tier != "" {
		// a case of an enumerated case list: run it again (in this process, without the worker's limits)
		cl := mk(gc.Tier)
		if *gc.Case >= cl.N || (cl.Name != nil && gc.Name != "" && cl.Name(*gc.Case) != gc.Name) {
			fmt.Println("the case list has changed since the replay file was written; recorded case:", gc.Name)
			return 2
		}
		fmt.Println("re-running case", *gc.Case, ":", cl.Name(*gc.Case))
		r := cl.Run(*gc.Case)
		if r.Status == "violation" {
			fmt.Printf("VIOLATION reproduced: %s: %s\n", r.Sig, r.Detail)
		} else {
			fmt.Println("result:", r.Status)
		}
		return 0
	}
	switch {
	case sched.Scenario != "" && sched.Choices != nil:
		for _, tier := range []string{"quick", "thorough"} {
			for _, g := range exploreGroupsFor(rf.Property) {
				for _, sc := range exploreScenarios(rf.Property, g.name, tier) {
					if sc.Name == sched.Scenario {
						x := runSchedule(sc, sched.Choices, true)
						fmt.Println("replayed schedule", sched.Choices)
						for _, l := range describe(x) {
							fmt.Println("  " + l)
						}
						for _, v := range checkExec(sc, x) {
							fmt.Printf("VIOLATION reproduced: %s: %s\n", v[0], v[1])
						}
						return 0
					}
				}
			}
		}
		fmt.Println("scenario not found:", sched.Scenario)
		return 2
	case len(sched.Ops) > 0:
		replayOps(sched.Ops)
		return 0
	}
	fmt.Println("replay file carries a textual trace only:")
	fmt.Println(string(rf.Trace))
	return 0
}

// replayOps runs a recorded operation list on a fresh implementation instance and on the
// model side by side.
func replayOps(ops []Op) {
	redisemu.VResetGlobals()
	verifrt.SetNow(time.UnixMilli(epochMs).UTC())
	model := vm.NewModel(epochMs)
	maxSess := 0
	var flat []Op
	for _, o := range ops {
		flat = append(flat, Op{Sess: o.Sess, Args: o.Args, Advance: o.Advance})
		flat = append(flat, o.Then...)
	}
	for _, o := range flat {
		if o.Sess > maxSess {
			maxSess = o.Sess
		}
	}
	for i := 0; i <= maxSess; i++ {
		model.NewSession()
	}
	s := verifrt.NewSched(nil)
	s.Run(func() {
		vi := redisemu.VNew("")
		x := &seqExec{model: model, impl: &implRun{vi: vi}}
		for i := 0; i <= maxSess; i++ {
			x.impl.clients = append(x.impl.clients, vi.NewClient())
		}
		for _, o := range flat {
			w, g, err := x.do(o)
			ok, _ := vm.Match(w, g)
			mark := "  "
			if !ok || err != nil {
				mark = "!!"
			}
			fmt.Printf("%s %-50s model: %-30s impl: %s %v\n", mark, o.String(), w.String(), g.String(), err)
		}
	})
	fmt.Println("terminal:", s.Term, s.PanicVal)
}

func init() {
	// mc porcheck <prop> <group> <tier> [name-substring]: explore each scenario without a bound
	// twice, with and without the sleep-set reduction; both must finish and reach the same set
	// of outcomes (self-test of the independence relation)
	extraCommands["porcheck"] = func(args []string) {
		redisemu.VInit()
		secs := 120
		if v := os.Getenv("VERIF_EXPLORE1_SECS"); v != "" {
			fmt.Sscanf(v, "%d", &secs)
		}
		bad := 0
		outcomeWithRealTimeOrder = true
		stride := 1
		if v := os.Getenv("VERIF_PORCHECK_STRIDE"); v != "" {
			fmt.Sscanf(v, "%d", &stride)
		}
		for si, sc := range exploreScenarios(args[0], args[1], args[2]) {
			if len(args) > 3 && !strings.Contains(sc.Name, args[3]) {
				continue
			}
			if si%stride != 0 {
				continue
			}
			full, red := newStats(), newStats()
			exploreFrom(sc, nil, 1<<30, time.Now().Add(time.Duration(secs)*time.Second), full)
			exploreDPOR(sc, time.Now().Add(time.Duration(secs)*time.Second), red)
			if full.TimedOut {
				// one-sided: whatever the unfinished full exploration has seen must have been seen by the
				// finished reduced one
				if red.TimedOut {
					fmt.Printf("%-60s neither exploration finishes in %d s: skipped\n", sc.Name, secs)
					continue
				}
				missing := 0
				for k := range full.Outcomes {
					if _, ok := red.Outcomes[k]; !ok {
						missing++
						if t, ok := outcomeText[k]; ok {
							fmt.Println("   missing in the reduced exploration:", t)
						}
					}
				}
				verdict := "contained"
				if missing > 0 {
					verdict = fmt.Sprintf("%d OUTCOMES MISSING IN THE REDUCED EXPLORATION", missing)
					bad++
				}
				fmt.Printf("%-60s full (unfinished): %d schedules, %d outcomes; reduced: %d schedules + %d cut, %d outcomes: %s\n", sc.Name, full.Execs, len(full.Outcomes), red.Execs, red.SleepBlocked, len(red.Outcomes), verdict)
				continue
			}
			same := len(full.Outcomes) == len(red.Outcomes) && !red.TimedOut
			for k := range full.Outcomes {
				if _, ok := red.Outcomes[k]; !ok {
					same = false
				}
			}
			verdict := "same outcomes"
			if !same {
				verdict = "OUTCOME SETS DIFFER"
				bad++
			}
			fmt.Printf("%-60s full: %d schedules, %d outcomes; reduced: %d schedules + %d cut, %d outcomes: %s\n", sc.Name, full.Execs, len(full.Outcomes), red.Execs, red.SleepBlocked, len(red.Outcomes), verdict)
		}
		if bad > 0 {
			os.Exit(1)
		}
	}
	// mc explore1 <prop> <group> <tier> <bound> [name-substring]: explore scenarios one by one in
	// this process, printing progress (debugging aid)
	extraCommands["explore1"] = func(args []string) {
		redisemu.VInit()
		scs := exploreScenarios(args[0], args[1], args[2])
		bound := 1
		fmt.Sscanf(args[3], "%d", &bound)
		for i, sc := range scs {
			if len(args) > 4 && !strings.Contains(sc.Name, args[4]) {
				continue
			}
			st := newStats()
			t0 := time.Now()
			fmt.Fprintf(os.Stderr, "[%d/%d] %s ... ", i, len(scs), sc.Name)
			secs := 60
			if v := os.Getenv("VERIF_EXPLORE1_SECS"); v != "" {
				fmt.Sscanf(v, "%d", &secs)
			}
			if bound < 0 {
				exploreDPOR(sc, time.Now().Add(time.Duration(secs)*time.Second), st)
			} else {
				exploreFrom(sc, nil, bound, time.Now().Add(time.Duration(secs)*time.Second), st)
			}
			fmt.Fprintf(os.Stderr, "%d schedules (+%d cut by sleep sets), %d outcomes, %d violations, timed out %v, %.2fs, terminals %v\n", st.Execs, st.SleepBlocked, len(st.Outcomes), len(st.Violations), st.TimedOut, time.Since(t0).Seconds(), st.Terminals)
			for _, v := range st.Violations {
				fmt.Fprintf(os.Stderr, "    %s: %s\n", v.Sig, v.Detail)
			}
			for o, n := range outcomeStrings {
				fmt.Fprintf(os.Stderr, "    outcome x%d: %s\n", n, o)
			}
			outcomeStrings = map[string]int{}
		}
	}
}
