package main

// C08 (and the concurrent parts of C09 / C14): linearizability scenarios. The oracle is the
// implementation itself run sequentially: an explored execution must agree - on every reply
// and on the final state - with some sequential order of the same commands that respects each
// connection's own order and the real-time precedence the execution exhibited.

import (
	"time"
	"fmt"
	"sort"
	"strconv"
	"strings"

	redisemu "github.com/jimsnab/go-redisemu"
	vm "github.com/jimsnab/go-redisemu/verifmodel"
	"github.com/jimsnab/go-redisemu/verifrt"
)

var linSetup = [][]string{
	{"SET", "a", "10"}, {"SET", "b", "5"}, {"RPUSH", "la", "x", "y"}, {"RPUSH", "lb", "z"}, {"HSET", "h", "f", "1"}, {"SADD", "sa", "1", "2"}, {"SADD", "sb", "2", "3"},
}

type linScenario struct {
	// sleepBefore[thread][command index]: virtual milliseconds the thread lets pass before it
	// issues that command (a timer of the controlled clock: time only moves when nothing can run)
	sleepBefore map[[2]int]int
	name    string
	setup   [][]string
	threads [][][]string
	seqMemo map[string]string
	// phases[i]: the phase in which connection i starts; a phase starts when everything started
	// before is finished or blocked (nil: all connections start together)
	phases []int
	// allowPending: a connection's last command may still be blocked at the end (blocking pops)
	allowPending bool
	// fifo: connections (indexes) in the order in which they blocked on the same key; an element
	// must never go to a later one while an earlier one is still waiting
	fifo []int
	// timerAlts: a timer may fire although threads are runnable (costs one deviation)
	timerAlts bool
	// noLin: the sequential reference cannot express the scenario (a blocked command ended by
	// another connection's command); conservation and the scenario's own oracles decide
	noLin bool
	// extra oracle
	extra func(ls *linScenario, x *Exec, per [][]*Call) [][2]string
	// boundDelta: added to the group's preemption bound (scenarios with many threads)
	boundDelta int
	// noConservation: elements legitimately disappear (keys expire)
	noConservation bool
	// ids of the connections' clients (CLIENT UNBLOCK / KILL arguments "$id<i>" are substituted)
}

func (ls *linScenario) scenario() *Scenario {
	ls.seqMemo = map[string]string{}
	mo := false
	for _, t := range ls.threads {
		for _, c := range t {
			if len(c) >= 2 && strings.EqualFold(c[0], "CLIENT") && (strings.EqualFold(c[1], "KILL") || strings.EqualFold(c[1], "LIST")) {
				mo = true
			}
		}
	}
	return &Scenario{Name: ls.name, Body: ls.body, Check: ls.check, TimerAlts: ls.timerAlts, MapOrder: mo, BoundDelta: ls.boundDelta}
}

// subst replaces $id<i> by the client id of connection i
func subst(c []string, clients []*redisemu.VClient) []string {
	out := make([]string, len(c))
	for i, a := range c {
		out[i] = a
		if strings.HasPrefix(a, "$id") {
			var n int
			fmt.Sscanf(a, "$id%d", &n)
			out[i] = fmt.Sprint(clients[n].ID())
		}
	}
	return out
}

func (ls *linScenario) body(x *Exec) {
	vi := redisemu.VNew("")
	x.Inst = vi
	obs := vi.NewClient()
	for _, c := range ls.setup {
		obs.Do(c...)
	}
	clients := make([]*redisemu.VClient, len(ls.threads))
	for i := range ls.threads {
		clients[i] = vi.NewClient()
	}
	maxPhase := 0
	for _, p := range ls.phases {
		if p > maxPhase {
			maxPhase = p
		}
	}
	for ph := 0; ph <= maxPhase; ph++ {
		for i := range ls.threads {
			if ls.phases != nil && ls.phases[i] != ph {
				continue
			}
			i := i
			verifrt.GoNamed(fmt.Sprintf("conn%d", i+1), func() {
				for j, c := range ls.threads[i] {
					if ms := ls.sleepBefore[[2]int{i, j}]; ms > 0 {
						ch := verifrt.NewChan[struct{}](1)
						verifrt.AddTimer(time.Duration(ms)*time.Millisecond, 0, func(time.Time) { verifrt.TrySend(ch, struct{}{}) })
						verifrt.Recv(ch)
					}
					x.do(i+1, clients[i], subst(c, clients)...)
				}
			})
		}
		verifrt.AwaitQuiescence()
	}
	if x.Sched.QuiesceLivelock {
		x.note("LIVELOCK: a thread is spinning in a sleep/retry loop while nothing else can run")
	}
	x.Final = dumpState(obs, []int{0, 1})
	// which keys do the still-blocked commands wait on, and are those lists really empty?
	for _, c := range x.Calls {
		if c.Ret >= 0 || c.Thread == 0 {
			continue
		}
		for _, k := range blockingKeys(c.Args) {
			r, _ := vm.Parse1(obs.Do("LLEN", k))
			if r.K == vm.KInt && r.I > 0 {
				x.note("STUCK: connection %d is still blocked in %v although list %q holds %d element(s)", c.Thread, c.Args, k, r.I)
			}
		}
	}
}

// blockingKeys: the keys a blocking list command waits on
func blockingKeys(a []string) []string {
	switch strings.ToUpper(a[0]) {
	case "BLPOP", "BRPOP":
		return a[1 : len(a)-1]
	case "BLMOVE", "BRPOPLPUSH":
		return a[1:2]
	case "BLMPOP":
		var n int
		fmt.Sscanf(a[2], "%d", &n)
		if 3+n <= len(a) {
			return a[3 : 3+n]
		}
	}
	return nil
}

// sequential outcome of one total order (list of (thread, index) pairs), computed on a fresh
// instance and memoised: replies in program order per thread + final dump.
func (ls *linScenario) sequential(order [][2]int) string {
	key := fmt.Sprint(order)
	if v, ok := ls.seqMemo[key]; ok {
		return v
	}
	redisemu.VResetGlobals()
	replies := make([][]string, len(ls.threads))
	final := ""
	s := verifrt.NewSched(nil)
	s.Run(func() {
		vi := redisemu.VNew("")
		obs := vi.NewClient()
		for _, c := range ls.setup {
			obs.Do(c...)
		}
		clients := make([]*redisemu.VClient, len(ls.threads))
		for i := range ls.threads {
			clients[i] = vi.NewClient()
		}
		cnt := make([]int, len(ls.threads))
		for _, o := range order {
			cnt[o[0]]++
		}
		for i := range replies {
			replies[i] = make([]string, cnt[i])
		}
		for _, o := range order {
			r, err := vm.Parse1(clients[o[0]].Do(subst(ls.threads[o[0]][o[1]], clients)...))
			if err != nil {
				r = vm.Err("PARSE " + err.Error())
			}
			replies[o[0]][o[1]] = linCanon(ls.threads[o[0]][o[1]], r)
		}
		final = dumpState(obs, []int{0, 1})
	})
	out := fmt.Sprint(replies) + "|" + final
	if s.Term != verifrt.TermAllDone {
		out = "SEQUENTIAL-RUN-" + s.Term.String() + ":" + firstLine(fmt.Sprint(s.PanicVal))
	}
	ls.seqMemo[key] = out
	return out
}

// linCanon is the form in which a reply enters the linearizability comparison. Replies that
// describe the connection table or the server (client ids, ages, counters) differ between the
// concurrent run and its sequential re-execution for reasons that have nothing to do with
// atomicity; only their kind is compared.
func linCanon(args []string, r vm.Reply) string {
	if len(args) > 0 {
		switch strings.ToUpper(args[0]) {
		case "INFO", "HELLO":
			if !r.IsErr() {
				return "<" + strings.ToLower(args[0]) + " reply>"
			}
		case "CLIENT":
			if len(args) > 1 && !r.IsErr() {
				switch strings.ToUpper(args[1]) {
				case "LIST", "INFO", "ID":
					return "<client " + strings.ToLower(args[1]) + " reply>"
				}
			}
		}
	}
	return vm.Canon(r)
}

func (ls *linScenario) check(x *Exec) [][2]string {
	// collect the calls per thread
	per := make([][]*Call, len(ls.threads))
	for _, c := range x.Calls {
		if c.Thread >= 1 && c.Thread <= len(ls.threads) {
			per[c.Thread-1] = append(per[c.Thread-1], c)
		}
	}
	var viol [][2]string
	for _, n := range x.Notes {
		if strings.HasPrefix(n, "STUCK:") {
			viol = append(viol, [2]string{"waiter-stuck-on-nonempty-list", n})
		}
		if strings.HasPrefix(n, "LIVELOCK:") {
			viol = append(viol, [2]string{"livelock", n})
		}
	}
	if !x.Finished {
		viol = append(viol, [2]string{"scenario-did-not-finish", fmt.Sprintf("terminal %s, parked %v", x.Sched.Term, x.Sched.Parked())})
		return viol
	}
	for i := range per {
		if len(per[i]) > 0 && per[i][len(per[i])-1].Ret < 0 {
			c := per[i][len(per[i])-1]
			if !ls.allowPending || blockingKeys(c.Args) == nil {
				return append(viol, [2]string{"command-never-returned:" + strings.ToUpper(c.Args[0]), fmt.Sprintf("connection %d: %v did not return (terminal %s, parked %v)", i+1, c.Args, x.Sched.Term, x.Sched.Parked())})
			}
			per[i] = per[i][:len(per[i])-1] // pending: took no effect
		} else if len(per[i]) != len(ls.threads[i]) {
			return append(viol, [2]string{"command-never-issued", fmt.Sprintf("connection %d issued %d of %d commands (terminal %s)", i+1, len(per[i]), len(ls.threads[i]), x.Sched.Term)})
		}
	}
	if ls.extra != nil {
		viol = append(viol, ls.extra(ls, x, per)...)
	}
	if len(ls.fifo) > 0 {
		// a later waiter completed with an element while an earlier one is still blocked
		for j, t := range ls.fifo {
			if len(per[t]) == 0 {
				continue
			}
			last := per[t][len(per[t])-1]
			if last.Reply.K != vm.KArray && last.Reply.K != vm.KBulk {
				continue
			}
			for _, e := range ls.fifo[:j] {
				if len(per[e]) < len(ls.threads[e]) {
					viol = append(viol, [2]string{"wake-order", fmt.Sprintf("connection %d (blocked later) received %s while connection %d (blocked earlier on the same key) is still waiting", t+1, last.Reply, e+1)})
				}
			}
		}
	}
	if ls.noLin {
		if ls.noConservation {
			return viol
		}
		return append(viol, conservation(ls, x, per)...)
	}
	observed := make([][]string, len(per))
	for i := range per {
		observed[i] = make([]string, len(per[i]))
		for j, c := range per[i] {
			observed[i][j] = linCanon(c.Args, c.Reply)
		}
	}
	want := fmt.Sprint(observed) + "|" + x.Final
	// enumerate the total orders compatible with program order and real-time precedence
	idx := make([]int, len(per))
	var order [][2]int
	total := 0
	for i := range per {
		total += len(per[i])
	}
	found := false
	var seqOutcomes []string
	var rec func()
	rec = func() {
		if found {
			return
		}
		if len(order) == total {
			got := ls.sequential(append([][2]int{}, order...))
			seqOutcomes = append(seqOutcomes, got)
			if got == want {
				found = true
			}
			return
		}
		for t := range per {
			if idx[t] >= len(per[t]) {
				continue
			}
			cand := per[t][idx[t]]
			// real-time: cand may come next only if no other pending call returned before cand was invoked
			ok := true
			for u := range per {
				if u == t || idx[u] >= len(per[u]) {
					continue
				}
				if per[u][idx[u]].Ret < cand.Inv {
					ok = false
					break
				}
			}
			if !ok {
				continue
			}
			order = append(order, [2]int{t, idx[t]})
			idx[t]++
			rec()
			idx[t]--
			order = order[:len(order)-1]
		}
	}
	rec()
	if found {
		return viol
	}
	sort.Strings(seqOutcomes)
	cmds := []string{}
	for i := range ls.threads {
		for _, c := range ls.threads[i] {
			cmds = append(cmds, strings.ToUpper(c[0]))
		}
	}
	sort.Strings(cmds)
	detail := fmt.Sprintf("observed %s matches none of the %d admissible sequential orders", want, len(seqOutcomes))
	if len(seqOutcomes) > 0 {
		detail += "; e.g. sequential: " + seqOutcomes[0]
	}
	return append(viol, [2]string{"not-linearizable:" + strings.Join(cmds, "+"), detail})
}

func linFamilies() map[string][][]string {
	return map[string][][]string{
		"string": {{"INCR", "a"}, {"APPEND", "a", "x"}, {"GETSET", "a", "7"}, {"SETRANGE", "a", "1", "Z"}, {"GETDEL", "a"}, {"MSET", "a", "1", "b", "2"}, {"MSETNX", "a", "1", "c", "2"}, {"MGET", "a", "b"}, {"BITOP", "OR", "a", "a", "b"}, {"SET", "a", "v"}, {"GET", "a"}, {"INCRBY", "b", "3"}, {"SETBIT", "a", "9", "1"}},
		"list":   {{"LPUSH", "la", "q"}, {"RPUSH", "la", "q", "r"}, {"LPOP", "la"}, {"RPOP", "la", "2"}, {"LMOVE", "la", "lb", "LEFT", "RIGHT"}, {"LMOVE", "lb", "la", "RIGHT", "LEFT"}, {"LRANGE", "la", "0", "-1"}, {"LTRIM", "la", "1", "-1"}, {"LLEN", "la"}, {"SORT", "la", "ALPHA", "STORE", "lb"}, {"LINSERT", "la", "BEFORE", "y", "q"}, {"LREM", "la", "0", "x"}, {"LSET", "la", "0", "w"}},
		"hash":   {{"HINCRBY", "h", "f", "2"}, {"HSET", "h", "g", "v"}, {"HDEL", "h", "f"}, {"HGETALL", "h"}, {"HSETNX", "h", "f", "9"}, {"HINCRBYFLOAT", "h", "f", "0.5"}},
		"set":    {{"SADD", "sa", "9"}, {"SREM", "sa", "1"}, {"SMOVE", "sa", "sb", "1"}, {"SUNIONSTORE", "sa", "sa", "sb"}, {"SINTER", "sa", "sb"}, {"SDIFFSTORE", "sb", "sa", "sb"}, {"SCARD", "sa"}, {"SINTERCARD", "2", "sa", "sb"}},
		"generic": {{"DEL", "a", "b"}, {"EXISTS", "a", "b"}, {"TOUCH", "a", "b"}, {"RENAME", "a", "b"}, {"COPY", "a", "b", "REPLACE"}, {"EXPIRE", "a", "100"}, {"PERSIST", "a"}, {"TYPE", "a"}, {"DBSIZE"}, {"KEYS", "*"}, {"RENAME", "la", "lb"}, {"DEL", "la", "lb"}, {"UNLINK", "sa", "h"}, {"FLUSHDB"}},
	}
}

func linScenarios(tier string) []*Scenario {
	fam := linFamilies()
	var out []*Scenario
	add := func(name string, threads ...[][]string) {
		ls := &linScenario{name: name, setup: linSetup, threads: threads}
		out = append(out, ls.scenario())
	}
	names := []string{"string", "list", "hash", "set", "generic"}
	label := func(c []string) string { return strings.Join(c, "_") }
	for _, f := range names {
		cs := fam[f]
		for i := range cs {
			for j := i; j < len(cs); j++ {
				add(fmt.Sprintf("%s/%s||%s", f, label(cs[i]), label(cs[j])), [][]string{cs[i]}, [][]string{cs[j]})
			}
		}
	}
	if tier == "thorough" {
		for _, f := range names[:4] {
			for _, a := range fam[f] {
				for _, g := range fam["generic"] {
					add(fmt.Sprintf("%s-generic/%s||%s", f, label(a), label(g)), [][]string{a}, [][]string{g})
				}
			}
		}
	} else {
		// quick: every command against the three broadest generic commands
		for _, f := range names[:4] {
			for _, a := range fam[f] {
				for _, g := range [][]string{{"DEL", "a", "b"}, {"FLUSHDB"}, {"RENAME", "la", "lb"}} {
					add(fmt.Sprintf("%s-generic/%s||%s", f, label(a), label(g)), [][]string{a}, [][]string{g})
				}
			}
		}
	}
	// multi-key commands observed twice by another connection, three connections
	add("multi/MSET||MGETx2||MSET", [][]string{{"MSET", "a", "1", "b", "1"}}, [][]string{{"MGET", "a", "b"}, {"MGET", "a", "b"}}, [][]string{{"MSET", "a", "2", "b", "2"}})
	add("multi/RENAME||GETx2", [][]string{{"RENAME", "a", "b"}}, [][]string{{"GET", "a"}, {"GET", "b"}})
	add("multi/LMOVE||LLENx2", [][]string{{"LMOVE", "la", "lb", "LEFT", "RIGHT"}}, [][]string{{"LLEN", "la"}, {"LLEN", "lb"}})
	add("multi/SMOVE||SISMEMBERx2", [][]string{{"SMOVE", "sa", "sb", "1"}}, [][]string{{"SISMEMBER", "sa", "1"}, {"SISMEMBER", "sb", "1"}})
	add("multi/COPY||SET+GET", [][]string{{"COPY", "a", "b", "REPLACE"}}, [][]string{{"SET", "a", "v"}, {"GET", "b"}})
	add("multi/TOUCH||DEL", [][]string{{"TOUCH", "a", "b"}}, [][]string{{"DEL", "a", "b"}})
	add("multi/EXISTS||DEL", [][]string{{"EXISTS", "a", "b"}}, [][]string{{"DEL", "a", "b"}})
	add("multi/MSETNX||SET+DEL", [][]string{{"MSETNX", "c", "1", "d", "2"}}, [][]string{{"SET", "d", "x"}, {"DEL", "c"}})
	add("multi/INCRx3", [][]string{{"INCR", "a"}}, [][]string{{"INCR", "a"}}, [][]string{{"INCR", "a"}})
	add("multi/LPUSH+LPOP||LPOP||RPUSH", [][]string{{"LPUSH", "la", "q"}, {"LPOP", "la"}}, [][]string{{"LPOP", "la"}}, [][]string{{"RPUSH", "la", "r"}})
	add("multi/SUNIONSTORE||SADD+SREM", [][]string{{"SUNIONSTORE", "sa", "sa", "sb"}}, [][]string{{"SADD", "sb", "7"}, {"SREM", "sa", "2"}})
	add("multi/BITOP||BITOP", [][]string{{"BITOP", "OR", "a", "a", "b"}}, [][]string{{"BITOP", "OR", "a", "a", "la2"}, {"GET", "a"}})
	add("multi/SELECT+SET||SET", [][]string{{"SELECT", "1"}, {"SET", "a", "db1"}}, [][]string{{"SET", "a", "db0"}, {"GET", "a"}})
	return out
}

// transactions against concurrent observers and writers (the schedule-level part of C09)
func txScenarios(tier string) []*Scenario {
	var out []*Scenario
	add := func(name string, threads ...[][]string) {
		ls := &linScenario{name: name, setup: linSetup, threads: threads}
		out = append(out, ls.scenario())
	}
	T := [][]string{{"MULTI"}, {"SET", "a", "1"}, {"SET", "b", "1"}, {"EXEC"}}
	add("tx/EXEC||MGETx2||SET", T, [][]string{{"MGET", "a", "b"}, {"MGET", "a", "b"}}, [][]string{{"SET", "a", "2"}})
	add("tx/EXEC||MSET", T, [][]string{{"MSET", "a", "3", "b", "3"}})
	add("tx/WATCH-EXEC||SET", [][]string{{"WATCH", "a"}, {"MULTI"}, {"INCR", "a"}, {"EXEC"}}, [][]string{{"SET", "a", "20"}})
	add("tx/WATCH-EXEC||INCR||INCR", [][]string{{"WATCH", "a"}, {"MULTI"}, {"INCR", "a"}, {"EXEC"}}, [][]string{{"INCR", "a"}}, [][]string{{"GET", "a"}})
	add("tx/EXEC(LMOVE,LPUSH)||LRANGEx2", [][]string{{"MULTI"}, {"LMOVE", "la", "lb", "LEFT", "RIGHT"}, {"LPUSH", "la", "n"}, {"EXEC"}}, [][]string{{"LRANGE", "la", "0", "-1"}, {"LRANGE", "lb", "0", "-1"}})
	add("tx/EXEC||EXEC", [][]string{{"MULTI"}, {"INCR", "a"}, {"INCR", "b"}, {"EXEC"}}, [][]string{{"MULTI"}, {"INCR", "b"}, {"INCR", "a"}, {"EXEC"}})
	add("tx/EXEC(FLUSHDB)||SET+GET", [][]string{{"MULTI"}, {"FLUSHDB"}, {"SET", "a", "t"}, {"EXEC"}}, [][]string{{"SET", "a", "w"}, {"GET", "a"}})
	add("tx/DISCARD||SET", [][]string{{"WATCH", "a"}, {"MULTI"}, {"SET", "a", "1"}, {"DISCARD"}, {"GET", "a"}}, [][]string{{"SET", "a", "2"}})
	add("tx/EXEC(SELECT)||SET", [][]string{{"MULTI"}, {"SET", "a", "d0"}, {"SELECT", "1"}, {"SET", "a", "d1"}, {"EXEC"}}, [][]string{{"SET", "a", "w"}})
	// transactions whose commands name no key still see ONE state of the key space (a seeded change of
	// wave 5 let EXEC skip the exclusive lock when no queued command has a key argument)
	add("tx/EXEC(DBSIZE,DBSIZE)||SET-new", [][]string{{"MULTI"}, {"DBSIZE"}, {"DBSIZE"}, {"EXEC"}}, [][]string{{"SET", "fresh", "1"}})
	add("tx/EXEC(KEYS,DBSIZE)||DEL||SET-new", [][]string{{"MULTI"}, {"KEYS", "*"}, {"DBSIZE"}, {"EXEC"}}, [][]string{{"DEL", "a"}}, [][]string{{"SET", "fresh", "1"}})
	add("tx/EXEC(FLUSHDB,DBSIZE)||SET-new", [][]string{{"MULTI"}, {"FLUSHDB"}, {"DBSIZE"}, {"EXEC"}}, [][]string{{"SET", "fresh", "1"}, {"DBSIZE"}})
	add("tx/EXEC(SELECT1,DBSIZE,KEYS)||SELECT1+SET", [][]string{{"MULTI"}, {"SELECT", "1"}, {"DBSIZE"}, {"KEYS", "*"}, {"EXEC"}}, [][]string{{"SELECT", "1"}, {"SET", "fresh", "1"}})
	add("tx/EXEC(PING,DBSIZE,RANDOMKEY-none)||FLUSHALL", [][]string{{"MULTI"}, {"PING"}, {"DBSIZE"}, {"EXISTS", "a", "b"}, {"DBSIZE"}, {"EXEC"}}, [][]string{{"FLUSHALL"}})
	// two transactions that cross between the same two databases in opposite directions
	add("tx/EXEC(db0->db1)||EXEC(db1->db0)", [][]string{{"MULTI"}, {"SET", "a", "1"}, {"SELECT", "1"}, {"SET", "a", "2"}, {"EXEC"}}, [][]string{{"SELECT", "1"}, {"MULTI"}, {"SET", "b", "1"}, {"SELECT", "0"}, {"SET", "b", "2"}, {"EXEC"}})
	add("tx/EXEC(SELECT1,FLUSHALL,DBSIZE)||db1:SET||SET", [][]string{{"MULTI"}, {"SELECT", "1"}, {"FLUSHALL"}, {"DBSIZE"}, {"EXEC"}}, [][]string{{"SELECT", "1"}, {"SET", "fresh", "1"}}, [][]string{{"SET", "fresh0", "1"}})
	// command numbers are per database and the lock bypass of EXEC goes by number: a transaction that crosses
	// into database 1 against a connection there whose commands carry every number EXEC could carry
	for n := 0; n <= 30; n += 2 {
		other := [][]string{{"SELECT", "1"}}
		for i := 0; i < n; i++ {
			other = append(other, []string{"PING"})
		}
		other = append(other, []string{"LPOP", "kq"})
		add(fmt.Sprintf("tx/EXEC(SELECT1,RPUSH,LLEN,LPOP)||db1:PINGx%d+LPOP", n), [][]string{{"MULTI"}, {"SELECT", "1"}, {"RPUSH", "kq", "t"}, {"LLEN", "kq"}, {"LPOP", "kq"}, {"EXEC"}}, other)
	}
	// CLIENT LIST looks at every connection's watched keys (under the client table's lock); inside a transaction it
	// runs while the transaction owns the database
	// (judged on termination only: the text of CLIENT LIST nested in the EXEC reply differs from order to order)
	for _, other := range [][][]string{{{"WATCH", "a"}, {"CLIENT", "LIST"}, {"CLIENT", "INFO"}}, {{"SELECT", "1"}, {"WATCH", "a"}, {"SELECT", "0"}, {"CLIENT", "LIST"}}} {
		ls := &linScenario{name: "tx/EXEC(SET,CLIENT_LIST)||" + strings.Join(other[0], "_") + "+CLIENT_LIST", setup: linSetup, threads: [][][]string{{{"MULTI"}, {"SET", "a", "1"}, {"CLIENT", "LIST"}, {"EXEC"}}, other}, noLin: true, noConservation: true}
		out = append(out, ls.scenario())
	}
	// FLUSHALL inside transactions of connections in different databases: each EXEC owns its database and
	// FLUSHALL needs all of them
	add("tx/EXEC(FLUSHALL)||db1:EXEC(FLUSHALL)", [][]string{{"MULTI"}, {"FLUSHALL"}, {"SET", "a", "0"}, {"EXEC"}}, [][]string{{"SELECT", "1"}, {"SET", "z", "1"}, {"MULTI"}, {"FLUSHALL"}, {"SET", "z", "2"}, {"EXEC"}})
	add("tx/EXEC(FLUSHALL)||db1:FLUSHALL||db2:EXEC(SET)", [][]string{{"MULTI"}, {"FLUSHALL"}, {"EXEC"}}, [][]string{{"SELECT", "1"}, {"FLUSHALL"}}, [][]string{{"SELECT", "2"}, {"MULTI"}, {"SET", "y", "1"}, {"EXEC"}})
	// commands that need two databases, inside and outside a transaction
	add("tx/EXEC(COPY-DB1)||db1:COPY-DB0", [][]string{{"MULTI"}, {"COPY", "a", "c", "DB", "1"}, {"GET", "a"}, {"EXEC"}}, [][]string{{"SELECT", "1"}, {"SET", "z", "1"}, {"COPY", "z", "z2", "DB", "0"}})
	add("tx/EXEC(MOVE)||db1:MOVE", [][]string{{"MULTI"}, {"MOVE", "a", "1"}, {"EXEC"}}, [][]string{{"SELECT", "1"}, {"SET", "z", "1"}, {"MOVE", "z", "0"}})
	if tier == "thorough" {
		add("tx/EXEC(SCAN,DBSIZE)||SET-new||DEL", [][]string{{"MULTI"}, {"SCAN", "0", "COUNT", "100"}, {"DBSIZE"}, {"EXEC"}}, [][]string{{"SET", "fresh", "1"}}, [][]string{{"DEL", "b"}})
		add("tx/EXEC(DBSIZE,ECHO,DBSIZE)||RENAME||DEL", [][]string{{"MULTI"}, {"DBSIZE"}, {"ECHO", "x"}, {"DBSIZE"}, {"EXEC"}}, [][]string{{"RENAME", "a", "a2"}}, [][]string{{"DEL", "b"}})
	}
	return out
}

// histScenarios (C08 group "hist"): atomicity must not depend on what a connection did before. One
// connection first runs a prelude that leaves (or should leave) no trace - a finished or discarded
// transaction, introspection commands that walk the client table, a protocol switch, a database
// round trip, a timed-out blocking pop, a failing command - and then a command that races with a
// second connection on the same keys.
func histScenarios(tier string) []*Scenario {
	var out []*Scenario
	preludes := []struct {
		name string
		cmds [][]string
	}{
		{"EXEC", [][]string{{"MULTI"}, {"SET", "c", "1"}, {"EXEC"}}},
		{"DISCARD", [][]string{{"MULTI"}, {"SET", "c", "1"}, {"DISCARD"}}},
		{"EXECABORT", [][]string{{"MULTI"}, {"NOSUCHCMD"}, {"EXEC"}}},
		{"WATCH-UNWATCH", [][]string{{"WATCH", "a"}, {"UNWATCH"}}},
		{"CLIENT_INFO", [][]string{{"CLIENT", "INFO"}}},
		{"CLIENT_LIST", [][]string{{"CLIENT", "LIST"}}},
		{"HELLO3", [][]string{{"HELLO", "3"}}},
		{"SELECT1-0", [][]string{{"SELECT", "1"}, {"SELECT", "0"}}},
		{"BLPOP-timeout", [][]string{{"BLPOP", "nolist", "0.01"}}},
		{"WRONGTYPE", [][]string{{"GET", "la"}}},
		{"INFO", [][]string{{"INFO"}}},
	}
	races := []struct {
		name   string
		mine   []string
		theirs [][]string
	}{
		{"MGET||MSET", []string{"MGET", "a", "b"}, [][]string{{"MSET", "a", "3", "b", "3"}}},
		{"INCR||INCR", []string{"INCR", "a"}, [][]string{{"INCR", "a"}}},
		{"LMOVE||LRANGEx2", []string{"LMOVE", "la", "lb", "LEFT", "RIGHT"}, [][]string{{"LRANGE", "la", "0", "-1"}, {"LRANGE", "lb", "0", "-1"}}},
	}
	for pi, p := range preludes {
		for ri, r := range races {
			if tier != "thorough" && ri == 2 && pi%3 != 0 {
				continue
			}
			t1 := append(append([][]string{}, p.cmds...), r.mine)
			ls := &linScenario{name: "hist/" + p.name + "+" + r.name, setup: linSetup, threads: [][][]string{t1, r.theirs}}
			out = append(out, ls.scenario())
		}
	}
	return out
}

// conservation: every pushed element was delivered to exactly one consumer or is still in its
// list - never lost, never duplicated (elements are distinct within a scenario).
func conservation(ls *linScenario, x *Exec, per [][]*Call) [][2]string {
	pushed := map[string]int{}
	for _, c := range ls.setup {
		if n := strings.ToUpper(c[0]); n == "RPUSH" || n == "LPUSH" {
			for _, e := range c[2:] {
				pushed[e]++
			}
		}
	}
	got := map[string]int{}
	for _, calls := range per {
		for _, c := range calls {
			n := strings.ToUpper(c.Args[0])
			switch n {
			case "RPUSH", "LPUSH":
				if c.Reply.K == vm.KInt {
					for _, e := range c.Args[2:] {
						pushed[e]++
					}
				}
			case "BLPOP", "BRPOP":
				if c.Reply.K == vm.KArray && len(c.Reply.A) == 2 {
					got[c.Reply.A[1].S]++
				}
			case "LPOP", "RPOP":
				if c.Reply.K == vm.KBulk {
					got[c.Reply.S]++
				}
				for _, e := range c.Reply.A {
					got[e.S]++
				}
			case "BLMPOP", "LMPOP":
				if c.Reply.K == vm.KArray && len(c.Reply.A) == 2 {
					for _, e := range c.Reply.A[1].A {
						got[e.S]++
					}
				}
			}
		}
	}
	// what is still stored (any list of the final dump)
	for e := range pushed {
		got[e] += strings.Count(x.Final, strconv.Quote(e))
	}
	var out [][2]string
	for e, n := range pushed {
		if got[e] != n {
			out = append(out, [2]string{"conservation", fmt.Sprintf("element %q was pushed %d time(s) but is accounted for %d time(s) (delivered + remaining); final state %s", e, n, got[e], x.Final)})
		}
	}
	return out
}
