package main

// E1: explicit-state breadth-first search over command sequences. The state space is defined
// by the reference model; every transition (state, operation) is replayed on a fresh instance
// of the real implementation and compared on reply and on the full observable state.

import (
	"bufio"
	"encoding/json"
	"fmt"
	"io"
	"os"
	"os/exec"
	"sort"
	"strconv"
	"strings"
	"sync"
	"time"

	redisemu "github.com/jimsnab/go-redisemu"
	vm "github.com/jimsnab/go-redisemu/verifmodel"
	"github.com/jimsnab/go-redisemu/verifrt"
	vos "github.com/jimsnab/go-redisemu/verifrt/vos"
)

const epochMs = int64(1893456000000) // 2030-01-01T00:00:00Z

type Op struct {
	Sess    int      // session index
	Args    []string // command
	Advance int64    // virtual milliseconds that pass before the command is sent
	Then    []Op     // macro: commands that follow immediately (each reply is compared)
}

func (o Op) String() string {
	s := strings.Join(quoteArgs(o.Args), " ")
	if o.Advance != 0 {
		s = fmt.Sprintf("(+%dms) %s", o.Advance, s)
	}
	if o.Sess != 0 {
		s = fmt.Sprintf("c%d: %s", o.Sess, s)
	}
	for _, t := range o.Then {
		s += " ; " + t.String()
	}
	return s
}

func quoteArgs(a []string) []string {
	out := make([]string, len(a))
	for i, s := range a {
		if s == "" || strings.ContainsAny(s, " \"\r\n\x00") || !isPrintable(s) {
			out[i] = strconv.Quote(s)
		} else {
			out[i] = s
		}
		if len(out[i]) > 60 {
			out[i] = out[i][:50] + fmt.Sprintf("...(%dB)", len(s))
		}
	}
	return out
}

func isPrintable(s string) bool {
	for i := 0; i < len(s); i++ {
		if s[i] < 0x20 || s[i] > 0x7e {
			return false
		}
	}
	return true
}

type SeqSpec struct {
	ID       string
	Sessions int
	Inits    [][]Op   // alternative initial histories (each applied from the empty state)
	Alphabet []Op     // operations tried from every reached state
	Depth    int      // BFS depth (number of alphabet operations chained)
	Keys     []string // key universe used for observation and signatures
	DBs      []int    // databases observed
	TTL      bool     // observe PTTL
	// Extra read-only probes executed after every transition (in addition to the state dump)
	Probes []Op
	// Filter drops alphabet operations in a given model state (nil = keep all)
	MaxStates int
	// Sweep: depth-1 only operations, tried from every reached state but never chained
	Sweep []Op
	// InitSweep: like Sweep, but tried from the initial states only (large families of macro steps)
	InitSweep []Op
	// InitSweepEvery n > 1: only from every n-th initial state (specs with hundreds of them)
	InitSweepEvery int
	Proto int
	// Long: deterministic long histories (table growth / shrink); every step is compared on
	// reply and full observable state.
	Long [][]Op
	// LazyFrom: sessions with index >= LazyFrom are connected when they send their first command
	// (0 = all sessions are connected at the start)
	LazyFrom int
	// ObserveAll: dump the state through every connected session, not only through the observer
	ObserveAll bool
	// Persist: the instance has a persist path (in-memory file system); the pseudo command $SAVE runs the saver
	Persist bool
}

// sweepFor: the sweep operations tried from the state reached by path
func (spec *SeqSpec) sweepFor(init int, path []int) []Op {
	if len(path) > 0 || len(spec.InitSweep) == 0 || (spec.InitSweepEvery > 1 && init%spec.InitSweepEvery != spec.InitSweepEvery-1) {
		return spec.Sweep
	}
	return append(append([]Op{}, spec.Sweep...), spec.InitSweep...)
}

// staleSweep: macro steps "read; change; [change;] reads" for every read, every change and every
// pair of changes: whatever a read leaves behind in the implementation (a remembered position, a
// cached length, a memoised lookup) and a later change forgets to invalidate shows in the reads
// at the end, which come in both orders. The model never sees a difference between a state and the
// same state after a read - that is exactly why the search over model states cannot find these.
func staleSweep(reads, changes []Op) []Op {
	var final []Op
	for i := len(reads) - 1; i >= 0; i-- {
		final = append(final, reads[i])
	}
	final = append(final, reads...)
	var out []Op
	for _, r := range reads {
		for _, m1 := range changes {
			out = append(out, Op{Args: r.Args, Then: append([]Op{m1}, final...)})
			for _, m2 := range changes {
				out = append(out, Op{Args: r.Args, Then: append([]Op{m1, m2}, final...)})
			}
		}
	}
	return out
}

// ---- one transition on the implementation ------------------------------------------------

type stepOutcome struct {
	Status string // ok | mismatch | pruned-init
	Sig    string
	Detail string
	Succ   string // successor model key (only when ok)
	Unspec int
	Shape  string
}

type implRun struct {
	vi      *redisemu.VInst
	clients []*redisemu.VClient
}

// keyTag describes a key of the universe in the model state (for signatures).
func keyTag(m *vm.Model, db int, k string) string {
	o := m.DBs[db][k]
	if o == nil || (o.Exp != 0 && o.Exp <= m.Now) {
		return "none"
	}
	t := o.TypeName()
	switch o.T {
	case 'l':
		t += sizeClass(len(o.L))
	case 'h':
		t += sizeClass(len(o.H))
	case 'z':
		t += sizeClass(len(o.Z))
	}
	if o.Exp != 0 {
		t += "+ttl"
	}
	return t
}

func sizeClass(n int) string {
	if n >= 2 {
		return "2"
	}
	return strconv.Itoa(n)
}

var keywordSet = map[string]bool{}

func init() {
	for _, k := range strings.Fields("NX XX GT LT GET EX PX EXAT PXAT KEEPTTL PERSIST LEFT RIGHT BEFORE AFTER COUNT RANK MAXLEN LIMIT WITHVALUES REPLACE DB BY ASC DESC ALPHA STORE LEN IDX MINMATCHLEN WITHMATCHLEN MATCH TYPE AND OR XOR NOT BYTE BIT OVERFLOW WRAP SAT FAIL SET INCRBY SETNAME GETNAME ID TIMEOUT ERROR SYNC ASYNC ABSTTL") {
		keywordSet[k] = true
	}
}

// template renders a command with key names replaced by K1,K2.. and values masked.
func template(spec *SeqSpec, m *vm.Model, db int, args []string) (tpl string, tags string) {
	keyIdx := map[string]int{}
	var tagParts []string
	isKey := map[string]bool{}
	for _, k := range spec.Keys {
		isKey[k] = true
	}
	parts := []string{strings.ToUpper(args[0])}
	for _, a := range args[1:] {
		switch {
		case isKey[a]:
			if _, ok := keyIdx[a]; !ok {
				keyIdx[a] = len(keyIdx) + 1
				tagParts = append(tagParts, fmt.Sprintf("K%d=%s", keyIdx[a], keyTag(m, db, a)))
			}
			parts = append(parts, fmt.Sprintf("K%d", keyIdx[a]))
		case keywordSet[strings.ToUpper(a)]:
			parts = append(parts, strings.ToUpper(a))
		default:
			if n, err := strconv.ParseInt(a, 10, 64); err == nil {
				if n >= -3 && n <= 3 {
					parts = append(parts, a)
				} else if n > 0 {
					parts = append(parts, "+N")
				} else {
					parts = append(parts, "-N")
				}
			} else if a == "" {
				parts = append(parts, "''")
			} else {
				parts = append(parts, "v")
			}
		}
	}
	return strings.Join(parts, " "), strings.Join(tagParts, ",")
}

// observation commands for the model state (run on observer session `obs`)
func observation(spec *SeqSpec, m *vm.Model, obs int) []Op {
	var out []Op
	for _, db := range spec.DBs {
		if len(spec.DBs) > 1 || db != 0 {
			out = append(out, Op{Sess: obs, Args: []string{"SELECT", strconv.Itoa(db)}})
		}
		out = append(out, Op{Sess: obs, Args: []string{"KEYS", "*"}})
		out = append(out, Op{Sess: obs, Args: []string{"DBSIZE"}})
		keys := map[string]bool{}
		for _, k := range spec.Keys {
			keys[k] = true
		}
		for k := range m.DBs[db] {
			keys[k] = true
		}
		ks := make([]string, 0, len(keys))
		for k := range keys {
			ks = append(ks, k)
		}
		sort.Strings(ks)
		for _, k := range ks {
			out = append(out, Op{Sess: obs, Args: []string{"TYPE", k}})
			o := m.DBs[db][k]
			if o == nil || (o.Exp != 0 && o.Exp <= m.Now) {
				out = append(out, Op{Sess: obs, Args: []string{"EXISTS", k}})
				continue
			}
			switch o.T {
			case 's':
				out = append(out, Op{Sess: obs, Args: []string{"GET", k}})
			case 'l':
				out = append(out, Op{Sess: obs, Args: []string{"LRANGE", k, "0", "-1"}}, Op{Sess: obs, Args: []string{"LLEN", k}})
			case 'h':
				out = append(out, Op{Sess: obs, Args: []string{"HGETALL", k}}, Op{Sess: obs, Args: []string{"HLEN", k}})
			case 'z':
				out = append(out, Op{Sess: obs, Args: []string{"SMEMBERS", k}}, Op{Sess: obs, Args: []string{"SCARD", k}})
			}
			if spec.TTL {
				out = append(out, Op{Sess: obs, Args: []string{"PTTL", k}})
			}
		}
	}
	return out
}

type seqExec struct {
	spec   *SeqSpec
	model  *vm.Model
	impl   *implRun
	purged bool
	ticks  int64
}

// do sends one command to model and implementation. The implementation's clock is the model's
// millisecond clock plus a microsecond tick per command (real time never stands still between
// two commands; exact-deadline coincidences are outside what the properties judge).
func (x *seqExec) do(op Op) (vm.Reply, vm.Reply, error) {
	if op.Advance != 0 {
		x.model.Now += op.Advance
	}
	x.ticks++
	before := x.model.Now
	verifrt.SetNow(time.UnixMilli(x.model.Now).UTC().Add(time.Duration(x.ticks%900) * time.Microsecond))
	if len(op.Args) == 1 && op.Args[0] == "$SAVE" {
		// what the saver does once a second (specs with a persist path): no command, nothing a connection sees
		if e := x.impl.vi.Save(); e != nil {
			return vm.Reply{K: vm.KStatus, S: "OK"}, vm.Err("SAVE " + e.Error()), nil
		}
		return vm.Reply{K: vm.KStatus, S: "OK"}, vm.Reply{K: vm.KStatus, S: "OK"}, nil
	}
	want := x.model.Exec(op.Sess, op.Args)
	if x.impl.clients[op.Sess] == nil {
		x.impl.clients[op.Sess] = x.impl.vi.NewClient() // connects now
	}
	raw := x.impl.clients[op.Sess].Do(op.Args...)
	got, err := vm.Parse1(raw)
	if x.model.Now != before {
		// the model let virtual time pass (a blocking command timed out): the implementation's
		// clock must have arrived at the same instant
		if d := verifrt.Now().UnixMilli() - x.model.Now; err == nil && (d < -1 || d > 1) {
			err = fmt.Errorf("virtual time after a timed-out blocking command: implementation at %+d ms relative to the model", d)
		}
	}
	return want, got, err
}

// runTransition replays init+path and then applies op; everything is compared with the model.
func runTransition(spec *SeqSpec, init int, path []int, op Op, ops []Op) (out stepOutcome) {
	redisemu.VResetGlobals()
	verifrt.SetNow(time.UnixMilli(epochMs).UTC())
	model := vm.NewModel(epochMs)
	nSess := spec.Sessions
	if nSess == 0 {
		nSess = 1
	}
	for i := 0; i <= nSess; i++ { // last one is the observer
		model.NewSession()
	}
	obs := nSess
	x := &seqExec{spec: spec, model: model}
	finished := false
	stage := "init"
	var stepDesc string
	var preModel *vm.Model
	sched := verifrt.NewSched(nil)
	sched.Run(func() {
		base := ""
		if spec.Persist {
			vos.ResetFS()
			base = "data/seq"
		}
		vi := redisemu.VNew(base)
		x.impl = &implRun{vi: vi}
		for i := 0; i <= nSess; i++ {
			if spec.LazyFrom > 0 && i >= spec.LazyFrom && i < nSess {
				x.impl.clients = append(x.impl.clients, nil)
				continue
			}
			x.impl.clients = append(x.impl.clients, vi.NewClient())
		}
		if spec.Proto == 3 {
			for i := 0; i <= nSess; i++ {
				x.do(Op{Sess: i, Args: []string{"HELLO", "3"}})
			}
		}
		check := func(o Op) bool {
			want, got, err := x.do(o)
			if err != nil {
				out = stepOutcome{Status: "mismatch", Sig: "resp-parse", Detail: fmt.Sprintf("%s: %v", o, err)}
				return false
			}
			if ok, why := vm.Match(want, got); !ok {
				out = stepOutcome{Status: "diverged", Detail: fmt.Sprintf("%s %s: %s", stage, o, why)}
				return false
			}
			for _, t := range o.Then {
				w2, g2, err := x.do(t)
				if err != nil {
					out = stepOutcome{Status: "diverged", Detail: fmt.Sprintf("%s %s: %v", stage, t, err)}
					return false
				}
				if ok, why := vm.Match(w2, g2); !ok {
					out = stepOutcome{Status: "diverged", Detail: fmt.Sprintf("%s %s: %s", stage, t, why)}
					return false
				}
			}
			return true
		}
		if init < len(spec.Inits) {
			for _, o := range spec.Inits[init] {
				stepDesc = o.String()
				if !check(o) {
					out.Status = "pruned-init"
					finished = true
					return
				}
			}
		}
		stage = "replay"
		for _, i := range path {
			stepDesc = ops[i].String()
			if !check(ops[i]) {
				out.Status = "replay-divergence"
				finished = true
				return
			}
		}
		stage = "op"
		stepDesc = op.String()
		preModel = model.Clone()
		tpl, tags := template(spec, preModel, preModel.Sess[op.Sess].DB, op.Args)
		if strings.EqualFold(op.Args[0], "EXEC") {
			// what a transaction does depends on the watch state of its connection
			tags = strings.TrimPrefix(tags+","+preModel.WatchTag(op.Sess), ",")
		}
		sigBase := tpl + "|" + tags
		want, got, err := x.do(op)
		if err != nil {
			out = stepOutcome{Status: "mismatch", Sig: sigBase + "|resp-parse", Detail: fmt.Sprintf("%s: %v", op, err)}
			finished = true
			return
		}
		out.Shape = vm.Shape(got)
		if want.K == vm.KBlocked {
			out = stepOutcome{Status: "mismatch", Sig: sigBase + "|reply|blocked->" + vm.Shape(got), Detail: fmt.Sprintf("%s: model: blocks forever; impl replied %s", op, got)}
			finished = true
			return
		}
		if ok, why := vm.MatchCmd(preModel, op.Sess, op.Args, want, got); !ok {
			out = stepOutcome{Status: "mismatch", Sig: sigBase + "|reply|" + vm.Shape(want) + "->" + vm.Shape(got), Detail: fmt.Sprintf("%s: %s", op, why)}
			finished = true
			return
		}
		for ti, t := range op.Then {
			stepDesc = t.String()
			ttpl, _ := template(spec, model, model.Sess[t.Sess].DB, t.Args)
			if strings.EqualFold(t.Args[0], "EXEC") {
				ttpl += "{" + model.WatchTag(t.Sess) + "}"
			}
			pm := model.Clone()
			w2, g2, err := x.do(t)
			if err != nil {
				out = stepOutcome{Status: "mismatch", Sig: fmt.Sprintf("%s|then%d:%s|resp-parse", sigBase, ti, ttpl), Detail: fmt.Sprintf("%s: %v", t, err)}
				finished = true
				return
			}
			if ok, why := vm.MatchCmd(pm, t.Sess, t.Args, w2, g2); !ok {
				out = stepOutcome{Status: "mismatch", Sig: fmt.Sprintf("%s|then%d:%s|reply|%s->%s", sigBase, ti, ttpl, vm.Shape(w2), vm.Shape(g2)), Detail: fmt.Sprintf("%s ... %s: %s", op.Args, t, why)}
				finished = true
				return
			}
		}
		// per-connection session records (private-state probe, when it compiles)
		if redisemu.VDeepSessionState != nil {
			for si, cl := range x.impl.clients {
				if cl == nil || si >= len(model.Sess) {
					continue
				}
				if w, g := model.SessionState(si), redisemu.VDeepSessionState(cl); w != g {
					out = stepOutcome{Status: "mismatch", Sig: sigBase + "|session|c" + strconv.Itoa(si), Detail: fmt.Sprintf("after %s: session record of connection %d: want {%s} got {%s}", op, si, w, g)}
					finished = true
					return
				}
			}
		}
		// what each connection believes about itself, asked before any observation command changes it:
		// CLIENT INFO reports the selected database of the connection it is sent on
		if spec.ObserveAll {
			for si, cl := range x.impl.clients {
				if cl == nil || si >= len(model.Sess) || model.Sess[si].Multi || model.Sess[si].Blocked {
					continue
				}
				r, err := vm.Parse1(cl.Do("CLIENT", "INFO"))
				if err != nil {
					continue
				}
				if i := strings.Index(r.S, " db="); i >= 0 {
					f := strings.Fields(r.S[i+1:])[0]
					if want := "db=" + strconv.Itoa(model.Sess[si].DB); f != want {
						out = stepOutcome{Status: "mismatch", Sig: sigBase + "|client-info-db|c" + strconv.Itoa(si), Detail: fmt.Sprintf("after %s: CLIENT INFO on connection %d reports %s, the connection is in database %d", op, si, f, model.Sess[si].DB)}
						finished = true
						return
					}
				}
			}
		}
		// full observable state
		stage = "observe"
		probes := append(observation(spec, model, obs), spec.Probes...)
		if spec.ObserveAll {
			for si := 0; si < nSess; si++ {
				if x.impl.clients[si] == nil || model.Sess[si].Multi || model.Sess[si].Blocked {
					continue
				}
				back := model.Sess[si].DB
				for _, p := range observation(spec, model, si) {
					probes = append(probes, p)
				}
				probes = append(probes, Op{Sess: si, Args: []string{"SELECT", strconv.Itoa(back)}})
			}
		}
		for _, p := range probes {
			stepDesc = p.String()
			w, g, err := x.do(p)
			ptpl, _ := template(spec, model, model.Sess[p.Sess].DB, p.Args)
			if err != nil {
				out = stepOutcome{Status: "mismatch", Sig: sigBase + "|state|obs:" + ptpl + "|resp-parse", Detail: fmt.Sprintf("after %s: %s: %v", op, p, err)}
				finished = true
				return
			}
			if ok, why := vm.Match(w, g); !ok {
				out = stepOutcome{Status: "mismatch", Sig: sigBase + "|state|obs:" + ptpl + "|" + vm.Shape(w) + "->" + vm.Shape(g), Detail: fmt.Sprintf("after %s: %s: %s", op, p, why)}
				finished = true
				return
			}
		}
		out.Status = "ok"
		finished = true
	})
	if finished {
		if out.Status == "ok" {
			out.Succ = model.Key()
			out.Unspec = model.Unspec
		}
		return
	}
	// the thread did not run to completion
	tpl, tags := "?", ""
	if preModel != nil {
		tpl, tags = template(spec, preModel, preModel.Sess[op.Sess].DB, op.Args)
	}
	sigBase := tpl + "|" + tags
	switch sched.Term {
	case verifrt.TermPanic:
		msg := fmt.Sprint(sched.PanicVal)
		kind := "panic"
		if strings.Contains(msg, "budget exhausted") {
			kind = "hang"
		}
		fn := panicSite(sched.PanicStk)
		if stage == "op" || stage == "observe" {
			out = stepOutcome{Status: "mismatch", Sig: fmt.Sprintf("%s|%s@%s:%s", sigBase, kind, stage, fn), Detail: fmt.Sprintf("%s during %q: %s", kind, stepDesc, firstLine(msg))}
		} else {
			out = stepOutcome{Status: "replay-divergence", Detail: fmt.Sprintf("panic during %s %q: %s", stage, stepDesc, firstLine(msg))}
		}
	case verifrt.TermQuiescent, verifrt.TermLivelock:
		if stage == "op" {
			want := preModel.Clone().Exec(op.Sess, op.Args)
			if want.K == vm.KBlocked {
				m2 := preModel.Clone()
				m2.Exec(op.Sess, op.Args)
				out = stepOutcome{Status: "ok-blocked", Succ: "", Shape: "blocked"}
				_ = m2
			} else {
				out = stepOutcome{Status: "mismatch", Sig: sigBase + "|reply|" + vm.Shape(want) + "->blocked(" + sched.Term.String() + ")", Detail: fmt.Sprintf("%s: impl never returns (%s); model: %s", op, sched.Term, want)}
			}
		} else {
			out = stepOutcome{Status: "replay-divergence", Detail: fmt.Sprintf("%s while %s %q", sched.Term, stage, stepDesc)}
			if stage == "observe" {
				out = stepOutcome{Status: "mismatch", Sig: sigBase + "|state|obs-blocked", Detail: fmt.Sprintf("after %s: observation %q never returns", op, stepDesc)}
			}
		}
	default:
		out = stepOutcome{Status: "replay-divergence", Detail: fmt.Sprintf("terminal %s during %s %q", sched.Term, stage, stepDesc)}
	}
	return
}

func firstLine(s string) string {
	if i := strings.IndexByte(s, '\n'); i >= 0 {
		s = s[:i]
	}
	if len(s) > 200 {
		s = s[:200]
	}
	return s
}

// panicSite extracts the innermost emulator function from a stack trace.
func panicSite(stk string) string {
	lines := strings.Split(stk, "\n")
	seenPanic := false
	for _, l := range lines {
		if strings.HasPrefix(l, "panic(") {
			seenPanic = true
			continue
		}
		if !seenPanic {
			continue
		}
		if strings.HasPrefix(l, "github.com/jimsnab/go-redisemu.") && !strings.Contains(l, "verifrt") {
			fn := strings.TrimPrefix(l, "github.com/jimsnab/go-redisemu.")
			if i := strings.LastIndex(fn, "("); i >= 0 {
				fn = fn[:i]
			}
			return fn
		}
	}
	return "?"
}

// runLong executes one long history step by step on a single instance.
func runLong(spec *SeqSpec, idx int, beat func()) (res []seqOpResult) {
	redisemu.VResetGlobals()
	verifrt.SetNow(time.UnixMilli(epochMs).UTC())
	model := vm.NewModel(epochMs)
	model.NewSession()
	model.NewSession()
	x := &seqExec{spec: spec, model: model}
	hist := spec.Long[idx]
	step := 0
	done := false
	sched := verifrt.NewSched(nil)
	sched.Horizon = 50000000
	sched.Run(func() {
		base := ""
		if spec.Persist {
			vos.ResetFS()
			base = "data/seq"
		}
		vi := redisemu.VNew(base)
		x.impl = &implRun{vi: vi}
		x.impl.clients = append(x.impl.clients, vi.NewClient(), vi.NewClient())
		for i, op := range hist {
			step = i
			beat()
			pre := ""
			tpl, _ := template(spec, model, 0, op.Args)
			want, got, err := x.do(op)
			if err != nil {
				res = append(res, seqOpResult{Op: i, Status: "mismatch", Sig: fmt.Sprintf("long%d|%s|resp-parse", idx, tpl), Detail: fmt.Sprintf("step %d %s: %v", i, op, err)})
				done = true
				return
			}
			if ok, why := vm.Match(want, got); !ok {
				res = append(res, seqOpResult{Op: i, Status: "mismatch", Sig: fmt.Sprintf("long%d|%s|reply|%s->%s", idx, tpl, vm.Shape(want), vm.Shape(got)), Detail: fmt.Sprintf("step %d %s: %s%s", i, op, why, pre)})
				done = true
				return
			}
			for _, p := range observation(spec, model, 1) {
				w, g, err := x.do(p)
				ptpl, _ := template(spec, model, 0, p.Args)
				ok, why := false, ""
				if err == nil {
					ok, why = vm.Match(w, g)
				} else {
					why = err.Error()
				}
				if !ok {
					if len(why) > 300 {
						why = why[:300] + "..."
					}
					res = append(res, seqOpResult{Op: i, Status: "mismatch", Sig: fmt.Sprintf("long%d|%s|state|obs:%s", idx, tpl, ptpl), Detail: fmt.Sprintf("after step %d %s: %s: %s", i, op, p, why)})
					done = true
					return
				}
			}
			res = append(res, seqOpResult{Op: i, Status: "ok", Succ: ""})
		}
		done = true
	})
	if !done {
		tpl, _ := template(spec, model, 0, hist[step].Args)
		kind := sched.Term.String()
		if sched.Term == verifrt.TermPanic {
			kind = "panic:" + panicSite(sched.PanicStk) + ":" + firstLine(fmt.Sprint(sched.PanicVal))
		}
		res = append(res, seqOpResult{Op: step, Status: "mismatch", Sig: fmt.Sprintf("long%d|%s|%s", idx, tpl, strings.SplitN(kind, ":", 3)[0]), Detail: fmt.Sprintf("step %d %s: %s", step, hist[step], kind)})
	}
	return
}

// ---- worker protocol ------------------------------------------------------------------------

type seqTask struct {
	Init  int   `json:"i"`
	Path  []int `json:"p"`
	Sweep bool  `json:"s,omitempty"` // run the sweep operations instead of the alphabet
	Long  int   `json:"l,omitempty"` // 1-based index of a long history to run instead
}

type seqOpResult struct {
	Op     int    `json:"o"`
	Status string `json:"st"`
	Sig    string `json:"sig,omitempty"`
	Detail string `json:"d,omitempty"`
	Succ   string `json:"k,omitempty"`
	Unspec int    `json:"u,omitempty"`
	Shape  string `json:"sh,omitempty"`
}

type seqTaskResult struct {
	Task seqTask       `json:"t"`
	Res  []seqOpResult `json:"r"`
	Hang int           `json:"hang"` // -1: none; else op index whose execution hung the worker
}

var heartbeat int64

func seqWorker(spec *SeqSpec) {
	redisemu.VInit()
	in := bufio.NewReaderSize(os.Stdin, 1<<20)
	outw := bufio.NewWriterSize(protoOut, 1<<20)
	enc := json.NewEncoder(outw)
	dec := json.NewDecoder(in)
	cur := struct {
		mu   sync.Mutex
		task *seqTask
		op   int
		beat int64
		res  []seqOpResult
	}{}
	// watchdog for pure compute loops that never reach a shim call
	go func() {
		last, lastChange := int64(-1), time.Now()
		for {
			time.Sleep(500 * time.Millisecond)
			cur.mu.Lock()
			b, t, o := cur.beat, cur.task, cur.op
			res := append([]seqOpResult{}, cur.res...)
			cur.mu.Unlock()
			if t == nil || b != last {
				last, lastChange = b, time.Now()
				continue
			}
			if time.Since(lastChange) > 20*time.Second {
				// the main goroutine is stuck inside the implementation
				w := bufio.NewWriter(protoOut)
				json.NewEncoder(w).Encode(seqTaskResult{Task: *t, Res: res, Hang: o})
				w.Flush()
				os.Exit(3)
			}
		}
	}()
	for {
		var t seqTask
		if err := dec.Decode(&t); err != nil {
			if err == io.EOF {
				return
			}
			fmt.Fprintln(os.Stderr, "worker: bad task:", err)
			os.Exit(2)
		}
		ops := spec.Alphabet
		run := spec.Alphabet
		if t.Sweep {
			run = spec.sweepFor(t.Init, t.Path)
		}
		cur.mu.Lock()
		cur.task, cur.res = &t, nil
		cur.mu.Unlock()
		if t.Long > 0 {
			res := runLong(spec, t.Long-1, func() {
				cur.mu.Lock()
				cur.beat++
				cur.mu.Unlock()
			})
			cur.mu.Lock()
			cur.task = nil
			cur.mu.Unlock()
			enc.Encode(seqTaskResult{Task: t, Res: res, Hang: -1})
			outw.Flush()
			continue
		}
		var res []seqOpResult
		for i, op := range run {
			cur.mu.Lock()
			cur.op = i
			cur.beat++
			cur.mu.Unlock()
			o := runTransition(spec, t.Init, t.Path, op, ops)
			r := seqOpResult{Op: i, Status: o.Status, Sig: o.Sig, Detail: o.Detail, Succ: o.Succ, Unspec: o.Unspec, Shape: o.Shape}
			res = append(res, r)
			cur.mu.Lock()
			cur.res = res
			cur.mu.Unlock()
			if o.Status == "pruned-init" || o.Status == "replay-divergence" {
				break
			}
		}
		cur.mu.Lock()
		cur.task = nil
		cur.mu.Unlock()
		enc.Encode(seqTaskResult{Task: t, Res: res, Hang: -1})
		outw.Flush()
	}
}

// ---- parent: BFS --------------------------------------------------------------------------------

type workerProc struct {
	cmd *exec.Cmd
	in  io.WriteCloser
	out *bufio.Reader
}

func startWorker(args ...string) (*workerProc, error) {
	cmd := exec.Command(os.Args[0], args...)
	cmd.Stderr = os.Stderr
	cmd.Env = append(os.Environ(), "GOMAXPROCS=2")
	in, _ := cmd.StdinPipe()
	out, _ := cmd.StdoutPipe()
	if err := cmd.Start(); err != nil {
		return nil, err
	}
	return &workerProc{cmd: cmd, in: in, out: bufio.NewReaderSize(out, 1<<20)}, nil
}

// opTraceFull: human readable trace plus the machine readable operation list (for `mc replay`)
func opTraceFull(spec *SeqSpec, t seqTask, op Op) map[string]any {
	var ops []Op
	if t.Init < len(spec.Inits) {
		ops = append(ops, spec.Inits[t.Init]...)
	}
	for _, i := range t.Path {
		ops = append(ops, spec.Alphabet[i])
	}
	ops = append(ops, op)
	return map[string]any{"trace": opTrace(spec, t, op), "ops": ops}
}

func opTrace(spec *SeqSpec, t seqTask, op Op) []string {
	var tr []string
	if t.Init < len(spec.Inits) {
		for _, o := range spec.Inits[t.Init] {
			tr = append(tr, o.String())
		}
	}
	for _, i := range t.Path {
		tr = append(tr, spec.Alphabet[i].String())
	}
	tr = append(tr, "=> "+op.String())
	return tr
}

func runSeqCheck(spec *SeqSpec, tier string, rep *Report) {
	type stateRec struct {
		init int
		path []int
	}
	nInit := len(spec.Inits)
	if nInit == 0 {
		nInit = 1
	}
	seen := map[string]bool{}
	var frontier []stateRec
	for i := 0; i < nInit; i++ {
		frontier = append(frontier, stateRec{init: i})
	}
	nw := numWorkers()
	tasks := make(chan seqTask, 1024)
	results := make(chan seqTaskResult, 1024)
	var wg sync.WaitGroup
	deadline := time.Now().Add(tierBudget(tier))
	for w := 0; w < nw; w++ {
		wg.Add(1)
		go func() {
			defer wg.Done()
			var wp *workerProc
			for t := range tasks {
				for attempt := 0; ; attempt++ {
					if wp == nil {
						var err error
						wp, err = startWorker("worker", spec.ID, tier)
						if err != nil {
							rep.HarnessErr = append(rep.HarnessErr, "cannot start worker: "+err.Error())
							return
						}
					}
					js, _ := json.Marshal(t)
					wp.in.Write(append(js, '\n'))
					line, err := wp.out.ReadBytes('\n')
					var r seqTaskResult
					if err == nil {
						err = json.Unmarshal(line, &r)
					}
					if err != nil {
						// worker died (fatal error in the implementation: out of memory, concurrent map...)
						wp.cmd.Process.Kill()
						wp.cmd.Wait()
						wp = nil
						if attempt < 1 {
							continue
						}
						r = seqTaskResult{Task: t, Hang: -2}
					} else if r.Hang >= 0 {
						wp.cmd.Wait()
						wp = nil
					}
					results <- r
					break
				}
			}
			if wp != nil {
				wp.in.Close()
				wp.cmd.Wait()
			}
		}()
	}

	states, transitions, unspec, pruned, blockedOK := 0, 0, 0, 0, 0
	shapes := map[string]int{}
	depthDone := -1
	exhaustive := true
	sweepDone := 0
	process := func(level []stateRec, sweep bool) (next []stateRec) {
		go func() {
			for _, s := range level {
				tasks <- seqTask{Init: s.init, Path: s.path, Sweep: sweep}
			}
		}()
		for range level {
			r := <-results
			run := spec.Alphabet
			if sweep {
				run = spec.sweepFor(r.Task.Init, r.Task.Path)
			}
			if r.Hang == -2 {
				rep.HarnessErr = append(rep.HarnessErr, fmt.Sprintf("worker died twice on task %+v", r.Task))
				continue
			}
			for _, or := range r.Res {
				op := run[or.Op]
				transitions++
				if transitions%1511 == 1 && or.Status == "ok" {
					rep.sample(opTrace(spec, r.Task, op))
				}
				if or.Shape != "" {
					shapes[or.Shape]++
				}
				switch or.Status {
				case "ok":
					unspec += or.Unspec
					if sweep {
						continue
					}
					if !seen[or.Succ] {
						seen[or.Succ] = true
						states++
						np := append(append([]int{}, r.Task.Path...), or.Op)
						next = append(next, stateRec{init: r.Task.Init, path: np})
						if states%997 == 1 {
							rep.sample(opTrace(spec, r.Task, op))
						}
					}
				case "ok-blocked":
					blockedOK++
				case "mismatch":
					pruned++
					rep.add(or.Sig, or.Detail, opTraceFull(spec, r.Task, op))
				case "pruned-init":
					rep.add("init|"+firstLine(or.Detail), or.Detail, opTrace(spec, r.Task, op))
				case "replay-divergence":
					rep.HarnessErr = append(rep.HarnessErr, fmt.Sprintf("replay divergence: %s (trace %v)", or.Detail, opTrace(spec, r.Task, op)))
				}
			}
			if r.Hang >= 0 {
				op := run[r.Hang]
				tpl := strings.ToUpper(op.Args[0])
				rep.add(tpl+"|hang(worker watchdog)", fmt.Sprintf("%s: no progress for 20 s inside the implementation", op), opTrace(spec, r.Task, op))
				pruned++
			}
		}
		return
	}

	// long deterministic histories
	longSteps := 0
	if len(spec.Long) > 0 {
		go func() {
			for i := range spec.Long {
				tasks <- seqTask{Long: i + 1}
			}
		}()
		for range spec.Long {
			r := <-results
			hist := spec.Long[r.Task.Long-1]
			for _, or := range r.Res {
				longSteps++
				transitions++
				if or.Status == "mismatch" {
					tr := []string{fmt.Sprintf("long history %d, %d steps, failing at step %d", r.Task.Long-1, len(hist), or.Op)}
					lo := or.Op - 5
					if lo < 0 {
						lo = 0
					}
					for _, o := range hist[lo : or.Op+1] {
						tr = append(tr, o.String())
					}
					rep.add(or.Sig, or.Detail, tr)
				}
			}
			if r.Hang >= 0 || r.Hang == -2 {
				rep.add(fmt.Sprintf("long%d|hang-or-crash", r.Task.Long-1), "worker hung or died in a long history", nil)
			}
		}
	}
	// initial states count as states
	for d := 0; d <= spec.Depth; d++ {
		if len(frontier) == 0 {
			depthDone = spec.Depth
			break
		}
		if time.Now().After(deadline) || (spec.MaxStates > 0 && states > spec.MaxStates) {
			exhaustive = false
			break
		}
		if len(spec.Sweep) > 0 || (d == 0 && len(spec.InitSweep) > 0) {
			process(frontier, true)
			sweepDone += len(frontier)
		}
		if d == spec.Depth {
			depthDone = d
			break
		}
		frontier = process(frontier, false)
		depthDone = d + 1
		fmt.Fprintf(os.Stderr, "[%s] depth %d: states=%d transitions=%d frontier=%d findings=%d\n", spec.ID, d+1, states, transitions, len(frontier), len(rep.findings))
	}
	close(tasks)
	wg.Wait()
	addCov := func(k string, n int) {
		if old, ok := rep.Coverage[k].(int); ok {
			n += old
		}
		rep.Coverage[k] = n
	}
	addCov("states", states+nInit)
	addCov("transitions", transitions)
	addCov("traces_validated_against_impl", transitions)
	addCov("sweep_states", sweepDone)
	addCov("long_history_steps", longSteps)
	addCov("unspecified_steps", unspec)
	addCov("pruned_after_finding", pruned)
	addCov("blocked_outcomes_confirmed", blockedOK)
	addCov("alphabet_size", len(spec.Alphabet))
	addCov("sweep_ops", len(spec.Sweep))
	addCov("init_sweep_ops", len(spec.InitSweep))
	if old, ok := rep.Coverage["depth_completed"].(int); !ok || depthDone < old {
		rep.Coverage["depth_completed"] = depthDone
	}
	if old, ok := rep.Coverage["distinct_reply_shapes"].(map[string]int); ok {
		for k, v := range shapes {
			old[k] += v
		}
	} else {
		rep.Coverage["distinct_reply_shapes"] = shapes
	}
	if old, ok := rep.Coverage["exhaustive"].(bool); ok {
		exhaustive = exhaustive && old
	}
	rep.Coverage["exhaustive"] = exhaustive
	rep.Coverage["rule"] = "BFS over reference-model states; every (state, operation) replayed on a fresh implementation instance and compared on reply and full observable state"
}

func tierBudget(tier string) time.Duration {
	if tier == "thorough" {
		return 25 * time.Minute
	}
	return 100 * time.Second
}
