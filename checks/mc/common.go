package main

import (
	"bufio"
	"crypto/sha1"
	"encoding/hex"
	"encoding/json"
	"fmt"
	"os"
	"path/filepath"
	"sort"
	"strconv"
	"strings"
	"time"
)

var verifRoot = func() string {
	if v := os.Getenv("VERIF_ROOT"); v != "" {
		return v
	}
	return "/verif"
}()

// ---- known findings ---------------------------------------------------------------------------

type knownEntry struct {
	Prop string
	Glob string
	Desc string
	hits int
}

// loadKnown reads KNOWN_FINDINGS.txt: lines "open: property=<id> sig=<glob> <description>".
// "fixed:" lines are documentation only and suppress nothing.
func loadKnown(prop string) []*knownEntry {
	f, err := os.Open(filepath.Join(verifRoot, "KNOWN_FINDINGS.txt"))
	if err != nil {
		return nil
	}
	defer f.Close()
	var out []*knownEntry
	sc := bufio.NewScanner(f)
	sc.Buffer(make([]byte, 1<<20), 1<<20)
	for sc.Scan() {
		line := strings.TrimSpace(sc.Text())
		if !strings.HasPrefix(line, "open:") {
			continue
		}
		rest := strings.TrimSpace(line[5:])
		if !strings.HasPrefix(rest, "property=") {
			continue
		}
		sp := strings.IndexByte(rest, ' ')
		if sp < 0 {
			continue
		}
		p := rest[len("property="):sp]
		rest = strings.TrimSpace(rest[sp:])
		if !strings.HasPrefix(rest, "sig=") || p != prop {
			continue
		}
		rest = rest[4:]
		var glob, desc string
		if strings.HasPrefix(rest, "\"") {
			// quoted signature
			end := strings.Index(rest[1:], "\"")
			if end < 0 {
				continue
			}
			glob, desc = rest[1:1+end], strings.TrimSpace(rest[2+end:])
		} else {
			sp = strings.IndexByte(rest, ' ')
			if sp < 0 {
				glob = rest
			} else {
				glob, desc = rest[:sp], strings.TrimSpace(rest[sp:])
			}
		}
		out = append(out, &knownEntry{Prop: p, Glob: glob, Desc: desc})
	}
	return out
}

// globMatch: '*' matches any run of characters; everything else is literal.
func sigMatch(glob, s string) bool {
	parts := strings.Split(glob, "*")
	if len(parts) == 1 {
		return glob == s
	}
	if !strings.HasPrefix(s, parts[0]) {
		return false
	}
	s = s[len(parts[0]):]
	for i := 1; i < len(parts)-1; i++ {
		j := strings.Index(s, parts[i])
		if j < 0 {
			return false
		}
		s = s[j+len(parts[i]):]
	}
	return strings.HasSuffix(s, parts[len(parts)-1])
}

// ---- findings collected by a run --------------------------------------------------------------

type Finding struct {
	Sig     string `json:"sig"`
	Detail  string `json:"detail"`
	Trace   any    `json:"trace"`
	Count   int    `json:"count"`
	Replay  any    `json:"replay,omitempty"`
}

type Report struct {
	Prop      string
	Tier      string
	Level     string
	Start     time.Time
	findings  map[string]*Finding
	order     []string
	Coverage  map[string]any
	Assume    []string
	Samples   []any
	HarnessErr []string
	// MergePrefix: this run is a companion pass of a check whose main pass has already written
	// the evidence file: its coverage keys get the prefix and are added to the existing file
	MergePrefix string
}

func newReport(prop, tier, level string) *Report {
	return &Report{Prop: prop, Tier: tier, Level: level, Start: time.Now(), findings: map[string]*Finding{}, Coverage: map[string]any{}}
}

func (r *Report) add(sig, detail string, trace any) {
	if f, ok := r.findings[sig]; ok {
		f.Count++
		return
	}
	r.findings[sig] = &Finding{Sig: sig, Detail: detail, Trace: trace, Count: 1}
	r.order = append(r.order, sig)
}

func (r *Report) sample(s any) {
	if len(r.Samples) < 8 {
		r.Samples = append(r.Samples, s)
	}
}

func seedFromEnv() int64 {
	if v := os.Getenv("VERIF_SEED"); v != "" {
		if n, err := strconv.ParseInt(v, 10, 64); err == nil {
			return n
		}
	}
	return 1
}

// finish writes the evidence file, prints KNOWN-FINDING / VIOLATION lines and returns the exit code.
func (r *Report) finish() int {
	known := loadKnown(r.Prop)
	violations := 0
	var vioLines, knownLines []string
	sort.Strings(r.order)
	for _, sig := range r.order {
		f := r.findings[sig]
		var hit *knownEntry
		for _, k := range known {
			if sigMatch(k.Glob, sig) {
				hit = k
				break
			}
		}
		if hit != nil {
			hit.hits += f.Count
			continue
		}
		violations++
		path := r.writeReplay(f)
		vioLines = append(vioLines, fmt.Sprintf("VIOLATION property=%s replay=%s", r.Prop, path))
		fmt.Fprintf(os.Stderr, "  violation %s (%d cases): %s\n", f.Sig, f.Count, f.Detail)
	}
	for _, k := range known {
		if k.hits > 0 {
			knownLines = append(knownLines, fmt.Sprintf("KNOWN-FINDING: property=%s sig=%s %s (%d cases)", r.Prop, k.Glob, k.Desc, k.hits))
		}
	}
	for _, l := range knownLines {
		fmt.Fprintln(protoOut, l)
	}
	for _, l := range vioLines {
		fmt.Fprintln(protoOut, l)
	}
	cov := r.Coverage
	if len(r.Samples) > 0 {
		cov["samples"] = r.Samples
	}
	cov["known_findings_matched"] = len(knownLines)
	if r.MergePrefix != "" {
		return r.finishMerged(violations)
	}
	ev := map[string]any{
		"property_id": r.Prop,
		"tier":        r.Tier,
		"seed":        seedFromEnv(),
		"level":       r.Level,
		"coverage":    cov,
		"assumptions": r.Assume,
		"wall_s":      time.Since(r.Start).Seconds(),
		"violations":  violations,
	}
	js, _ := json.MarshalIndent(ev, "", " ")
	os.MkdirAll(filepath.Join(verifRoot, "evidence"), 0o755)
	os.WriteFile(filepath.Join(verifRoot, "evidence", r.Prop+".json"), js, 0o644)
	if len(r.HarnessErr) > 0 {
		for _, e := range r.HarnessErr {
			fmt.Fprintln(os.Stderr, "HARNESS-ERROR:", e)
		}
		return 2
	}
	if violations > 0 {
		return 1
	}
	return 0
}

// finishMerged adds the companion pass to the evidence file the main pass has written.
func (r *Report) finishMerged(violations int) int {
	path := filepath.Join(verifRoot, "evidence", r.Prop+".json")
	var ev map[string]any
	if data, err := os.ReadFile(path); err != nil || json.Unmarshal(data, &ev) != nil {
		r.HarnessErr = append(r.HarnessErr, "companion pass: the main pass has not written "+path)
		ev = map[string]any{"property_id": r.Prop, "tier": r.Tier, "seed": seedFromEnv(), "level": r.Level, "coverage": map[string]any{}, "violations": 0.0, "wall_s": 0.0}
	}
	cov, _ := ev["coverage"].(map[string]any)
	if cov == nil {
		cov = map[string]any{}
	}
	for k, v := range r.Coverage {
		if k == "samples" {
			continue
		}
		cov[r.MergePrefix+k] = v
	}
	ev["coverage"] = cov
	if v, ok := ev["violations"].(float64); ok {
		ev["violations"] = int(v) + violations
	} else {
		ev["violations"] = violations
	}
	if w, ok := ev["wall_s"].(float64); ok {
		ev["wall_s"] = w + time.Since(r.Start).Seconds()
	}
	if as, ok := ev["assumptions"].([]any); ok {
		for _, a := range r.Assume {
			as = append(as, a)
		}
		ev["assumptions"] = as
	}
	js, _ := json.MarshalIndent(ev, "", " ")
	os.WriteFile(path, js, 0o644)
	if len(r.HarnessErr) > 0 {
		for _, e := range r.HarnessErr {
			fmt.Fprintln(os.Stderr, "HARNESS-ERROR:", e)
		}
		return 2
	}
	if violations > 0 {
		return 1
	}
	return 0
}

func (r *Report) writeReplay(f *Finding) string {
	h := sha1.Sum([]byte(f.Sig))
	dir := filepath.Join(verifRoot, "replays", r.Prop)
	os.MkdirAll(dir, 0o755)
	p := filepath.Join(dir, hex.EncodeToString(h[:6])+".json")
	js, _ := json.MarshalIndent(map[string]any{"property": r.Prop, "signature": f.Sig, "detail": f.Detail, "cases": f.Count, "trace": f.Trace, "replay": f.Replay}, "", " ")
	os.WriteFile(p, js, 0o644)
	return p
}

func numWorkers() int {
	if v := os.Getenv("VERIF_WORKERS"); v != "" {
		if n, err := strconv.Atoi(v); err == nil && n > 0 {
			return n
		}
	}
	return 16
}
