package main

// C17: SCAN / HSCAN / SSCAN. Exhaustive enumeration of iteration histories: a full iteration
// (cursor 0 ... cursor 0) with up to m insertions / deletions placed at every possible position
// between the calls, over collections whose element names are chosen (with the dictionary's own
// hash function) to make the bucket table double and halve in the middle of the iteration.

import (
	"bufio"
	"encoding/json"
	"fmt"
	"io"
	"os"
	"sort"
	"strings"
	"sync"
	"time"

	redisemu "github.com/jimsnab/go-redisemu"
	vm "github.com/jimsnab/go-redisemu/verifmodel"
	"github.com/jimsnab/go-redisemu/verifrt"
)

type scanMut struct {
	Add  bool
	Name string
}

type scanScenario struct {
	Name     string
	Kind     string   // scan | hscan | sscan
	Initial  []string // elements present when the iteration starts
	Prep     [][]string
	Pool     []scanMut // mutations that may be applied between calls
	Counts   []int
	Match    string // optional MATCH pattern
	MaxMut   int
	MaxSteps int // positions at which a mutation may be placed
	// TypeArg: SCAN ... TYPE <TypeArg> (keyspace only); the keys of the scenario are strings
	TypeArg string
	// Via: the collection is not the one the single-element commands built but what a copying command
	// made of it before the iteration starts (its table is built by different code)
	Via string
}

// scanVia replaces the collection by a copy of itself made by the named command.
func scanVia(kind, via string, do func(args ...string) vm.Reply) bool {
	k := scanKey()
	switch {
	case kind == "sscan" && via == "SUNIONSTORE":
		do("SUNIONSTORE", k, k)
	case kind == "sscan" && via == "SUNIONSTORE2":
		do("SUNIONSTORE", k, k, "nokey")
	case kind == "sscan" && via == "SDIFFSTORE":
		do("SDIFFSTORE", k, k, "nokey")
	case kind == "sscan" && via == "SINTERSTORE":
		do("SINTERSTORE", k, k, k)
	case kind != "scan" && via == "COPY":
		do("COPY", k, "copy-of-coll")
		do("DEL", k)
		do("RENAME", "copy-of-coll", k)
	case kind != "scan" && via == "RENAME":
		do("RENAME", k, "renamed-coll")
		do("RENAME", "renamed-coll", k)
	default:
		return false
	}
	return true
}

type scanPlan struct {
	Count int
	Muts  []struct {
		At  int
		Mut scanMut
	}
}

// lowBitsNames finds names with chosen low hash bits.
func nameWith(prefix string, bits uint, pattern uint64, skip int) string {
	mask := uint64(1)<<bits - 1
	for i := 0; i < 10000000; i++ {
		n := prefix + itoa(i)
		if redisemu.VHash(n)&mask == pattern&mask {
			if skip == 0 {
				return n
			}
			skip--
		}
	}
	panic("no name found")
}

func scanScenarios(tier string) []scanScenario {
	thorough := tier == "thorough"
	var out []scanScenario
	kinds := []string{"sscan", "hscan", "scan"}
	for _, kind := range kinds {
		// --- G: the table doubles (16 -> 32 -> 64) while the iteration is under way
		var init []string
		for p := uint64(0); p < 16; p += 3 { // 6 elements, distinct low-4-bit patterns
			init = append(init, nameWith("e", 4, p, 0))
		}
		pat0 := redisemu.VHash(init[0]) & 31
		pat3 := redisemu.VHash(init[3]) & 63
		g := scanScenario{Name: kind + "/grow", Kind: kind, Initial: init, Counts: []int{1, 2, 3, 6, 7}, MaxMut: 2, MaxSteps: 9}
		g.Pool = []scanMut{
			{true, nameWith("g", 5, pat0^16, 0)},      // collides with init[0] in the low 4 bits -> 32 buckets
			{true, nameWith("h", 6, pat3^32, 0)},      // collides with init[3] in the low 5 bits -> 64 buckets
			{true, nameWith("i", 4, 1, 0)},            // lands in a fresh bucket, no resize
			{false, init[1]}, {false, init[4]}, {false, init[0]}, {false, "*"},
		}
		if kind == "scan" {
			g.Pool = append(g.Pool, scanMut{false, "!" + init[2]})
		}
		if thorough {
			g.MaxMut = 3
			g.Counts = []int{1, 2, 3, 5, 6, 7, 10}
		}
		out = append(out, g)

		// --- S: the table halves (64 -> 32 -> 16) while the iteration is under way
		a := nameWith("a", 6, 5, 0)
		b := nameWith("b", 6, 5|32, 0)  // collides with a in the low 5 bits -> 64 buckets
		c2 := nameWith("c", 6, 9, 0)
		d := nameWith("d", 6, 9|16, 0)  // collides with c in the low 4 bits (needs 32)
		others := []string{nameWith("o", 6, 2, 0), nameWith("o", 6, 60, 0), nameWith("o", 6, 23, 0), nameWith("o", 6, 46, 0)}
		tmp := nameWith("t", 6, 51, 0)
		sInit := append([]string{a, c2, d}, others...)
		s := scanScenario{Name: kind + "/shrink", Kind: kind, Counts: []int{1, 2, 3, 8}, MaxMut: 2, MaxSteps: 10}
		// build: all elements incl. b (table 64), then churn a temporary element 32 times so that the
		// next successful removal runs the shrink check
		s.Initial = append(append([]string{}, sInit...), b)
		for i := 0; i < 32; i++ {
			s.Prep = append(s.Prep, []string{"add", tmp}, []string{"rem", tmp})
		}
		s.Pool = []scanMut{
			{false, b},  // removal runs the check: 64 -> 32 (c,d still need 32)
			{false, d},  // a later removal can take it to 16
			{false, others[0]}, {true, b}, {true, nameWith("x", 6, 33, 0)}, {false, "*"},
		}
		if kind == "scan" {
			s.Pool = append(s.Pool, scanMut{false, "!" + b}, scanMut{false, "!" + d})
		}
		if thorough {
			s.MaxMut = 3
		}
		out = append(out, s)

		// --- plain iterations over many sizes (all COUNT values), with at most one mutation
		for _, n := range []int{0, 1, 2, 5, 15, 16, 17, 33, 70} {
			if !thorough && n > 33 {
				continue
			}
			var els []string
			for i := 0; i < n; i++ {
				els = append(els, "m"+itoa(i))
			}
			p := scanScenario{Name: fmt.Sprintf("%s/size%d", kind, n), Kind: kind, Initial: els, MaxMut: 1, MaxSteps: 6}
			p.Counts = []int{1, 2, 3, n, n + 1, 10, 1 << 31, 1 << 32, 1000000000000000000, 9223372036854775807}
			if n == 0 {
				p.Counts = []int{1, 10}
			}
			p.Pool = []scanMut{{true, "z1"}, {true, "z2"}}
			if n > 0 {
				p.Pool = append(p.Pool, scanMut{false, els[0]}, scanMut{false, els[n/2]}, scanMut{false, "*"})
			}
			if n >= 15 {
				p.Pool = append(p.Pool, scanMut{false, "*3"}, scanMut{false, "*8"})
			}
			if !thorough && n > 17 {
				p.MaxMut = 1
				p.Pool = []scanMut{{false, "*"}, {false, "*3"}, {false, "*8"}}
			}
			out = append(out, p)
			if kind != "scan" && (n == 5 || n == 17 || n == 33) {
				vias := []string{"COPY", "RENAME"}
				if kind == "sscan" {
					vias = append(vias, "SUNIONSTORE", "SUNIONSTORE2", "SDIFFSTORE", "SINTERSTORE")
				}
				for _, via := range vias {
					pv := p
					pv.Name += "/via-" + via
					pv.Via = via
					pv.MaxMut = 1
					pv.Pool = []scanMut{{true, "z1"}, {false, els[n/2]}, {false, "=" + via}}
					out = append(out, pv)
				}
				// ... and replaced by a copy in the middle of an iteration over the original
				pr := p
				pr.Name += "/replaced-by-copy"
				pr.MaxMut = 1
				pr.Pool = nil
				for _, via := range vias {
					pr.Pool = append(pr.Pool, scanMut{false, "=" + via})
				}
				out = append(out, pr)
			}
			if n >= 5 && n <= 17 {
				pm := p
				pm.Name += "/match"
				pm.Match = "m1*"
				pm.MaxMut = 1
				out = append(out, pm)
			}
		}
		// --- SCAN ... TYPE in every spelling of the type names
		if kind == "scan" {
			var els []string
			for i := 0; i < 20; i++ {
				els = append(els, "t"+itoa(i))
			}
			for _, ty := range []string{"string", "STRING", "String", "sTrInG", "hash", "HASH", "list", "Set", "zset", "nosuchtype", ""} {
				if ty == "" {
					continue
				}
				e := scanScenario{Name: "scan/type-" + ty, Kind: kind, Initial: els, TypeArg: ty, Counts: []int{1, 7, 100}, MaxMut: 1, MaxSteps: 3}
				e.Pool = []scanMut{{true, "z1"}, {false, "t3"}}
				out = append(out, e)
			}
		}
		// --- MATCH patterns with escapes, against element names that contain the special characters themselves
		// (a seeded change of wave 6 looked "literal" patterns up directly and forgot what a backslash means)
		special := []string{"a\\b", "ab", "abc", "ab\\", "a*b", "a?b", "[ab]", "a", "b", "\\", "*", "a\\bc", "axb"}
		for pi, pat := range []string{"a\\\\b", "a\\b", "ab\\", "a\\*b", "a\\?b", "\\[ab\\]", "ab", "a\\bc", "\\\\", "\\*", "a", "nomatch", "a[\\\\]b", "a\\\\*"} {
			e := scanScenario{Name: fmt.Sprintf("%s/escapes%d", kind, pi), Kind: kind, Initial: special, Match: pat, Counts: []int{1, 3, 100}, MaxMut: 1, MaxSteps: 3}
			e.Pool = []scanMut{{true, "z1"}, {false, "ab"}}
			out = append(out, e)
		}
	}
	return out
}

// plans enumerates every placement of <= MaxMut mutations at positions 1..MaxSteps (position p:
// after the p-th call), in non-decreasing position order, for every COUNT value.
func (sc *scanScenario) plans() []scanPlan {
	var out []scanPlan
	type pm struct {
		At  int
		Mut scanMut
	}
	var rec func(cur []pm, minAt int, count int)
	for _, cnt := range sc.Counts {
		count := cnt
		if count < 1 {
			count = 1
		}
		rec = func(cur []pm, minAt int, count int) {
			pl := scanPlan{Count: count}
			for _, x := range cur {
				pl.Muts = append(pl.Muts, struct {
					At  int
					Mut scanMut
				}{x.At, x.Mut})
			}
			out = append(out, pl)
			if len(cur) >= sc.MaxMut {
				return
			}
			for at := minAt; at <= sc.MaxSteps; at++ {
				for _, m := range sc.Pool {
					rec(append(append([]pm{}, cur...), pm{at, m}), at, count)
				}
			}
		}
		rec(nil, 1, count)
	}
	return out
}

type scanResult struct {
	Status  string   `json:"st"` // ok | skip | violation
	Sig     string   `json:"sig,omitempty"`
	Detail  string   `json:"d,omitempty"`
	Trace   []string `json:"tr,omitempty"`
	Cmds    int      `json:"c"`
	Calls   int      `json:"n"`
	StateKs []string `json:"k,omitempty"`
	Resized bool     `json:"rz,omitempty"`
}

func scanKey() string { return "coll" }

// runScanPlan executes one history on a fresh instance.
func runScanPlan(sc *scanScenario, pl scanPlan) (res scanResult) {
	redisemu.VResetGlobals()
	var trace []string
	present := map[string]bool{}
	always := map[string]bool{}
	ever := map[string]bool{}
	returned := map[string]bool{}
	done := false
	sched := verifrt.NewSched(nil)
	sched.Horizon = 50000000
	sched.Run(func() {
		vi := redisemu.VNew("")
		cl := vi.NewClient()
		do := func(args ...string) vm.Reply {
			res.Cmds++
			r, err := vm.Parse1(cl.Do(args...))
			if err != nil {
				r = vm.Err("PARSE " + err.Error())
			}
			trace = append(trace, strings.Join(args, " ")+" => "+r.String())
			if len(trace) > 400 {
				trace = trace[len(trace)-400:]
			}
			return r
		}
		add := func(n string) {
			switch sc.Kind {
			case "sscan":
				do("SADD", scanKey(), n)
			case "hscan":
				do("HSET", scanKey(), n, "v-"+n)
			default:
				do("SET", n, "1")
			}
			present[n] = true
			ever[n] = true
		}
		rem := func(n string) {
			switch sc.Kind {
			case "sscan":
				do("SREM", scanKey(), n)
			case "hscan":
				do("HDEL", scanKey(), n)
			default:
				do("DEL", n)
			}
			delete(present, n)
			delete(always, n)
		}
		for _, n := range sc.Initial {
			add(n)
		}
		for _, p := range sc.Prep {
			if p[0] == "add" {
				add(p[1])
			} else {
				rem(p[1])
			}
		}
		if sc.Via != "" && len(present) > 0 && !scanVia(sc.Kind, sc.Via, do) {
			res = scanResult{Status: "skip"}
			done = true
			return
		}
		// the iteration starts here
		ever = map[string]bool{}
		for n := range present {
			always[n] = true
			ever[n] = true
		}
		matches := func(n string) bool {
			// type names are compared without regard to case; every key of a keyspace scenario is a string
			if sc.TypeArg != "" && !strings.EqualFold(sc.TypeArg, "string") {
				return false
			}
			return sc.Match == "" || vm.GlobMatch(sc.Match, n)
		}
		cursor := "0"
		calls := 0
		mi := 0
		lastMutCall := 0
		stateKeys := map[string]bool{}
		lastSize := 0
		for {
			var r vm.Reply
			args := []string{}
			switch sc.Kind {
			case "sscan":
				args = []string{"SSCAN", scanKey(), cursor}
			case "hscan":
				args = []string{"HSCAN", scanKey(), cursor}
			default:
				args = []string{"SCAN", cursor}
			}
			if sc.Match != "" {
				args = append(args, "MATCH", sc.Match)
			}
			if sc.TypeArg != "" {
				args = append(args, "TYPE", sc.TypeArg)
			}
			args = append(args, "COUNT", itoa(pl.Count))
			r = do(args...)
			calls++
			if r.K != vm.KArray || len(r.A) != 2 || r.A[0].K != vm.KBulk || r.A[1].K != vm.KArray {
				res = scanResult{Status: "violation", Sig: sc.Kind + "|malformed-reply", Detail: "scan reply is not [cursor, [elements]]: " + r.String()}
				done = true
				return
			}
			els := r.A[1].A
			if sc.Kind == "hscan" {
				if len(els)%2 != 0 {
					res = scanResult{Status: "violation", Sig: "hscan|odd-pairs", Detail: "HSCAN returned an odd number of entries"}
					done = true
					return
				}
				var f []vm.Reply
				for i := 0; i < len(els); i += 2 {
					if els[i+1].S != "v-"+els[i].S {
						res = scanResult{Status: "violation", Sig: "hscan|wrong-value", Detail: fmt.Sprintf("HSCAN field %q carries value %q", els[i].S, els[i+1].S)}
						done = true
						return
					}
					f = append(f, els[i])
				}
				els = f
			}
			for _, e := range els {
				returned[e.S] = true
				if !ever[e.S] {
					res = scanResult{Status: "violation", Sig: sc.Kind + "|invented-element", Detail: fmt.Sprintf("returned %q which was never present during the iteration", e.S)}
					done = true
					return
				}
				if !matches(e.S) {
					res = scanResult{Status: "violation", Sig: sc.Kind + "|match-ignored", Detail: fmt.Sprintf("returned %q which does not match %q", e.S, sc.Match)}
					done = true
					return
				}
			}
			cursor = r.A[0].S
			if redisemu.VDeepTableSize != nil {
				k := scanKey()
				if sc.Kind == "scan" {
					k = ""
				}
				sz := redisemu.VDeepTableSize(vi, 0, k)
				if lastSize != 0 && sz != lastSize {
					res.Resized = true
				}
				lastSize = sz
			}
			ps := make([]string, 0, len(present))
			for n := range present {
				ps = append(ps, n)
			}
			sort.Strings(ps)
			stateKeys[cursor+"|"+strings.Join(ps, ",")] = true
			if cursor == "0" {
				break
			}
			// mutations scheduled after this call
			for mi < len(pl.Muts) && pl.Muts[mi].At == calls {
				m := pl.Muts[mi].Mut
				if len(m.Name) > 1 && m.Name[0] == '*' {
					// remove all but the first k elements (in name order): the collection falls below any
					// small-collection threshold while an iteration is open
					keep := 0
					fmt.Sscanf(m.Name[1:], "%d", &keep)
					var all []string
					for n := range present {
						all = append(all, n)
					}
					sort.Strings(all)
					if len(all) <= keep {
						res = scanResult{Status: "skip"}
						done = true
						return
					}
					for _, n := range all[keep:] {
						rem(n)
					}
					lastMutCall = calls
					mi++
					continue
				}
				if m.Name == "*" {
					// remove everything: the collection is empty (hash / set: the key is gone) while an
					// iteration is open
					if len(present) == 0 {
						res = scanResult{Status: "skip"}
						done = true
						return
					}
					var all []string
					for n := range present {
						all = append(all, n)
					}
					sort.Strings(all)
					for _, n := range all {
						rem(n)
					}
					lastMutCall = calls
					mi++
					continue
				}
				if strings.HasPrefix(m.Name, "=") {
					// the collection is replaced by a copy of itself (same elements, a table built by the
					// copying command) while the iteration is open
					if len(present) == 0 || !scanVia(sc.Kind, m.Name[1:], do) {
						res = scanResult{Status: "skip"}
						done = true
						return
					}
					lastMutCall = calls
					mi++
					continue
				}
				if strings.HasPrefix(m.Name, "!") {
					// the key's deadline passes while the iteration is open: it stays in the table until
					// something reclaims it (keyspace SCAN only; a hash or set expires as a whole)
					n := m.Name[1:]
					if sc.Kind != "scan" || !present[n] {
						res = scanResult{Status: "skip"}
						done = true
						return
					}
					do("PEXPIRE", n, "1")
					verifrt.Advance(5 * time.Millisecond)
					delete(present, n)
					delete(always, n)
					lastMutCall = calls
					mi++
					continue
				}
				if m.Add == present[m.Name] {
					res = scanResult{Status: "skip"} // not applicable in this history
					done = true
					return
				}
				if m.Add {
					add(m.Name)
				} else {
					rem(m.Name)
				}
				lastMutCall = calls
				mi++
			}
			if calls-lastMutCall > 600 {
				res = scanResult{Status: "violation", Sig: sc.Kind + "|no-termination", Detail: fmt.Sprintf("the iteration did not return to cursor 0 within 600 calls after the last change (cursor %s)", cursor)}
				done = true
				return
			}
		}
		if mi < len(pl.Muts) {
			res = scanResult{Status: "skip"} // the iteration ended before all planned mutations
			done = true
			return
		}
		var missing []string
		for n := range always {
			if matches(n) && !returned[n] {
				missing = append(missing, n)
			}
		}
		sort.Strings(missing)
		res.Calls = calls
		for k := range stateKeys {
			res.StateKs = append(res.StateKs, k)
		}
		if len(missing) > 0 {
			res.Status = "violation"
			res.Sig = sc.Kind + "|missed-stable-element"
			res.Detail = fmt.Sprintf("elements present during the whole iteration were never returned: %v", missing)
			done = true
			return
		}
		res.Status = "ok"
		done = true
	})
	if !done {
		res.Status = "violation"
		res.Sig = sc.Kind + "|" + sched.Term.String()
		res.Detail = fmt.Sprintf("execution ended with %s: %v", sched.Term, firstLine(fmt.Sprint(sched.PanicVal)))
		if sched.Term == verifrt.TermPanic {
			res.Sig += "@" + panicSite(sched.PanicStk)
		}
	}
	if res.Status == "violation" {
		res.Trace = trace
	}
	return
}

type scanTask struct {
	Scenario int `json:"s"`
	From     int `json:"f"`
	To       int `json:"t"`
}

type scanTaskResult struct {
	Task    scanTask     `json:"t"`
	OK      int          `json:"ok"`
	Skip    int          `json:"skip"`
	Cmds    int          `json:"cmds"`
	Calls   int          `json:"calls"`
	States  []string     `json:"states"`
	Viol    []scanResult `json:"v"`
	Resized int          `json:"rz"`
	VPlans  []int        `json:"vp"`
}

func scanWorker(tier string) {
	redisemu.VInit()
	scs := scanScenarios(tier)
	plans := make([][]scanPlan, len(scs))
	dec := json.NewDecoder(bufio.NewReaderSize(os.Stdin, 1<<20))
	w := bufio.NewWriterSize(protoOut, 1<<20)
	enc := json.NewEncoder(w)
	for {
		var t scanTask
		if err := dec.Decode(&t); err != nil {
			if err == io.EOF {
				return
			}
			os.Exit(2)
		}
		if plans[t.Scenario] == nil {
			plans[t.Scenario] = scs[t.Scenario].plans()
		}
		out := scanTaskResult{Task: t}
		st := map[string]bool{}
		for i := t.From; i < t.To; i++ {
			r := runScanPlan(&scs[t.Scenario], plans[t.Scenario][i])
			out.Cmds += r.Cmds
			switch r.Status {
			case "ok":
				out.OK++
				if r.Resized {
					out.Resized++
				}
				out.Calls += r.Calls
				for _, k := range r.StateKs {
					st[k] = true
				}
			case "skip":
				out.Skip++
			default:
				if len(out.Viol) < 5 {
					out.Viol = append(out.Viol, r)
					out.VPlans = append(out.VPlans, i)
				}
			}
		}
		for k := range st {
			out.States = append(out.States, k)
		}
		enc.Encode(out)
		w.Flush()
	}
}

func runScanCheck(tier string, rep *Report) { runScanCheckSel(tier, rep, "", "") }

// runScanCheckSel: the iteration histories whose scenario name starts with sel; with a key prefix
// the coverage is recorded under prefixed keys (the histories of HSCAN are also part of C04's
// check, those of SSCAN of C05's, those of SCAN of C06's: the properties of the families include
// the family's iterator)
func runScanCheckSel(tier string, rep *Report, sel, keyPrefix string) {
	scs := scanScenarios(tier)
	type job struct{ t scanTask }
	var jobs []scanTask
	total := 0
	for si := range scs {
		if !strings.HasPrefix(scs[si].Name, sel) {
			continue
		}
		n := len(scs[si].plans())
		total += n
		chunk := 400
		for f := 0; f < n; f += chunk {
			to := f + chunk
			if to > n {
				to = n
			}
			jobs = append(jobs, scanTask{Scenario: si, From: f, To: to})
		}
	}
	tasks := make(chan scanTask, len(jobs))
	results := make(chan scanTaskResult, len(jobs))
	for _, j := range jobs {
		tasks <- j
	}
	close(tasks)
	var wg sync.WaitGroup
	deadline := time.Now().Add(tierBudget(tier))
	expired := false
	for w := 0; w < numWorkers(); w++ {
		wg.Add(1)
		go func() {
			defer wg.Done()
			wp, err := startWorker("scanworker", tier)
			if err != nil {
				rep.HarnessErr = append(rep.HarnessErr, err.Error())
				return
			}
			for t := range tasks {
				if time.Now().After(deadline) {
					expired = true
					continue
				}
				js, _ := json.Marshal(t)
				wp.in.Write(append(js, '\n'))
				line, err := wp.out.ReadBytes('\n')
				var r scanTaskResult
				if err == nil {
					err = json.Unmarshal(line, &r)
				}
				if err != nil {
					rep.HarnessErr = append(rep.HarnessErr, fmt.Sprintf("scan worker died on %+v", t))
					wp.cmd.Process.Kill()
					wp.cmd.Wait()
					wp, _ = startWorker("scanworker", tier)
					continue
				}
				results <- r
			}
			wp.in.Close()
			wp.cmd.Wait()
		}()
	}
	go func() { wg.Wait(); close(results) }()
	states := map[string]bool{}
	ok, skip, cmds, calls, resized := 0, 0, 0, 0, 0
	perScenario := map[string]int{}
	for r := range results {
		ok += r.OK
		skip += r.Skip
		cmds += r.Cmds
		calls += r.Calls
		resized += r.Resized
		perScenario[scs[r.Task.Scenario].Name] += r.OK
		for _, k := range r.States {
			states[fmt.Sprintf("%d|%s", r.Task.Scenario, k)] = true
		}
		for i, v := range r.Viol {
			sc := scs[r.Task.Scenario]
			rep.add(sc.Name+"|"+v.Sig, v.Detail, map[string]any{"scenario": sc.Name, "plan_index": r.VPlans[i], "trace": v.Trace})
		}
	}
	if keyPrefix != "" {
		rep.Coverage[keyPrefix+"states"] = len(states)
		rep.Coverage[keyPrefix+"commands"] = cmds
		rep.Coverage[keyPrefix+"histories_planned"] = total
		rep.Coverage[keyPrefix+"histories_completed"] = ok
		rep.Coverage[keyPrefix+"histories_with_table_resize_mid_iteration"] = resized
		rep.Coverage[keyPrefix+"per_scenario_histories"] = perScenario
		if expired {
			rep.Coverage["exhaustive"] = false
		}
		if n, isInt := rep.Coverage["traces_validated_against_impl"].(int); isInt {
			rep.Coverage["traces_validated_against_impl"] = n + ok
		}
		return
	}
	rep.Coverage["states"] = len(states)
	rep.Coverage["transitions"] = cmds
	rep.Coverage["traces_validated_against_impl"] = ok
	rep.Coverage["histories_planned"] = total
	rep.Coverage["histories_completed"] = ok
	rep.Coverage["histories_not_applicable"] = skip
	rep.Coverage["scan_calls"] = calls
	rep.Coverage["histories_with_table_resize_mid_iteration"] = resized
	rep.Coverage["per_scenario_histories"] = perScenario
	rep.Coverage["exhaustive"] = !expired
	rep.Coverage["rule"] = "every placement of <= m add/remove operations between the calls of a full iteration, for every COUNT value and scenario; a state is (scenario, cursor, set of present elements)"
	for i := 0; i < len(scs) && i < 4; i++ {
		pl := scs[i].plans()
		rep.sample(map[string]any{"scenario": scs[i].Name, "initial": scs[i].Initial, "example_plan": pl[len(pl)/2]})
	}
}
