package main

import (
	"strings"

	redisemu "github.com/jimsnab/go-redisemu"
)

// ---- C05: sets ------------------------------------------------------------------------------

func specC05(tier string) *SeqSpec {
	s := &SeqSpec{ID: "C05", Sessions: 1, Keys: []string{"k1", "k2", "k3", "w1"}, DBs: []int{0}}
	members := []string{"1", "2", "3"}
	keys := []string{"k1", "k2", "k3"}
	// every family of three subsets of {1,2,3} is an initial state
	for mask := 0; mask < 512; mask++ {
		init := []Op{c("SET", "w1", "v")}
		for ki, k := range keys {
			var ms []string
			for mi, m := range members {
				if mask&(1<<(ki*3+mi)) != 0 {
					ms = append(ms, m)
				}
			}
			if len(ms) > 0 {
				init = append(init, Op{Args: append([]string{"SADD", k}, ms...)})
			}
		}
		s.Inits = append(s.Inits, init)
	}
	var A []Op
	for _, k := range keys {
		for _, m := range members {
			A = append(A, c("SADD", k, m), c("SREM", k, m))
		}
	}
	A = append(A, c("SADD", "k1", "1", "2"), c("SADD", "k2", "2", "3", "2"), c("SADD", "k1", "1", "2", "3"), c("SREM", "k1", "1", "2", "3"), c("SREM", "k2", "3", "3", "4"), c("DEL", "k1"))
	for _, src := range keys {
		for _, dst := range keys {
			for _, m := range members {
				A = append(A, c("SMOVE", src, dst, m))
			}
		}
	}
	pairs := [][]string{{"k1", "k2"}, {"k2", "k1"}, {"k1", "k1"}, {"k1", "nokey"}, {"nokey", "k1"}, {"k2", "k3"}, {"k1"}, {"nokey"}, {"k1", "k2", "k3"}, {"k3", "k2", "k1"}, {"k1", "k2", "k1"}}
	for _, cmd := range []string{"SINTERSTORE", "SUNIONSTORE", "SDIFFSTORE"} {
		for _, dst := range keys {
			for _, p := range pairs {
				A = append(A, Op{Args: append([]string{cmd, dst}, p...)})
			}
		}
		A = append(A, c(cmd, "w1", "k1", "k2"), c(cmd, "newkey", "k1", "k2"))
	}
	s.Alphabet = A
	var S []Op
	operands := []string{"k1", "k2", "k3", "nokey"}
	for _, cmd := range []string{"SINTER", "SUNION", "SDIFF"} {
		for _, a := range operands {
			S = append(S, c(cmd, a))
			for _, b := range operands {
				S = append(S, c(cmd, a, b))
				for _, d := range operands {
					if tier == "thorough" || (a != d) {
						S = append(S, c(cmd, a, b, d))
					}
				}
			}
		}
		S = append(S, c(cmd, "w1"), c(cmd, "k1", "w1"), c(cmd, "w1", "k1"), c(cmd, "nokey", "w1"), c(cmd, "k1", "nokey", "w1"))
		S = append(S, c(cmd+"STORE", "k1", "w1"), c(cmd+"STORE", "k1", "k2", "w1"), c(cmd+"STORE", "k1", "nokey", "w1"))
	}
	for _, lim := range []string{"", "0", "1", "2", "5"} {
		for _, ks := range [][]string{{"1", "k1"}, {"2", "k1", "k2"}, {"3", "k1", "k2", "k3"}, {"2", "k1", "k1"}, {"2", "k1", "nokey"}, {"1", "nokey"}} {
			a := append([]string{"SINTERCARD"}, ks...)
			if lim != "" {
				a = append(a, "LIMIT", lim)
			}
			S = append(S, Op{Args: a})
		}
	}
	S = append(S, c("SINTERCARD", "0", "k1"), c("SINTERCARD", "2", "k1"), c("SINTERCARD", "1", "k1", "k2"), c("SINTERCARD", "1", "k1", "LIMIT", "-1"), c("SINTERCARD", "1", "w1"), c("SINTERCARD", "2", "k1", "w1"))
	for _, k := range []string{"k1", "k2", "nokey", "w1"} {
		S = append(S, c("SCARD", k), c("SMEMBERS", k), c("SISMEMBER", k, "1"), c("SISMEMBER", k, "4"), c("SMISMEMBER", k, "1", "2", "4"), c("SRANDMEMBER", k))
		for _, n := range []string{"0", "1", "2", "5", "-1", "-2", "-5"} {
			S = append(S, c("SRANDMEMBER", k, n))
		}
	}
	S = append(S, c("SADD", "w1", "1"), c("SREM", "w1", "1"), c("SMOVE", "w1", "k1", "1"), c("SMOVE", "k1", "w1", "1"), c("SMOVE", "k1", "w1", "4"), c("SMOVE", "nokey", "w1", "1"), c("SMOVE", "nokey", "k1", "1"), c("SMOVE", "k1", "newkey", "1"), c("SMOVE", "k1", "k2", "4"))
	s.Sweep = S
	// read; change; [change;] reads (see staleSweep) from every 16th family of subsets
	{
		reads := []Op{c("SISMEMBER", "k1", "1"), c("SISMEMBER", "k1", "2"), c("SMISMEMBER", "k1", "1", "3"), c("SCARD", "k1"), c("SMEMBERS", "k1"), c("SINTER", "k1", "k2"), c("SCARD", "k2")}
		changes := []Op{c("SADD", "k1", "1"), c("SADD", "k1", "2", "3"), c("SREM", "k1", "1"), c("SREM", "k1", "2", "3"), c("SADD", "k2", "1"), c("SREM", "k2", "2"), c("SMOVE", "k1", "k2", "1"), c("SMOVE", "k2", "k1", "2"), c("SPOP", "k1", "5"), c("DEL", "k1"),
			c("SINTERSTORE", "k1", "k1", "k2"), c("SUNIONSTORE", "k1", "k2", "k3"), c("SDIFFSTORE", "k1", "k1", "k3"), c("SUNIONSTORE", "k2", "k1"), c("RENAME", "k2", "k1"), c("COPY", "k3", "k1", "REPLACE")}
		s.InitSweep = staleSweep(reads, changes)
		s.InitSweepEvery = 16
		// members that look like integers in spellings that are different byte strings ("007" is not "7")
		nums := []string{"007", "12", "+5", "-0", "00", "7", "0", "5", "1e1", "10", " 7", "7.0", "-7", "9223372036854775807", "9223372036854775808"}
		for n := 2; n <= len(nums); n += 3 {
			add := append([]string{"SADD", "k1"}, nums[:n]...)
			s.InitSweep = append(s.InitSweep, Op{Args: []string{"DEL", "k1", "k2"}, Then: []Op{{Args: add}, c("SMEMBERS", "k1"), c("SCARD", "k1"), c("SISMEMBER", "k1", "7"), c("SISMEMBER", "k1", "007"), c("SMISMEMBER", "k1", "0", "-0", "00", "+5", "5"),
				c("SADD", "k2", "7", "5", "0"), c("SINTER", "k1", "k2"), c("SDIFF", "k1", "k2"), c("SUNION", "k2", "k1"), c("SUNIONSTORE", "k3", "k1"), c("SMEMBERS", "k3"), c("SREM", "k1", "7", "+5"), c("SMEMBERS", "k1"), c("SSCAN", "k1", "0", "COUNT", "100")}})
		}
	}
	s.Depth = 1
	if tier == "thorough" {
		s.Depth = 2
	}
	s.Long = dictHistories("SADD", "SREM", "k1", false, tier)
	// the same fill / drain histories with the algebra commands asked along the way: the operand has
	// a table that has grown and carries a removal history (a worker that removes while it iterates
	// would shrink the table under its own feet)
	hs := dictHistories("SADD", "SREM", "k1", false, tier)
	for hi, h := range hs {
		var g []Op
		// the second operand: a third of the fill names, every name of the churn histories that is not a
		// temporary one (so that what survives in k1 is common to both), and enough others to be the larger set
		other := []string{"SADD", "k2"}
		for i := 0; i < 200; i += 3 {
			other = append(other, "f"+itoa(i))
		}
		seen := map[string]bool{}
		for _, o := range h {
			if n := o.Args[len(o.Args)-1]; o.Args[0] == "SADD" && !seen[n] && (n[0] == 'a' || n[0] == 'b' || n[0] == 'c') {
				seen[n] = true
				other = append(other, n)
			}
		}
		for i := 0; i < 40; i++ {
			other = append(other, "zz"+itoa(i))
		}
		g = append(g, Op{Args: other})
		every := 9
		if hi >= len(hs)-6 {
			every = 1 // the churn histories: every state of the removal counter is a starting point
		}
		for i, o := range h {
			g = append(g, o)
			if i%every == every-1 {
				g = append(g, c("SDIFF", "k1", "k2"), c("SINTER", "k1", "k2"), c("SDIFF", "k2", "k1"), c("SDIFFSTORE", "k3", "k1", "k2"), c("SINTERSTORE", "k3", "k2", "k1"), c("SUNIONSTORE", "k3", "k1", "k2"), c("SINTERCARD", "2", "k1", "k2"))
			}
		}
		s.Long = append(s.Long, g)
	}
	return s
}

// ---- C04: hashes ------------------------------------------------------------------------------

func specC04(tier string) *SeqSpec {
	s := &SeqSpec{ID: "C04", Sessions: 1, Keys: []string{"h1", "h2", "w1"}, DBs: []int{0}}
	s.Inits = [][]Op{
		{c("SET", "w1", "v")},
		{c("SET", "w1", "v"), c("HSET", "h1", "f", "5", "g", "x")},
		{c("SET", "w1", "v"), c("HSET", "h1", "f", "-5", "g", "9223372036854775807", "n", "-9223372036854775808"), c("HSET", "h2", "f", "1.5")},
	}
	fields := []string{"f", "g", "n"}
	vals := []string{"x", "5", "-5", "9223372036854775807", "-9223372036854775808", "abc", "1.5", ""}
	var A []Op
	for _, f := range fields[:2] {
		for _, v := range vals {
			A = append(A, c("HSET", "h1", f, v))
		}
		A = append(A, c("HSETNX", "h1", f, "5"), c("HSETNX", "h1", f, "y"), c("HDEL", "h1", f))
	}
	A = append(A, c("HSET", "h1", "n", "3"), c("HDEL", "h1", "n"), c("HSET", "h1", "f", "1", "g", "2"), c("HSET", "h1", "f", "1", "f", "2"), c("HMSET", "h1", "f", "7", "n", "x"),
		c("HDEL", "h1", "f", "g", "n"), c("HDEL", "h1", "f", "f"), c("HDEL", "h1", "q"), c("HSET", "h2", "f", "x"), c("HDEL", "h2", "f"), c("DEL", "h1"))
	deltas := []string{"0", "1", "-1", "3", "-3", "9223372036854775807", "-9223372036854775807", "-9223372036854775808"}
	for _, d := range deltas {
		A = append(A, c("HINCRBY", "h1", "f", d))
	}
	A = append(A, c("HINCRBY", "h1", "g", "10"), c("HINCRBY", "h1", "n", "-10"), c("HINCRBY", "h2", "f", "1"))
	A = append(A, c("HINCRBYFLOAT", "h1", "f", "1.5"), c("HINCRBYFLOAT", "h1", "f", "-0.5"), c("HINCRBYFLOAT", "h1", "g", "1000"), c("HINCRBYFLOAT", "h2", "g", "2.25"))
	s.Alphabet = A
	var S []Op
	for _, k := range []string{"h1", "h2", "nokey", "w1"} {
		S = append(S, c("HGETALL", k), c("HKEYS", k), c("HVALS", k), c("HLEN", k), c("HGET", k, "f"), c("HGET", k, "q"), c("HMGET", k, "f", "q", "g", "f"), c("HEXISTS", k, "f"), c("HEXISTS", k, "q"), c("HSTRLEN", k, "f"), c("HSTRLEN", k, "q"), c("HRANDFIELD", k))
		for _, n := range []string{"0", "1", "2", "5", "-1", "-2", "-5"} {
			S = append(S, c("HRANDFIELD", k, n), c("HRANDFIELD", k, n, "WITHVALUES"))
		}
	}
	for _, d := range append(deltas, "2", "-2", "9223372036854775806") {
		S = append(S, c("HINCRBY", "h1", "f", d), c("HINCRBY", "h1", "g", d), c("HINCRBY", "h1", "n", d), c("HINCRBY", "nokey", "f", d))
	}
	S = append(S, c("HINCRBY", "h1", "f", "abc"), c("HINCRBY", "h1", "f", "1.5"), c("HINCRBYFLOAT", "h1", "f", "abc"), c("HINCRBYFLOAT", "h1", "g", "1"), c("HINCRBYFLOAT", "h1", "n", "0.5"),
		c("HINCRBYFLOAT", "nokey", "f", "3"), c("HINCRBYFLOAT", "h1", "q", "0.25"),
		// increments that must be refused and leave nothing behind: on a missing key, a missing field, an existing field
		c("HINCRBYFLOAT", "nokey", "f", "inf"), c("HINCRBYFLOAT", "nokey", "f", "-inf"), c("HINCRBYFLOAT", "nokey", "f", "nan"), c("HINCRBYFLOAT", "nokey", "f", "abc"), c("HINCRBYFLOAT", "h1", "newf", "inf"), c("HINCRBYFLOAT", "h1", "f", "inf"), c("HINCRBYFLOAT", "h1", "f", "1e400"),
		c("HINCRBY", "nokey", "f", "abc"), c("HINCRBY", "nokey", "f", "1.5"), c("HINCRBY", "h1", "newf", "abc"), c("HINCRBY", "nokey", "f", "9223372036854775808"), c("HSETNX", "nokey", "f"), c("HSET", "nokey", "f"), c("HSET", "nokey", "f", "v", "g"),
		c("HSET", "w1", "f", "x"), c("HSETNX", "w1", "f", "x"), c("HMSET", "w1", "f", "x"), c("HDEL", "w1", "f"), c("HINCRBY", "w1", "f", "1"), c("HINCRBYFLOAT", "w1", "f", "1"),
		c("HSET", "h1", "f"), c("HSET", "h1", "f", "x", "g"), c("HMSET", "h1", "f", "x", "g"), c("HSETNX", "nokey", "f", "x"), c("HSETNX", "h1", "q", "z"))
	s.Sweep = S
	// read; change; [change;] reads (see staleSweep)
	{
		reads := []Op{c("HGET", "h1", "f"), c("HGET", "h1", "g"), c("HGET", "h1", "q"), c("HLEN", "h1"), c("HEXISTS", "h1", "f"), c("HSTRLEN", "h1", "g"), c("HMGET", "h1", "n", "f"), c("HGETALL", "h1"), c("HKEYS", "h1"), c("HVALS", "h1"), c("HLEN", "h2")}
		var changes []Op
		for i, a := range A {
			if tier == "thorough" || a.Args[0] != "HSET" || i%3 == 0 {
				changes = append(changes, a)
			}
		}
		s.InitSweep = staleSweep(reads, changes)
		for _, sp := range []string{"-", "+", "", ".", " 1", "1 ", "5.", ".5", "5.e3", "1e3", "0x10", "1_0", "inf", "nan", "9223372036854775808", "-9223372036854775809", "1e400"} {
			s.InitSweep = append(s.InitSweep,
				Op{Args: []string{"HINCRBY", "h1", "f", sp}, Then: []Op{c("HGET", "h1", "f")}}, Op{Args: []string{"HINCRBY", "nokey", "f", sp}, Then: []Op{c("EXISTS", "nokey")}},
				Op{Args: []string{"HINCRBYFLOAT", "h1", "g2", sp}, Then: []Op{c("HGET", "h1", "g2")}}, Op{Args: []string{"HINCRBYFLOAT", "nokey", "f", sp}, Then: []Op{c("EXISTS", "nokey")}},
				Op{Args: []string{"HRANDFIELD", "h1", sp}}, Op{Args: []string{"HRANDFIELD", "h1", sp, "WITHVALUES"}}, Op{Args: []string{"HSCAN", "h1", sp}}, Op{Args: []string{"HSCAN", "h1", "0", "COUNT", sp}},
				Op{Args: []string{"HSET", "h1", "sp", sp}, Then: []Op{c("HINCRBYFLOAT", "h1", "sp", "1"), c("HGET", "h1", "sp")}})
			if sp != " 1" && sp != "1 " { // stored integer spellings the emulator accepts and Redis refuses are not judged
				s.InitSweep = append(s.InitSweep, Op{Args: []string{"HSET", "h1", "sp", sp}, Then: []Op{c("HINCRBY", "h1", "sp", "1"), c("HGET", "h1", "sp")}})
			}
		}
	}
	s.Depth = 2
	if tier == "thorough" {
		s.Depth = 3
	}
	s.Long = dictHistories("HSET", "HDEL", "h1", true, tier)
	return s
}

// dictHistories builds fill/drain histories that force the bucket table of a hash, set or the
// keyspace to double several times and to halve again (add, remove in different orders, re-add).
func dictHistories(add, del, key string, withValue bool, tier string) [][]Op {
	mk := func(cmd string, name string, i int) Op {
		a := []string{cmd}
		if key != "" {
			a = append(a, key)
		}
		a = append(a, name)
		if cmd == add && withValue {
			a = append(a, "v"+itoa(i))
		}
		return Op{Args: a}
	}
	n := 70
	if tier == "thorough" {
		n = 200
	}
	var out [][]Op
	for variant := 0; variant < 4; variant++ {
		var h []Op
		name := func(i int) string { return "f" + itoa(i) }
		for i := 0; i < n; i++ {
			h = append(h, mk(add, name(i), i))
		}
		order := make([]int, n)
		for i := range order {
			switch variant {
			case 0:
				order[i] = i
			case 1:
				order[i] = n - 1 - i
			case 2:
				order[i] = (i*37 + 11) % n // a permutation when gcd(37,n)=1
			case 3:
				if i%2 == 0 {
					order[i] = i / 2
				} else {
					order[i] = n - 1 - i/2
				}
			}
		}
		if variant == 2 && n%37 == 0 {
			continue
		}
		// drain all but three, refill a third, drain everything
		for _, i := range order[:n-3] {
			h = append(h, mk(del, name(i), i))
		}
		for i := 0; i < n/3; i++ {
			h = append(h, mk(add, "g"+itoa(i), i))
		}
		for _, i := range order[n-3:] {
			h = append(h, mk(del, name(i), i))
		}
		for i := n/3 - 1; i >= 0; i-- {
			h = append(h, mk(del, "g"+itoa(i), i))
		}
		out = append(out, h)
	}
	out = append(out, churnHistories(mk, add, del)...)
	return out
}

// namesWithLowBits returns count names "<prefix><i>" whose hash has the given low bits.
func namesWithLowBits(prefix string, bits uint, pattern uint64, count int) []string {
	var out []string
	mask := uint64(1)<<bits - 1
	for i := 0; len(out) < count && i < 5000000; i++ {
		n := prefix + itoa(i)
		if redisemu.VHash(n)&mask == pattern&mask {
			out = append(out, n)
		}
	}
	return out
}

// churnHistories: a few persistent elements that collide in their low hash bits force the table
// to a chosen size; a temporary element is then added and removed often enough for the
// "many removals" shrink check to run - while the colliding pair is present (shrinking would
// lose data), after one of the pair was removed (shrinking is fine), and after re-adding it.
func churnHistories(mk func(cmd, name string, i int) Op, add, del string) [][]Op {
	var out [][]Op
	for _, v := range [][2]uint{{4, 0}, {5, 0}, {6, 0}, {4, 1}, {5, 3}, {4, 2}} { // colliding in the low 4/5/6 bits => table of 32/64/128
		lg, flip := v[0], v[1]
		size := 1 << (lg + 1)
		base := redisemu.VHash("seed" + itoa(int(lg)))
		lowA := base & (uint64(1)<<lg - 1)
		// a and b agree in the low lg bits and differ in bit lg: adjacent buckets of the doubled table
		a := namesWithLowBits("a", lg+1, lowA, 1)
		b := namesWithLowBits("b", lg+1, lowA|uint64(1)<<lg, 1)
		// bystanders that differ from a in one lower bit (flip 0: the opposite half of the table)
		cN := namesWithLowBits("c", lg+1, lowA^(uint64(1)<<flip), 2)
		if len(a) == 0 || len(b) == 0 || len(cN) < 2 {
			continue
		}
		var h []Op
		i := 0
		churn := func(n int) {
			for k := 0; k < n; k++ {
				t := "t" + itoa(i)
				i++
				h = append(h, mk(add, t, i), mk(del, t, i))
			}
		}
		h = append(h, mk(add, a[0], 1), mk(add, b[0], 3))
		churn(size/2 + 3) // shrink check runs; a/b adjacent => must not shrink
		h = append(h, mk(add, cN[0], 2))
		churn(size/2 + 3)
		h = append(h, mk(add, cN[1], 4))
		churn(size/2 + 3)
		h = append(h, mk(del, b[0], 3))
		churn(size/2 + 3) // now reducible
		churn(size/4 + 3) // and once more
		h = append(h, mk(add, b[0], 5)) // grows again
		churn(size/2 + 3)
		h = append(h, mk(del, a[0], 1), mk(del, cN[0], 2))
		churn(size/2 + 3)
		h = append(h, mk(del, b[0], 5), mk(del, cN[1], 4))
		out = append(out, h)
	}
	return out
}

// ---- C02: strings -----------------------------------------------------------------------------

func specC02(tier string) *SeqSpec {
	s := &SeqSpec{ID: "C02", Sessions: 1, Keys: []string{"k1", "k2", "l1"}, DBs: []int{0}, TTL: true}
	s.Inits = [][]Op{
		{c("RPUSH", "l1", "e")},
		{c("RPUSH", "l1", "e"), c("SET", "k1", "10", "PX", "100000"), c("SET", "k2", "abc")},
		{c("RPUSH", "l1", "e"), c("SET", "k1", "hello world"), c("SET", "k2", "9223372036854775807", "EX", "100")},
	}
	vals := []string{"", "x", "10", "-1", "9223372036854775807", "-9223372036854775808", "1.5"}
	var A []Op
	for _, v := range vals {
		A = append(A, c("SET", "k1", v))
	}
	A = append(A, c("SET", "k2", "x"), c("SET", "k2", "5"),
		c("SET", "k1", "y", "NX"), c("SET", "k1", "y", "XX"), c("SET", "k1", "y", "GET"), c("SET", "k1", "y", "EX", "100"), c("SET", "k1", "y", "PX", "50000"), c("SET", "k1", "y", "KEEPTTL"),
		c("SET", "k1", "z", "NX", "GET"), c("SET", "k1", "z", "XX", "KEEPTTL"), c("SET", "k1", "z", "XX", "GET", "PX", "70000"), c("SET", "k1", "z", "EXAT", "1893456100"), c("SET", "k1", "z", "PXAT", "1893456000500"),
		c("SETNX", "k1", "n"), c("SETNX", "k2", "n"), c("SETEX", "k1", "100", "e"), c("PSETEX", "k1", "100000", "p"),
		c("GETSET", "k1", "g"), c("GETDEL", "k1"), c("GETDEL", "k2"),
		c("GETEX", "k1", "EX", "200"), c("GETEX", "k1", "PX", "20000"), c("GETEX", "k1", "PERSIST"), c("GETEX", "k1", "EXAT", "1893456200"), c("GETEX", "k1"),
		c("APPEND", "k1", "x"), c("APPEND", "k1", ""), c("APPEND", "k2", "12"),
		c("SETRANGE", "k1", "0", "X"), c("SETRANGE", "k1", "2", "YY"), c("SETRANGE", "k1", "1", ""), c("SETRANGE", "k2", "5", "Z"),
		c("INCR", "k1"), c("DECR", "k1"), c("INCRBY", "k1", "5"), c("INCRBY", "k1", "-7"), c("DECRBY", "k1", "3"), c("INCR", "k2"), c("DECR", "k2"),
		c("INCRBY", "k1", "9223372036854775807"), c("DECRBY", "k1", "9223372036854775807"),
		c("INCRBYFLOAT", "k1", "1.5"), c("INCRBYFLOAT", "k1", "-0.5"), c("INCRBYFLOAT", "k2", "1000"),
		c("MSET", "k1", "m1", "k2", "m2"), c("MSET", "k1", "m1", "k1", "m2"), c("MSETNX", "k1", "n1", "k2", "n2"), c("MSETNX", "k1", "n1", "k1", "n2"), c("MSETNX", "k2", "q"),
		c("DEL", "k1"), c("PERSIST", "k1"), c("PEXPIRE", "k1", "30000"),
	)
	s.Alphabet = A
	var S []Op
	// the complete SET option matrix in every option order, in three spellings
	conds := []string{"", "NX", "XX"}
	gets := []string{"", "GET"}
	exps := [][]string{nil, {"EX", "100"}, {"PX", "100000"}, {"EXAT", "1893456100"}, {"PXAT", "1893456100000"}, {"KEEPTTL"}}
	spell := func(a []string, mode int) []string {
		out := make([]string, len(a))
		for i, x := range a {
			switch mode {
			case 1:
				out[i] = strings.ToLower(x)
			case 2:
				if len(x) > 1 {
					out[i] = strings.ToUpper(x[:1]) + strings.ToLower(x[1:])
				} else {
					out[i] = x
				}
			default:
				out[i] = x
			}
		}
		return out
	}
	for _, cd := range conds {
		for _, g := range gets {
			for _, e := range exps {
				var groups [][]string
				if cd != "" {
					groups = append(groups, []string{cd})
				}
				if g != "" {
					groups = append(groups, []string{g})
				}
				if e != nil {
					groups = append(groups, e)
				}
				for pi, perm := range permutations(len(groups)) {
					var opts []string
					for _, i := range perm {
						opts = append(opts, groups[i]...)
					}
					for mode := 0; mode < 3; mode++ {
						if tier != "thorough" && mode != (pi+len(opts))%3 {
							continue
						}
						S = append(S, Op{Args: append([]string{"SET", "k1", "w"}, spell(opts, mode)...)})
					}
				}
			}
		}
	}
	S = append(S, c("SET", "k1", "w", "NX", "XX"), c("SET", "k1", "w", "EX", "10", "PX", "10"), c("SET", "k1", "w", "KEEPTTL", "EX", "10"), c("SET", "k1", "w", "EX", "0"), c("SET", "k1", "w", "EX", "-1"), c("SET", "k1", "w", "PX", "0"),
		c("SET", "k1", "w", "EX"), c("SET", "k1", "w", "BOGUS"), c("SET", "k1", "w", "EX", "abc"), c("SET", "l1", "w", "GET"), c("SET", "l1", "w"), c("SET", "l1", "w", "NX"), c("SET", "l1", "w", "XX", "GET"),
		c("SETEX", "k1", "0", "v"), c("SETEX", "k1", "-1", "v"), c("PSETEX", "k1", "0", "v"), c("SETEX", "k1", "abc", "v"), c("SETEX", "l1", "10", "v"), c("SETNX", "l1", "v"),
		c("GETEX", "k1", "EX", "0"), c("GETEX", "k1", "EX", "10", "PERSIST"), c("GETEX", "k1", "BOGUS"), c("GETEX", "l1"), c("GETEX", "nokey", "EX", "10"), c("GETEX", "k1", "PXAT", "1893455999000"))
	rng := 4
	if tier == "thorough" {
		rng = 7
	}
	for i := -rng; i <= rng; i++ {
		for j := -rng; j <= rng; j++ {
			S = append(S, c("GETRANGE", "k1", itoa(i), itoa(j)))
		}
		S = append(S, c("SUBSTR", "k1", itoa(i), "-1"), c("SETRANGE", "k1", itoa(i), "AB"), c("SETRANGE", "k1", itoa(i), ""), c("SETRANGE", "nokey", itoa(i), "AB"), c("SETRANGE", "nokey", itoa(i), ""), c("GETRANGE", "k2", itoa(i), "0"))
	}
	for _, b := range []string{"9223372036854775807", "-9223372036854775808", "4294967296", "-4294967296"} {
		S = append(S, c("GETRANGE", "k1", b, "-1"), c("GETRANGE", "k1", "0", b), c("GETRANGE", "k1", b, b), c("GETRANGE", "nokey", "0", b))
	}
	S = append(S, c("SETRANGE", "k1", "536870912", "x"), c("SETRANGE", "k1", "9223372036854775807", "x"), c("SETRANGE", "k1", "-9223372036854775808", "x"))
	for _, d := range []string{"0", "1", "-1", "2", "9223372036854775807", "-9223372036854775807", "-9223372036854775808", "9223372036854775806"} {
		S = append(S, c("INCRBY", "k1", d), c("DECRBY", "k1", d), c("INCRBY", "k2", d), c("DECRBY", "k2", d), c("INCRBY", "nokey", d), c("DECRBY", "nokey", d))
	}
	S = append(S, c("INCRBY", "k1", "abc"), c("INCRBY", "k1", "1.5"), c("INCRBY", "k1", ""), c("INCR", "l1"), c("DECR", "l1"), c("INCRBY", "l1", "1"), c("INCRBYFLOAT", "l1", "1"), c("INCRBYFLOAT", "k1", "abc"), c("INCRBYFLOAT", "k1", "inf"), c("INCRBYFLOAT", "k1", "nan"), c("INCRBYFLOAT", "k2", "0.25"), c("INCRBYFLOAT", "nokey", "-2.5"), c("INCRBYFLOAT", "k1", "1e3"),
		c("GET", "k1"), c("GET", "l1"), c("GET", "nokey"), c("STRLEN", "k1"), c("STRLEN", "l1"), c("STRLEN", "nokey"), c("MGET", "k1", "k2", "l1", "nokey", "k1"), c("GETSET", "l1", "v"), c("GETDEL", "l1"), c("GETDEL", "nokey"), c("APPEND", "l1", "x"), c("SETRANGE", "l1", "0", "x"), c("GETRANGE", "l1", "0", "-1"), c("SUBSTR", "nokey", "0", "-1"),
		c("MSET", "k1", "v", "k2"), c("MSETNX", "k1", "v", "k2"), c("MSET", "l1", "v"), c("MSETNX", "nokey", "a", "k1", "b"), c("MSETNX", "nokey", "a", "l1", "b"), c("MSETNX", "nokey", "a", "nokey2", "b"),
		c("LCS", "k1", "k2"), c("LCS", "k1", "k2", "LEN"), c("LCS", "k1", "k2", "IDX"), c("LCS", "k1", "k2", "IDX", "MINMATCHLEN", "2"), c("LCS", "k1", "k2", "IDX", "WITHMATCHLEN"), c("LCS", "k1", "k1"), c("LCS", "k1", "nokey"), c("LCS", "k1", "nokey", "LEN"), c("LCS", "k1", "l1"), c("LCS", "k1", "k2", "IDX", "LEN"), c("LCS", "k1", "k1", "IDX", "MINMATCHLEN", "1", "WITHMATCHLEN"),
	)
	s.Sweep = S
	// read; change; [change;] reads (see staleSweep)
	{
		reads := []Op{c("GET", "k1"), c("STRLEN", "k1"), c("GETRANGE", "k1", "0", "-1"), c("GETRANGE", "k1", "1", "2"), c("MGET", "k1", "k2"), c("PTTL", "k1"), c("EXISTS", "k1"), c("LCS", "k1", "k2", "LEN")}
		var changes []Op
		for i, a := range A {
			if tier == "thorough" || i%2 == 0 || a.Args[0] == "APPEND" || a.Args[0] == "SETRANGE" || a.Args[0] == "DEL" {
				changes = append(changes, a)
			}
		}
		s.InitSweep = staleSweep(reads, changes)
	}
	// LCS over every pair of strings over {a,b} up to length 5 (quick) / 7 (thorough: length 6 and 7 against
	// a sample): the matrix of the algorithm has branching runs only from length 4 on
	{
		var words []string
		maxLen := 5
		for l := 0; l <= maxLen; l++ {
			for m := 0; m < 1<<l; m++ {
				w := make([]byte, l)
				for i := range w {
					w[i] = "ab"[(m>>i)&1]
				}
				words = append(words, string(w))
			}
		}
		long := []string{"aaabb", "baaba", "abaa", "bab", "abababab", "aabbaabb", "bbbaaabbb", "abbabaab", "ACGTACGTTGCA", "TGCATGCAACGT"}
		for i, a := range words {
			for j, b := range words {
				if tier != "thorough" && len(a)+len(b) > 8 && (i+j)%3 != 0 {
					continue
				}
				s.InitSweep = append(s.InitSweep, Op{Args: []string{"MSET", "k1", a, "k2", b}, Then: []Op{c("LCS", "k1", "k2"), c("LCS", "k1", "k2", "LEN"), c("LCS", "k1", "k2", "IDX"), c("LCS", "k1", "k2", "IDX", "MINMATCHLEN", "2", "WITHMATCHLEN")}})
			}
		}
		for _, a := range long {
			for _, b := range long {
				s.InitSweep = append(s.InitSweep, Op{Args: []string{"MSET", "k1", a, "k2", b}, Then: []Op{c("LCS", "k1", "k2"), c("LCS", "k1", "k2", "LEN"), c("LCS", "k1", "k2", "IDX", "WITHMATCHLEN")}})
			}
		}
		// the SPELLING of numbers, stored and as arguments: what strtold / strtoll-style parsing accepts and refuses
		for _, sp := range []string{"5.", "-7.", "0.", "5.e3", ".5", "-.5", "1e3", "1E3", "1e+3", "1.5e-3", "+5", "+5.5", "007", "-0", "-0.0", "00", " 5", "5 ", "0x10", "1_0", "inf", "-inf", "nan", "-", "+", "", ".", "e5", "5e", "1.2.3", "9223372036854775807", "-9223372036854775808", "9223372036854775808", "1e400"} {
			s.InitSweep = append(s.InitSweep,
				Op{Args: []string{"SET", "k1", sp}, Then: []Op{c("INCRBYFLOAT", "k1", "1"), c("GET", "k1")}},
				Op{Args: []string{"SET", "k1", sp}, Then: []Op{c("INCR", "k1"), c("GET", "k1")}},
				Op{Args: []string{"SET", "k1", sp}, Then: []Op{c("DECRBY", "k1", "2"), c("GET", "k1")}},
				Op{Args: []string{"SET", "k1", "10"}, Then: []Op{c("INCRBYFLOAT", "k1", sp), c("GET", "k1")}},
				Op{Args: []string{"SET", "k1", "1e308"}, Then: []Op{c("INCRBYFLOAT", "k1", "1e308"), c("GET", "k1")}})
			if sp == "+5" || sp == "007" || sp == "-0" || sp == "00" {
				continue // integer arguments in these spellings are accepted by the emulator and refused by Redis: not judged (as for stored values)
			}
			s.InitSweep = append(s.InitSweep,
				Op{Args: []string{"SET", "k1", "10"}, Then: []Op{c("INCRBY", "k1", sp), c("GET", "k1")}},
				Op{Args: []string{"SET", "k1", "hello"}, Then: []Op{c("GETRANGE", "k1", sp, "-1"), c("SETRANGE", "k1", sp, "X"), c("GET", "k1")}})
		}
		// a key whose deadline has passed but which is still stored is a missing key for every command of the
		// family: what is written then starts afresh, without the old deadline (k2 has a deadline in this state)
		late := append([]Op{}, A...)
		late = append(late, c("SET", "k2", "v", "KEEPTTL"), c("SET", "k2", "v", "XX"), c("SET", "k2", "v", "NX", "GET"), c("SET", "k2", "v", "XX", "KEEPTTL"), c("GETEX", "k2", "PERSIST"), c("GETEX", "k2", "EX", "50"), c("STRLEN", "k2"), c("GETRANGE", "k2", "0", "-1"),
			c("SETRANGE", "k2", "2", "Z"), c("APPEND", "k2", ""), c("INCRBYFLOAT", "k2", "1.5"), c("DECRBY", "k2", "1"), c("MSETNX", "k2", "q"), c("GETSET", "k2", "g"), c("LCS", "k2", "k1"), c("MGET", "k2", "k1"))
		for _, a := range late {
			s.InitSweep = append(s.InitSweep, Op{Args: []string{"PING"}, Advance: 100001, Then: []Op{a, c("GET", "k2"), c("PTTL", "k2"), c("GET", "k1"), c("PTTL", "k1")}})
		}
		s.InitSweepEvery = 3 // from one of the three initial states
	}
	s.Depth = 2
	if tier == "thorough" {
		s.Depth = 3
	}
	return s
}

func permutations(n int) [][]int {
	if n == 0 {
		return [][]int{{}}
	}
	var out [][]int
	var rec func(cur []int, used []bool)
	rec = func(cur []int, used []bool) {
		if len(cur) == n {
			out = append(out, append([]int{}, cur...))
			return
		}
		for i := 0; i < n; i++ {
			if !used[i] {
				used[i] = true
				rec(append(cur, i), used)
				used[i] = false
			}
		}
	}
	rec(nil, make([]bool, n))
	return out
}
