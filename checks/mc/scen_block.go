package main

// C11 / C12: blocking list commands. Scenarios are linearizability scenarios with phases (a
// waiter is known to be blocked before the next phase starts), pending commands, a wake-order
// oracle and the "no waiter stuck on a non-empty list" check evaluated at quiescence.

import (
	"fmt"
	"strings"

	vm "github.com/jimsnab/go-redisemu/verifmodel"
)

func init() {
	extraGroups["C11"] = []exploreGroup{{"block", 3, 4}}
	extraScenarios["C11/block"] = blockScenarios
	extraGroups["C12"] = []exploreGroup{{"end", 3, 4}}
	extraScenarios["C12/end"] = endScenarios
	extraGroups["C07"] = []exploreGroup{{"blockexp", 2, 3}}
	extraScenarios["C07/blockexp"] = blockExpiryScenarios
	extraGroups["C14"] = []exploreGroup{{"flush", 2, 3}}
	extraScenarios["C14/flush"] = flushScenarios
}

// flushScenarios (C14): a flush must not change what OTHER connections observe afterwards beyond
// the keys being gone - in particular a connection blocked on a list of the flushed database is
// still served by a later push (a seeded change of wave 4 replaced the wait table in the flush).
func flushScenarios(tier string) []*Scenario {
	var out []*Scenario
	T := func(cmds ...[]string) [][]string { return cmds }
	W := func(args ...string) [][]string { return [][]string{args} }
	waiters := []struct {
		name string
		cmd  []string
	}{{"BLPOP", []string{"BLPOP", "k", "0"}}, {"BLMOVE", []string{"BLMOVE", "k", "m", "LEFT", "RIGHT", "0"}}, {"BRPOP2", []string{"BRPOP", "j", "k", "0"}}}
	flushes := []struct {
		name string
		cmds [][]string
	}{
		{"FLUSHDB", T([]string{"FLUSHDB"})},
		{"FLUSHALL", T([]string{"FLUSHALL"})},
		{"db1:FLUSHALL", T([]string{"SELECT", "1"}, []string{"FLUSHALL"})},
		{"EXEC(FLUSHDB)", T([]string{"MULTI"}, []string{"FLUSHDB"}, []string{"EXEC"})},
		{"EXEC(SET,FLUSHALL)", T([]string{"MULTI"}, []string{"SET", "s", "1"}, []string{"FLUSHALL"}, []string{"EXEC"})},
		{"db1:FLUSHDB", T([]string{"SELECT", "1"}, []string{"FLUSHDB"})}, // another database: nothing changes
	}
	for wi, w := range waiters {
		for fi, f := range flushes {
			if tier != "thorough" && wi > 0 && fi > 1 {
				continue
			}
			for _, db := range []string{"0", "1"} {
				if db == "1" && (wi > 0 || tier != "thorough" && fi > 2) {
					continue
				}
				wt, pt := W(w.cmd...), T([]string{"RPUSH", "k", "x"}, []string{"LLEN", "k"})
				if db != "0" {
					wt = T([]string{"SELECT", db}, w.cmd)
					pt = T([]string{"SELECT", db}, []string{"RPUSH", "k", "x"}, []string{"LLEN", "k"})
				}
				// the flush completes before the push starts ...
				ls := &linScenario{name: fmt.Sprintf("flush/db%s/%s|%s|RPUSH", db, w.name, f.name), setup: [][]string{{"SET", "s", "0"}, {"RPUSH", "other", "o"}}, threads: [][][]string{wt, f.cmds, pt}, phases: []int{0, 1, 2}, allowPending: true}
				out = append(out, ls.scenario())
				// ... and races with it
				ls = &linScenario{name: fmt.Sprintf("flush/db%s/%s|%s||RPUSH", db, w.name, f.name), setup: [][]string{{"SET", "s", "0"}}, threads: [][][]string{wt, f.cmds, pt}, phases: []int{0, 1, 1}, allowPending: true}
				out = append(out, ls.scenario())
			}
		}
	}
	return out
}

func blockScenarios(tier string) []*Scenario {
	var out []*Scenario
	add := func(ls *linScenario) {
		ls.allowPending = true
		out = append(out, ls.scenario())
	}
	T := func(cmds ...[]string) [][]string { return cmds }
	W := func(args ...string) [][]string { return [][]string{args} }
	// 1: one waiter, one pusher, every interleaving (the waiter may also arrive late)
	for _, w := range [][]string{{"BLPOP", "k", "0"}, {"BRPOP", "k", "0"}, {"BLMOVE", "k", "m", "LEFT", "RIGHT", "0"}, {"BRPOPLPUSH", "k", "m", "0"}, {"BLMPOP", "0", "1", "k", "LEFT"}} {
		add(&linScenario{name: "block/" + w[0] + "||RPUSH", threads: [][][]string{W(w...), W("RPUSH", "k", "a")}})
	}
	// the same with key names and elements nobody tries: the empty name, names and elements that are not
	// text, long ones (a seeded change of wave 6 took the empty key name for "no key" in the wake-up path)
	for ni, k := range []string{"", "\r\n", "\x00\xff", strings.Repeat("K", 300)} {
		e := []string{"", "\x00", "e\r\n", strings.Repeat("E", 300)}[ni]
		for wi, w := range [][]string{{"BLPOP", k, "0"}, {"BRPOP", "other", k, "0"}, {"BLMOVE", k, "m", "LEFT", "RIGHT", "0"}, {"BRPOPLPUSH", k, k + "2", "0"}, {"BLMPOP", "0", "2", "other", k, "LEFT"}} {
			if tier != "thorough" && ni > 0 && wi != ni {
				continue
			}
			add(&linScenario{name: fmt.Sprintf("block/odd-key%d/%s|RPUSH", ni, w[0]), threads: [][][]string{W(w...), W("RPUSH", k, e)}, phases: []int{0, 1}})
		}
		add(&linScenario{name: fmt.Sprintf("block/odd-key%d/BLPOP|LMOVE-onto", ni), setup: [][]string{{"RPUSH", "src", e}}, threads: [][][]string{W("BLPOP", k, "0"), W("LMOVE", "src", k, "LEFT", "LEFT")}, phases: []int{0, 1}})
		add(&linScenario{name: fmt.Sprintf("block/odd-key%d/BLPOP|RENAME-onto", ni), setup: [][]string{{"RPUSH", "src", e}}, threads: [][][]string{W("BLPOP", k, "0"), W("RENAME", "src", k)}, phases: []int{0, 1}, noLin: true})
	}
	add(&linScenario{name: "block/BRPOP||LPUSH2", threads: [][][]string{W("BRPOP", "k", "0"), W("LPUSH", "k", "a", "b")}})
	add(&linScenario{name: "block/BLMPOP2keys||RPUSH3", threads: [][][]string{W("BLMPOP", "0", "2", "k1", "k2", "LEFT", "COUNT", "2"), W("RPUSH", "k2", "a", "b", "c")}})
	// 2-4: two waiters blocked one after the other, then pushes
	add(&linScenario{name: "block/W1,W2|RPUSH1", threads: [][][]string{W("BLPOP", "k", "0"), W("BLPOP", "k", "0"), W("RPUSH", "k", "a")}, phases: []int{0, 1, 2}, fifo: []int{0, 1}})
	add(&linScenario{name: "block/W1,W2|RPUSH2", threads: [][][]string{W("BLPOP", "k", "0"), W("BLPOP", "k", "0"), W("RPUSH", "k", "a", "b")}, phases: []int{0, 1, 2}, fifo: []int{0, 1}})
	add(&linScenario{name: "block/W1,W2|RPUSH||RPUSH", threads: [][][]string{W("BLPOP", "k", "0"), W("BRPOP", "k", "0"), W("RPUSH", "k", "a"), W("RPUSH", "k", "b")}, phases: []int{0, 1, 2, 2}, fifo: []int{0, 1}})
	add(&linScenario{name: "block/W1,W2,W3|RPUSH2", threads: [][][]string{W("BLPOP", "k", "0"), W("BLPOP", "k", "0"), W("BLPOP", "k", "0"), W("RPUSH", "k", "a", "b")}, phases: []int{0, 1, 2, 3}, fifo: []int{0, 1, 2}})
	// 5: the element is taken between the waiter's wake-up and its retry; a later push must still reach it
	add(&linScenario{name: "block/W|RPUSH;RPUSH||LPOP", threads: [][][]string{W("BLPOP", "k", "0"), T([]string{"RPUSH", "k", "a"}, []string{"RPUSH", "k", "b"}), W("LPOP", "k")}, phases: []int{0, 1, 1}})
	add(&linScenario{name: "block/W|RPUSH||LPOP|RPUSH", threads: [][][]string{W("BLPOP", "k", "0"), W("RPUSH", "k", "a"), W("LPOP", "k"), W("RPUSH", "k", "b")}, phases: []int{0, 1, 1, 2}})
	// 6: the first waiter has a timeout that may fire at any moment
	add(&linScenario{name: "block/Wtimeout,W2|RPUSH", threads: [][][]string{W("BLPOP", "k", "1"), W("BLPOP", "k", "0"), W("RPUSH", "k", "a")}, phases: []int{0, 1, 2}, timerAlts: true})
	add(&linScenario{name: "block/Wtimeout||RPUSH", threads: [][][]string{W("BLPOP", "k", "0.5"), W("RPUSH", "k", "a")}, timerAlts: true})
	// a waiter in the middle / at the tail / at the head of the queue leaves without a push
	// (timeout, CLIENT UNBLOCK, served through another key); later arrivals and pushes must
	// still find a consistent queue
	add(&linScenario{name: "block/W1,W2timeout,W3|RPUSH", threads: [][][]string{W("BLPOP", "k", "0"), W("BLPOP", "k", "0.5"), W("BLPOP", "k", "0"), W("RPUSH", "k", "a")}, phases: []int{0, 1, 2, 3}, fifo: []int{0, 2}})
	add(&linScenario{name: "block/W1timeout,W2,W3|RPUSH2", threads: [][][]string{W("BLPOP", "k", "0.5"), W("BLPOP", "k", "0"), W("BLPOP", "k", "0"), W("RPUSH", "k", "a", "b")}, phases: []int{0, 0, 1, 2}})
	add(&linScenario{name: "block/W1,W2(k,j),W3|RPUSHj|RPUSHk", threads: [][][]string{W("BLPOP", "k", "0"), W("BLPOP", "k", "j", "0"), W("RPUSH", "j", "x"), W("BLPOP", "k", "0"), W("RPUSH", "k", "a")}, phases: []int{0, 1, 2, 3, 4}, fifo: []int{0, 3}})
	add(&linScenario{name: "block/W1,W2,W3|UNBLOCK-W2|RPUSH2", threads: [][][]string{W("BLPOP", "k", "0"), W("BLPOP", "k", "0"), W("BLPOP", "k", "0"), W("CLIENT", "UNBLOCK", "$id1"), W("RPUSH", "k", "a", "b")}, phases: []int{0, 1, 2, 3, 4}, fifo: []int{0, 2}, noLin: true})
	add(&linScenario{name: "block/W1,W2|UNBLOCK-W2|W3|RPUSH", threads: [][][]string{W("BLPOP", "k", "0"), W("BLPOP", "k", "0"), W("CLIENT", "UNBLOCK", "$id1"), W("BLPOP", "k", "0"), W("RPUSH", "k", "a")}, phases: []int{0, 1, 2, 3, 4}, fifo: []int{0, 3}, noLin: true})
	// 7: a waiter on two keys
	add(&linScenario{name: "block/W(k1,k2)|RPUSHk2||RPUSHk1", threads: [][][]string{W("BLPOP", "k1", "k2", "0"), W("RPUSH", "k2", "a"), W("RPUSH", "k1", "b")}, phases: []int{0, 1, 1}})
	add(&linScenario{name: "block/W(k1,k2),W(k2)|RPUSHk2", threads: [][][]string{W("BLPOP", "k1", "k2", "0"), W("BLPOP", "k2", "0"), W("RPUSH", "k2", "a")}, phases: []int{0, 1, 2}, fifo: []int{0, 1}})
	// 8: a chain: the moved element must wake the waiter of the destination
	add(&linScenario{name: "block/BLMOVE,BLPOPm|RPUSHk", threads: [][][]string{W("BLMOVE", "k", "m", "LEFT", "RIGHT", "0"), W("BLPOP", "m", "0"), W("RPUSH", "k", "a")}, phases: []int{0, 1, 2}})
	add(&linScenario{name: "block/BLPOPm|LMOVEk->m", setup: [][]string{{"RPUSH", "k", "a"}}, threads: [][][]string{W("BLPOP", "m", "0"), W("LMOVE", "k", "m", "LEFT", "RIGHT")}, phases: []int{0, 1}})
	// 11-13: competing non-blocking consumers / transformers
	add(&linScenario{name: "block/W|RPUSH||DEL", threads: [][][]string{W("BLPOP", "k", "0"), W("RPUSH", "k", "a"), W("DEL", "k")}, phases: []int{0, 1, 1}})
	add(&linScenario{name: "block/W|RPUSH2||LTRIM", threads: [][][]string{W("BLPOP", "k", "0"), W("RPUSH", "k", "a", "b"), W("LTRIM", "k", "1", "-1")}, phases: []int{0, 1, 1}})
	add(&linScenario{name: "block/W|RENAME-onto", setup: [][]string{{"RPUSH", "j", "a"}}, threads: [][][]string{W("BLPOP", "k", "0"), W("RENAME", "j", "k")}, phases: []int{0, 1}})
	add(&linScenario{name: "block/W|EXEC(RPUSH,RPUSH)", threads: [][][]string{W("BLPOP", "k", "0"), T([]string{"MULTI"}, []string{"RPUSH", "k", "a"}, []string{"RPUSH", "k", "b"}, []string{"EXEC"})}, phases: []int{0, 1}})
	add(&linScenario{name: "block/W,W2|EXEC(RPUSH,LPOP)", threads: [][][]string{W("BLPOP", "k", "0"), W("BLPOP", "k", "0"), T([]string{"MULTI"}, []string{"RPUSH", "k", "a"}, []string{"LPOP", "k"}, []string{"RPUSH", "k", "b"}, []string{"EXEC"})}, phases: []int{0, 1, 2}, fifo: []int{0, 1}})
	add(&linScenario{name: "block/W|SORT-STORE-onto", setup: [][]string{{"RPUSH", "j", "b", "a"}}, threads: [][][]string{W("BLPOP", "k", "0"), W("SORT", "j", "ALPHA", "STORE", "k")}, phases: []int{0, 1}})
	add(&linScenario{name: "block/W|FLUSHDB||RPUSH", threads: [][][]string{W("BLPOP", "k", "0"), W("FLUSHDB"), W("RPUSH", "k", "a")}, phases: []int{0, 1, 1}})
	for _, ls := range moreBlockScenarios(tier) {
		add(ls)
	}
	return out
}

// ---- C12 ------------------------------------------------------------------------------------------

func isNilOrUnblocked(r vm.Reply) bool {
	return r.K == vm.KNil || (r.IsErr() && strings.HasPrefix(r.S, "UNBLOCKED"))
}

// unblockOracle: connection b runs a blocking command, connection u issues CLIENT UNBLOCK on it
func unblockOracle(b, u int) func(ls *linScenario, x *Exec, per [][]*Call) [][2]string {
	return func(ls *linScenario, x *Exec, per [][]*Call) [][2]string {
		var out [][2]string
		if len(per[u]) == 0 {
			return nil
		}
		ur := per[u][0].Reply
		var br *vm.Reply
		if len(per[b]) > 0 {
			br = &per[b][0].Reply
		}
		switch {
		case ur.K == vm.KInt && ur.I == 1:
			if br == nil {
				out = append(out, [2]string{"unblock-answered-1-but-client-stays-blocked", fmt.Sprintf("CLIENT UNBLOCK answered 1 but connection %d is still blocked at quiescence", b+1)})
			} else if !isNilOrUnblocked(*br) {
				out = append(out, [2]string{"unblock-answered-1-but-command-got-data", fmt.Sprintf("CLIENT UNBLOCK answered 1 but the blocked command completed with %s", *br)})
			}
		case ur.K == vm.KInt && ur.I == 0:
			if br != nil && isNilOrUnblocked(*br) {
				out = append(out, [2]string{"unblock-answered-0-but-command-was-aborted", fmt.Sprintf("CLIENT UNBLOCK answered 0 but the blocking command (timeout 0) ended with %s", *br)})
			}
		default:
			out = append(out, [2]string{"unblock-reply", "unexpected CLIENT UNBLOCK reply " + ur.String()})
		}
		return out
	}
}

// expectOracle: in a fully phased scenario every reply is determined; want[i][j] is the reply of
// command j of connection i in the notation of Reply.String ("nil", ":1", "+PONG", "-UNBLOCKED...")
// or a prefix ending in '*'.
func expectOracle(want [][]string) func(ls *linScenario, x *Exec, per [][]*Call) [][2]string {
	return func(ls *linScenario, x *Exec, per [][]*Call) [][2]string {
		var out [][2]string
		for i := range want {
			for j, w := range want[i] {
				got := "(blocked)"
				if j < len(per[i]) {
					got = per[i][j].Reply.String()
				}
				ok := got == w
				if strings.HasSuffix(w, "*") {
					ok = strings.HasPrefix(got, strings.TrimSuffix(w, "*"))
				}
				if !ok {
					out = append(out, [2]string{fmt.Sprintf("expected-reply:c%d.%d", i+1, j), fmt.Sprintf("connection %d command %d (%v): want %s got %s", i+1, j, ls.threads[i][j], w, got)})
				}
			}
		}
		return out
	}
}

// timeoutOracle: a lone blocking command with timeout t completes with null exactly at t
func timeoutOracle(us int64) func(ls *linScenario, x *Exec, per [][]*Call) [][2]string {
	ms := us / 1000 // the clock of the calls is in milliseconds; sub-millisecond timeouts end after 0..1 ms
	return func(ls *linScenario, x *Exec, per [][]*Call) [][2]string {
		if len(per[0]) == 0 {
			if us == 0 || ms > 50*365*24*3600*1000 {
				return nil // waits indefinitely (or for centuries of virtual time): correct
			}
			return [][2]string{{"timeout-never-fires", fmt.Sprintf("a block with a timeout of %d us never ends", us)}}
		}
		c := per[0][0]
		if us == 0 {
			return [][2]string{{"timeout0-returned", "a block with timeout 0 completed although nothing happened: " + c.Reply.String()}}
		}
		el := c.TRet - c.TInv
		if c.Reply.K != vm.KNil {
			return [][2]string{{"timeout-reply", "a timed-out block must answer null, got " + c.Reply.String()}}
		}
		if el < ms-1 || el > ms+1 {
			return [][2]string{{"timeout-duration", fmt.Sprintf("a block with a timeout of %d us ended after %d ms of virtual time", us, el)}}
		}
		return nil
	}
}

// moreBlockScenarios: added after seeded changes were missed (see DESIGN.md 10.6)
func moreBlockScenarios(tier string) []*linScenario {
	W := func(args ...string) [][]string { return [][]string{args} }
	T := func(cmds ...[]string) [][]string { return cmds }
	var out []*linScenario
	// a waiter on two keys is served through the first one; the same EXEC (or a second pusher) then pushes
	// to the other key, where a single-key waiter queues behind it
	out = append(out,
		&linScenario{name: "block/W1(k1,k2),W2(k2)|EXEC(LPUSHk1,LPUSHk2)", threads: [][][]string{W("BLPOP", "k1", "k2", "0"), W("BLPOP", "k2", "0"), T([]string{"MULTI"}, []string{"LPUSH", "k1", "a"}, []string{"LPUSH", "k2", "b"}, []string{"EXEC"})}, phases: []int{0, 1, 2}, allowPending: true, noLin: true},
		&linScenario{name: "block/W1(k1,k2),W2(k2)|LPUSHk1||LPUSHk2", threads: [][][]string{W("BLPOP", "k1", "k2", "0"), W("BLPOP", "k2", "0"), W("LPUSH", "k1", "a"), W("LPUSH", "k2", "b")}, phases: []int{0, 1, 2, 2}, allowPending: true, noLin: true},
		&linScenario{name: "block/W1(k1,k2,k3),W2(k3),W3(k2)|EXEC(LPUSHk1,LPUSHk3,LPUSHk2)", threads: [][][]string{W("BRPOP", "k1", "k2", "k3", "0"), W("BLPOP", "k3", "0"), W("BLMOVE", "k2", "m", "LEFT", "LEFT", "0"), T([]string{"MULTI"}, []string{"LPUSH", "k1", "a"}, []string{"LPUSH", "k3", "c"}, []string{"LPUSH", "k2", "b"}, []string{"EXEC"})}, phases: []int{0, 1, 1, 2}, allowPending: true, noLin: true, boundDelta: -1}, // four threads: one preemption less
	)
	// a woken waiter that does not consume the element - its move fails on a wrong-typed destination, or it
	// rotates a list onto itself - must not swallow the wake-up: the next waiter of the key is served
	out = append(out,
		&linScenario{name: "block/BLMOVE-wrongtype-dst,W2|RPUSH", setup: [][]string{{"SET", "dst", "a-string"}}, threads: [][][]string{W("BLMOVE", "src", "dst", "LEFT", "LEFT", "0"), W("BLPOP", "src", "0"), W("RPUSH", "src", "x")}, phases: []int{0, 1, 2}, allowPending: true, noLin: true,
			extra: expectOracle([][]string{{"-WRONGTYPE*"}, {`["src" "x"]`}, {":1"}})},
		&linScenario{name: "block/BRPOPLPUSH-wrongtype-dst,W2|RPUSH", setup: [][]string{{"SADD", "dst", "m"}}, threads: [][][]string{W("BRPOPLPUSH", "src", "dst", "0"), W("BRPOP", "src", "0"), W("RPUSH", "src", "x")}, phases: []int{0, 1, 2}, allowPending: true, noLin: true,
			extra: expectOracle([][]string{{"-WRONGTYPE*"}, {`["src" "x"]`}, {":1"}})},
		&linScenario{name: "block/BLMOVE-onto-itself,W2|RPUSH", threads: [][][]string{W("BLMOVE", "a", "a", "LEFT", "RIGHT", "0"), W("BLPOP", "a", "0"), W("RPUSH", "a", "x")}, phases: []int{0, 1, 2}, allowPending: true, noLin: true,
			extra: expectOracle([][]string{{`"x"`}, {`["a" "x"]`}, {":1"}})},
	)
	// a woken waiter whose element was taken again waits on at the FRONT of the queue: the next push,
	// made after everything has come to rest, goes to it and not to the client that blocked later
	spur := T([]string{"MULTI"}, []string{"RPUSH", "k", "stolen"}, []string{"LPOP", "k"}, []string{"EXEC"})
	out = append(out,
		&linScenario{name: "block/W,W2|EXEC(RPUSH,LPOP)|then-RPUSH", threads: [][][]string{W("BLPOP", "k", "0"), W("BLPOP", "k", "0"), spur, W("RPUSH", "k", "first")}, phases: []int{0, 1, 2, 3}, allowPending: true, noLin: true, fifo: []int{0, 1}, boundDelta: -1},
		&linScenario{name: "block/W(j,k),W2|EXEC(RPUSH,LPOP)|then-RPUSH", threads: [][][]string{W("BRPOP", "j", "k", "0"), W("BLMOVE", "k", "m", "LEFT", "RIGHT", "0"), spur, W("RPUSH", "k", "first")}, phases: []int{0, 1, 2, 3}, allowPending: true, noLin: true, fifo: []int{0, 1}, boundDelta: -1},
		&linScenario{name: "block/W,W2,W3|EXEC(RPUSH,LPOP)|then-RPUSH2", threads: [][][]string{W("BLPOP", "k", "0"), W("BLPOP", "k", "0"), W("BLPOP", "k", "0"), spur, W("RPUSH", "k", "first", "second")}, phases: []int{0, 1, 2, 3, 4}, allowPending: true, noLin: true, fifo: []int{0, 1, 2}, boundDelta: -2},
	)
	return out
}

func endScenarios(tier string) []*Scenario {
	var out []*Scenario
	add := func(ls *linScenario) {
		ls.allowPending = true
		if strings.HasPrefix(ls.name, "unblock/") || strings.HasPrefix(ls.name, "cycle/") {
			ls.noLin = true
		}
		out = append(out, ls.scenario())
	}
	T := func(cmds ...[]string) [][]string { return cmds }
	W := func(args ...string) [][]string { return [][]string{args} }
	// (a) timeouts on the virtual clock, all five commands
	for _, t := range []struct {
		s  string
		ms int64
	}{{"0.0001", 100}, {"0.0005", 500}, {"0.001", 1000}, {"0.0015", 1500}, {"0.5", 500000}, {"1", 1000000}, {"1000000", 1000000000000}, {"10000000000", 10000000000000000}, {"0", 0}} {
		for ci, w := range [][]string{{"BLPOP", "k", t.s}, {"BRPOP", "k", "k2", t.s}, {"BLMOVE", "k", "m", "LEFT", "RIGHT", t.s}, {"BRPOPLPUSH", "k", "m", t.s}, {"BLMPOP", t.s, "1", "k", "LEFT"}} {
			if tier != "thorough" && ci > 0 && t.ms != 500000 && t.ms != 500 && t.ms != 0 {
				continue
			}
			add(&linScenario{name: "timeout/" + w[0] + "/" + t.s, threads: [][][]string{W(w...)}, extra: timeoutOracle(t.ms)})
		}
	}
	// (a') the deadline is absolute: a waiter that is woken by a push inside an EXEC that takes the
	// element away again goes back to waiting for the REST of its timeout
	for ci, w := range [][]string{{"BLPOP", "k", "1"}, {"BRPOP", "k", "k2", "1"}, {"BLMOVE", "k", "m", "LEFT", "RIGHT", "1"}, {"BRPOPLPUSH", "k", "m", "1"}, {"BLMPOP", "1", "1", "k", "LEFT"}} {
		if tier != "thorough" && ci > 1 {
			continue
		}
		spur := T([]string{"MULTI"}, []string{"RPUSH", "k", "x"}, []string{"LPOP", "k"}, []string{"EXEC"})
		add(&linScenario{name: "timeout/spurious-wake/" + w[0], threads: [][][]string{W(w...), spur}, sleepBefore: map[[2]int]int{{1, 0}: 500}, noLin: true, extra: timeoutOracle(1000000)})
		add(&linScenario{name: "timeout/two-spurious-wakes/" + w[0], threads: [][][]string{W(w...), spur, spur}, sleepBefore: map[[2]int]int{{1, 0}: 300, {2, 0}: 700}, noLin: true, extra: timeoutOracle(1000000)})
	}
	// (a'') a block that has been woken for nothing and then ends - by its timeout, CLIENT UNBLOCK or
	// CLIENT KILL - leaves nothing behind in the wait queue: the next waiter of the key is served by the
	// next push (a seeded change of wave 5 gave the re-registered waiter a new wake signal that nobody disposed)
	{
		spur := T([]string{"MULTI"}, []string{"RPUSH", "k", "x"}, []string{"LPOP", "k"}, []string{"EXEC"})
		spurReplies := []string{"+OK", "+QUEUED", "+QUEUED", "[:1 \"x\"]"}
		_ = spurReplies
		for ci, w := range [][]string{{"BLPOP", "k", "0"}, {"BLMOVE", "k", "m", "LEFT", "RIGHT", "0"}, {"BRPOP", "j", "k", "0"}} {
			if tier != "thorough" && ci > 1 {
				continue
			}
			for _, end := range [][]string{{"CLIENT", "UNBLOCK", "$id0"}, {"CLIENT", "UNBLOCK", "$id0", "ERROR"}, {"CLIENT", "KILL", "ID", "$id0"}} {
				n := "ghost/" + w[0] + "|spurious-wake|" + strings.Join(end[1:2], "") + strings.Join(end[3:], "") + "|BLPOP|RPUSH"
				add(&linScenario{name: n, threads: [][][]string{W(w...), spur, W(end...), W("BLPOP", "k", "0"), W("RPUSH", "k", "v"), W("LLEN", "k")}, phases: []int{0, 1, 2, 3, 4, 5}, noLin: true,
					extra: func(ls *linScenario, x *Exec, per [][]*Call) [][2]string {
						var out [][2]string
						if len(per[3]) == 0 || per[3][0].Reply.String() != `["k" "v"]` {
							got := "(blocked)"
							if len(per[3]) > 0 {
								got = per[3][0].Reply.String()
							}
							out = append(out, [2]string{"ghost-waiter", "after a woken-for-nothing block ended, the next waiter of the key is not served by the next push: BLPOP k 0 => " + got})
						}
						if len(per[5]) == 1 && per[5][0].Reply.String() != ":0" {
							out = append(out, [2]string{"ghost-waiter-element-left", "the pushed element stays in the list although a client waits for it: LLEN k => " + per[5][0].Reply.String()})
						}
						return out
					}})
			}
		}
		// ended by its own timeout: the spurious wake-up comes 300 ms into a block of 1 s
		for _, w := range [][]string{{"BLPOP", "k", "1"}, {"BLMPOP", "1", "1", "k", "LEFT"}} {
			add(&linScenario{name: "ghost/" + w[0] + "|spurious-wake|timeout|BLPOP|RPUSH", threads: [][][]string{W(w...), spur, W("BLPOP", "k", "0"), W("RPUSH", "k", "v"), W("LLEN", "k")}, phases: []int{0, 0, 1, 2, 3}, sleepBefore: map[[2]int]int{{1, 0}: 300}, noLin: true,
				extra: expectOracle([][]string{{"nil"}, nil, {`["k" "v"]`}, {":1"}, {":0"}})})
		}
	}
	// (b) CLIENT UNBLOCK at every moment of the block protocol
	for _, mode := range [][]string{nil, {"TIMEOUT"}, {"ERROR"}} {
		u := append([]string{"CLIENT", "UNBLOCK", "$id0"}, mode...)
		add(&linScenario{name: "unblock/BLPOP||UNBLOCK" + strings.Join(mode, ""), threads: [][][]string{W("BLPOP", "k", "0"), W(u...)}, extra: unblockOracle(0, 1)})
		add(&linScenario{name: "unblock/BLPOP|UNBLOCK" + strings.Join(mode, "") + "(blocked)", threads: [][][]string{W("BLPOP", "k", "0"), W(u...)}, phases: []int{0, 1}, extra: unblockOracle(0, 1)})
		add(&linScenario{name: "unblock/BLPOP|UNBLOCK" + strings.Join(mode, "") + "||LPUSH", threads: [][][]string{W("BLPOP", "k", "0"), W(u...), W("LPUSH", "k", "a")}, phases: []int{0, 1, 1}, extra: unblockOracle(0, 1)})
	}
	add(&linScenario{name: "unblock/BLMOVE||UNBLOCK||LPUSH", threads: [][][]string{W("BLMOVE", "k", "m", "LEFT", "LEFT", "0"), W("CLIENT", "UNBLOCK", "$id0"), W("LPUSH", "k", "a")}, extra: unblockOracle(0, 1)})
	add(&linScenario{name: "unblock/not-blocked", threads: [][][]string{W("PING"), W("CLIENT", "UNBLOCK", "$id0")}, phases: []int{0, 1}, extra: unblockOracle(0, 1)})
	add(&linScenario{name: "unblock/other-client-unaffected", threads: [][][]string{W("BLPOP", "k", "0"), W("BLPOP", "k", "0"), W("CLIENT", "UNBLOCK", "$id0"), W("LPUSH", "k", "a")}, phases: []int{0, 1, 2, 3}, extra: unblockOracle(0, 2)})
	// (d) cycles on one connection: block, unblock, normal command, block again, served by a push
	add(&linScenario{name: "cycle/block-unblock-ping-block-push", threads: [][][]string{T([]string{"BLPOP", "k", "0"}, []string{"PING"}, []string{"BLPOP", "k", "0"}, []string{"PING"}), W("CLIENT", "UNBLOCK", "$id0"), W("LPUSH", "k", "a")}, phases: []int{0, 1, 2},
		extra: expectOracle([][]string{{"nil", "+PONG", `["k" "a"]`, "+PONG"}, {":1"}, {":1"}})})
	add(&linScenario{name: "cycle/block-unblock-block-unblock", threads: [][][]string{T([]string{"BLPOP", "k", "0"}, []string{"BRPOP", "k", "0"}, []string{"PING"}), W("CLIENT", "UNBLOCK", "$id0"), W("CLIENT", "UNBLOCK", "$id0", "ERROR")}, phases: []int{0, 1, 2},
		extra: expectOracle([][]string{{"nil", "-UNBLOCKED*", "+PONG"}, {":1"}, {":1"}})})
	add(&linScenario{name: "cycle/three-unblocks", threads: [][][]string{T([]string{"BLMOVE", "k", "m", "LEFT", "LEFT", "0"}, []string{"BLMPOP", "0", "1", "k", "LEFT"}, []string{"BRPOPLPUSH", "k", "m", "0"}, []string{"PING"}), W("CLIENT", "UNBLOCK", "$id0", "ERROR"), W("CLIENT", "UNBLOCK", "$id0", "TIMEOUT"), W("CLIENT", "UNBLOCK", "$id0")}, phases: []int{0, 1, 2, 3},
		extra: expectOracle([][]string{{"-UNBLOCKED*", "nil", "nil", "+PONG"}, {":1"}, {":1"}, {":1"}})})
	add(&linScenario{name: "cycle/timeout-then-block-push", threads: [][][]string{T([]string{"BLPOP", "k", "0.2"}, []string{"BLPOP", "k", "0"}), W("LPUSH", "k", "a")}, phases: []int{0, 1},
		extra: expectOracle([][]string{{"nil", `["k" "a"]`}, {":1"}})})
	add(&linScenario{name: "cycle/push-then-block-unblock", threads: [][][]string{T([]string{"BLPOP", "k", "0"}, []string{"BLPOP", "k", "0"}, []string{"PING"}), W("LPUSH", "k", "a"), W("CLIENT", "UNBLOCK", "$id0")}, phases: []int{0, 1, 2},
		extra: expectOracle([][]string{{`["k" "a"]`, "nil", "+PONG"}, {":1"}, {":1"}})})
	add(&linScenario{name: "cycle/unblock-then-kill-unaffected", threads: [][][]string{T([]string{"BLPOP", "k", "0"}, []string{"BLPOP", "k", "0"}), W("CLIENT", "UNBLOCK", "$id0"), W("CLIENT", "KILL", "ID", "$id0"), W("LPUSH", "k", "a"), W("LPOP", "k")}, phases: []int{0, 1, 2, 3, 4},
		extra: expectOracle([][]string{{"nil", "-*"}, {":1"}, {":1"}, {":1"}, {`"a"`}})})
	// (d') a block with a timeout that ended EARLY (served, unblocked) leaves no timer behind: the connection idles
	// past the old deadline, and its next block waits its own full time (a seeded change of wave 6 reused one
	// timer per connection and found the old tick in it)
	for _, first := range [][]string{{"BLPOP", "k", "1"}, {"BLMOVE", "k", "m", "LEFT", "LEFT", "1"}, {"BLMPOP", "1", "1", "k", "LEFT"}} {
		served := `["k" "a"]`
		switch first[0] {
		case "BLMOVE":
			served = `"a"`
		case "BLMPOP":
			served = `["k" ["a"]]`
		}
		add(&linScenario{name: "cycle/" + first[0] + "-served-early|idle|block-forever", threads: [][][]string{T(first, []string{"BLPOP", "k2", "0"}), W("RPUSH", "k", "a")}, sleepBefore: map[[2]int]int{{1, 0}: 100, {0, 1}: 2000}, noLin: true,
			extra: expectOracle([][]string{{served, "(blocked)"}, {":1"}})})
		add(&linScenario{name: "cycle/" + first[0] + "-served-early|idle|block-5s", threads: [][][]string{T(first, []string{"BRPOP", "k2", "5"}, []string{"PING"}), W("RPUSH", "k", "a")}, sleepBefore: map[[2]int]int{{1, 0}: 100, {0, 1}: 2000}, noLin: true,
			extra: func(ls *linScenario, x *Exec, per [][]*Call) [][2]string {
				if len(per[0]) < 2 {
					return [][2]string{{"second-block-never-ends", "the second block (5 s) of the connection never ended"}}
				}
				c := per[0][1]
				if el := c.TRet - c.TInv; el < 4999 || el > 5001 || c.Reply.K != vm.KNil {
					return [][2]string{{"second-block-duration", fmt.Sprintf("the second block of the connection (timeout 5 s, issued 1 s after the deadline of the first, which had been served early) ended after %d ms with %s", el, c.Reply.String())}}
				}
				return nil
			}})
	}
	add(&linScenario{name: "cycle/unblocked-early|idle|block-forever", threads: [][][]string{T([]string{"BLPOP", "k", "1"}, []string{"BLPOP", "k2", "0"}), W("CLIENT", "UNBLOCK", "$id0")}, sleepBefore: map[[2]int]int{{1, 0}: 100, {0, 1}: 2000}, noLin: true,
		extra: expectOracle([][]string{{"nil", "(blocked)"}, {":1"}})})
	// (e) inside MULTI blocking commands never block
	add(&linScenario{name: "multi/blocking-commands-do-not-block", threads: [][][]string{T([]string{"MULTI"}, []string{"BLPOP", "k", "0"}, []string{"BRPOP", "k", "0"}, []string{"BLMOVE", "k", "m", "LEFT", "LEFT", "0"}, []string{"BRPOPLPUSH", "k", "m", "0"}, []string{"BLMPOP", "0", "1", "k", "LEFT"}, []string{"EXEC"}, []string{"PING"})}})
	// the same with the database changed before or inside the transaction, with and without a timeout
	// (a seeded change of wave 4 made the commands queued after a SELECT block for real)
	five := func(t string) [][]string {
		return [][]string{{"BLPOP", "k", t}, {"BRPOP", "k", "k2", t}, {"BLMOVE", "k", "m", "LEFT", "LEFT", t}, {"BRPOPLPUSH", "k", "m", t}, {"BLMPOP", t, "2", "k", "k2", "LEFT"}}
	}
	for _, t := range []string{"0", "0.2"} {
		for _, v := range []struct {
			name        string
			before, mid [][]string
		}{
			{"select-inside", nil, [][]string{{"SELECT", "1"}}},
			{"select-before", [][]string{{"SELECT", "1"}}, nil},
			{"select-inside-same", nil, [][]string{{"SELECT", "0"}}},
			{"select-there-and-back", nil, [][]string{{"SELECT", "1"}, {"SELECT", "0"}}},
			{"select-before-and-inside", [][]string{{"SELECT", "2"}}, [][]string{{"SELECT", "1"}}},
		} {
			cmds := append([][]string{}, v.before...)
			cmds = append(cmds, []string{"MULTI"})
			cmds = append(cmds, v.mid...)
			cmds = append(cmds, five(t)...)
			cmds = append(cmds, []string{"EXEC"}, []string{"PING"})
			add(&linScenario{name: "multi/" + v.name + "/t" + t, threads: [][][]string{T(cmds...), W("SET", "other", "1")}, phases: []int{0, 1}, extra: instantOracle})
		}
	}
	return out
}

// instantOracle: no command of the scenario waits - every call returns, and at the virtual time at
// which it was issued.
func instantOracle(ls *linScenario, x *Exec, per [][]*Call) [][2]string {
	var out [][2]string
	for i := range ls.threads {
		if len(per[i]) < len(ls.threads[i]) {
			out = append(out, [2]string{fmt.Sprintf("blocked-inside-transaction:c%d", i+1), fmt.Sprintf("connection %d: command %d (%v) never returned", i+1, len(per[i]), ls.threads[i][len(per[i])])})
			continue
		}
		for j, c := range per[i] {
			if c.TRet != c.TInv {
				out = append(out, [2]string{fmt.Sprintf("waited-inside-transaction:c%d.%d", i+1, j), fmt.Sprintf("connection %d command %d (%v) took %d ms of virtual time", i+1, j, c.Args, c.TRet-c.TInv)})
			}
		}
	}
	return out
}

// blockExpiryScenarios (C07): a key whose deadline passes WHILE a command is blocked is a missing
// key when the command is finally served - the only commands that live long enough for the clock
// to move under them (a seeded change of wave 5 sampled the clock once per command).
func blockExpiryScenarios(tier string) []*Scenario {
	var out []*Scenario
	T := func(cmds ...[]string) [][]string { return cmds }
	W := func(args ...string) [][]string { return [][]string{args} }
	add := func(ls *linScenario) {
		ls.allowPending, ls.noLin, ls.noConservation = true, true, true
		ls.phases = []int{0, 1, 2} // blocked; the push, 500 ms later; the observation, when everything is at rest
		ls.sleepBefore = map[[2]int]int{{1, 0}: 500} // the deadlines are at 300 ms
		out = append(out, ls.scenario())
	}
	// the destination of a blocked move expires: the element starts a new list without a deadline
	for _, w := range [][]string{{"BLMOVE", "src", "dst", "LEFT", "RIGHT", "0"}, {"BRPOPLPUSH", "src", "dst", "0"}, {"BLMOVE", "src", "dst", "RIGHT", "LEFT", "0"}} {
		n := "blockexp/" + strings.Join(w[:len(w)-1], "_")
		add(&linScenario{name: n + "/list-destination-expires", setup: [][]string{{"RPUSH", "dst", "old"}, {"PEXPIRE", "dst", "300"}},
			threads: [][][]string{W(w...), W("RPUSH", "src", "x"), T([]string{"LRANGE", "dst", "0", "-1"}, []string{"PTTL", "dst"}, []string{"LLEN", "src"})},
			extra: expectOracle([][]string{{`"x"`}, {":1"}, {`["x"]`, ":-1", ":0"}})})
		add(&linScenario{name: n + "/string-destination-expires", setup: [][]string{{"SET", "dst", "text", "PX", "300"}},
			threads: [][][]string{W(w...), W("RPUSH", "src", "x"), T([]string{"TYPE", "dst"}, []string{"LRANGE", "dst", "0", "-1"}, []string{"PTTL", "dst"})},
			extra: expectOracle([][]string{{`"x"`}, {":1"}, {"+list", `["x"]`, ":-1"}})})
		// ... and one that does not expire keeps its deadline and its elements
		add(&linScenario{name: n + "/destination-alive", setup: [][]string{{"RPUSH", "dst", "old"}, {"PEXPIRE", "dst", "100000"}},
			threads: [][][]string{W(w...), W("RPUSH", "src", "x"), T([]string{"LLEN", "dst"}, []string{"PTTL", "dst"})},
			extra: expectOracle([][]string{{`"x"`}, {":1"}, {":2", ":99500"}})})
	}
	// other keys expire while a client is blocked: they are gone for everybody afterwards
	for _, w := range [][]string{{"BLPOP", "k", "0"}, {"BRPOP", "j", "k", "0"}, {"BLMPOP", "0", "1", "k", "LEFT"}} {
		add(&linScenario{name: "blockexp/" + w[0] + "/other-key-expires", setup: [][]string{{"SET", "other", "v", "PX", "300"}},
			threads: [][][]string{W(w...), W("RPUSH", "k", "x"), T([]string{"EXISTS", "k"}, []string{"EXISTS", "other"}, []string{"KEYS", "*"})},
			extra: expectOracle([][]string{{}, {":1"}, {":0", ":0", "[]"}})})
	}
	return out
}
