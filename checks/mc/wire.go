package main

// E4: the socket level. The real clientCxn state machine runs on an in-memory connection whose
// reads return exactly the segments the harness wrote, so the harness decides where the request
// byte stream is cut; between two segments the server runs until it blocks in Read again
// (arbitrary delay between TCP segments).

import (
	"bytes"
	"fmt"
	"strings"
	"syscall"

	redisemu "github.com/jimsnab/go-redisemu"
	vm "github.com/jimsnab/go-redisemu/verifmodel"
	"github.com/jimsnab/go-redisemu/verifrt"
	vnet "github.com/jimsnab/go-redisemu/verifrt/vnet"
)

func init() {
	genLists["C01"] = c01Cases
	extraRunners["C01"] = func(tier string, rep *Report) {
		rep.Level = "exploration"
		ok, nt, units := runGen("C01", tier, 1, rep)
		rep.Coverage["evaluations"] = units
		rep.Coverage["distinct_nontrivial"] = nt
		rep.Coverage["pipelines"] = ok
		rep.Coverage["rule"] = "every pipeline of the corpus is sent unsplit, byte by byte, with every single cut and every pair of cuts (long payloads: every cut within 4 bytes of a frame boundary or a multiple of the 8192-byte read buffer); a segmentation counts as non-trivial when at least one cut falls strictly inside a frame"
		rep.Assume = append(rep.Assume, "between two segments the server runs until it blocks in Read again; the read path has no timer, so only the cut positions are observable", "expected replies come from the reference model; replies of every segmentation must be byte-identical to the unsplit run")
		for i := 0; i < 3; i++ {
			cl := c01Cases(tier)
			rep.sample(map[string]any{"pipeline": cl.Name(i * (cl.N / 3))})
		}
	}
	levelOverride["C01"] = "exploration"
}

type wireResult struct {
	out      []byte
	term     verifrt.Terminal
	panicMsg string
	panicAt  string
	noReply  []int // for each segment: bytes of output available after it was processed
}

// runWire feeds the segments to a fresh connection of a fresh instance.
func runWire(segments [][]byte, second func(vi *redisemu.VInst) string) (res wireResult, secondMsg string) {
	redisemu.VResetGlobals()
	vnet.ResetNet()
	s := verifrt.NewSched(nil)
	s.Horizon = 2000000
	s.Run(func() {
		vi := redisemu.VNew("")
		srv, cli := vnet.Pipe("127.0.0.1:6379", "127.0.0.1:40001")
		vi.NewCxn(srv)
		verifrt.AwaitQuiescence()
		buf := make([]byte, 65536)
		for _, seg := range segments {
			cli.Write(seg)
			verifrt.AwaitQuiescence()
			for cli.Pending() > 0 {
				n, _ := cli.Read(buf)
				res.out = append(res.out, buf[:n]...)
			}
			res.noReply = append(res.noReply, len(res.out))
		}
		if second != nil {
			secondMsg = second(vi)
		}
	})
	res.term = s.Term
	if s.Term == verifrt.TermPanic {
		res.panicMsg = firstLine(fmt.Sprint(s.PanicVal))
		res.panicAt = panicSite(s.PanicStk)
	}
	return
}

// secondConnection: a well-behaved second connection must still be served
func secondConnection(vi *redisemu.VInst) string {
	srv, cli := vnet.Pipe("127.0.0.1:6379", "127.0.0.1:40002")
	vi.NewCxn(srv)
	cli.Write(vm.Encode("PING"))
	verifrt.AwaitQuiescence()
	var out []byte
	buf := make([]byte, 4096)
	for cli.Pending() > 0 {
		n, _ := cli.Read(buf)
		out = append(out, buf[:n]...)
	}
	if string(out) != "+PONG\r\n" {
		return fmt.Sprintf("second connection: PING answered %q", out)
	}
	return ""
}

// ---- C01 -------------------------------------------------------------------------------------------

var binStrings = []string{"", "\r\n", "\n", "\x00", "\xff\xfe", "$5\r\nhello", "a b", "+OK", "-ERR x\r\n:1"}

func bigString(n int) string {
	var sb strings.Builder
	for sb.Len() < n {
		sb.WriteString("0123456789abcdef\r\n")
	}
	return sb.String()[:n]
}

type pipeline struct {
	name string
	cmds [][]string
	long bool
	// inject: a command with one argument replaced by text that looks like protocol, followed by
	// PING: only the framing is judged (exactly two replies, the second one +PONG), sent unsplit
	// and byte by byte
	inject bool
}

func c01Pipelines(tier string) []pipeline {
	var out []pipeline
	add := func(name string, cmds ...[]string) { out = append(out, pipeline{name: name, cmds: cmds}) }
	for _, b := range binStrings {
		q := fmt.Sprintf("%q", b)
		add("ECHO "+q, []string{"ECHO", b})
		add("SET/GET value "+q, []string{"SET", "k", b}, []string{"GET", "k"})
		add("SET/GET key "+q, []string{"SET", b, "v"}, []string{"GET", b}, []string{"KEYS", "*"})
		add("APPEND "+q, []string{"APPEND", "k", "x"}, []string{"APPEND", "k", b}, []string{"GET", "k"})
		add("RPUSH/LRANGE "+q, []string{"RPUSH", "l", b, "y"}, []string{"LRANGE", "l", "0", "-1"}, []string{"LPOP", "l"})
		add("HSET/HGETALL "+q, []string{"HSET", "h", b, b}, []string{"HGETALL", "h"}, []string{"HGET", "h", b})
		add("SADD/SMEMBERS "+q, []string{"SADD", "s", b}, []string{"SMEMBERS", "s"}, []string{"SISMEMBER", "s", b})
		add("unknown command with "+q, []string{"FOO", b}, []string{"PING"})
		add("unknown command named "+q, []string{b + "X", "arg"}, []string{"PING"})
		add("wrong arity + "+q, []string{"GET"}, []string{"ECHO", b})
		add("error quoting "+q, []string{"RPUSH", "l", "x"}, []string{"INCR", "l"}, []string{"SET", "k", b, "BOGUS"}, []string{"PING"})
		add("LCS "+q, []string{"SET", "k", b + "ab"}, []string{"SET", "j", "a" + b + "b"}, []string{"LCS", "k", "j"})
	}
	add("PING x3", []string{"PING"}, []string{"PING"}, []string{"PING"})
	add("MULTI/EXEC", []string{"MULTI"}, []string{"SET", "k", "\r\n"}, []string{"GET", "k"}, []string{"EXEC"})
	add("HELLO 3 + map", []string{"HSET", "h", "f", "v"}, []string{"HELLO", "3"}, []string{"HGETALL", "h"})
	add("INFO under RESP2", []string{"INFO", "server"}, []string{"PING"})
	add("CLIENT LIST under RESP2", []string{"CLIENT", "LIST"}, []string{"PING"})
	add("CLIENT SETNAME + INFO", []string{"CLIENT", "SETNAME", "n1"}, []string{"CLIENT", "GETNAME"}, []string{"PING"})
	add("mixed", []string{"SET", "a", "1"}, []string{"INCR", "a"}, []string{"MGET", "a", "nokey"}, []string{"DEL", "a"}, []string{"EXISTS", "a"})
	// every command template with every argument position replaced by protocol look-alikes: whatever
	// the command echoes into its reply (an error message quoting the argument, a stored value read
	// back) must not break the framing
	seen := map[string]bool{}
	var tpls [][]string
	for _, k := range []string{"ks", "kl", "kh", "kz", "kn"} {
		for _, op := range commandMatrix(k, true) {
			tpls = append(tpls, op.Args)
		}
	}
	tpls = append(tpls, c13OptionTemplates...)
	for _, t := range tpls {
		if blockingCmds[strings.ToUpper(t[0])] || strings.EqualFold(t[0], "QUIT") || strings.EqualFold(t[0], "RESET") {
			continue
		}
		for pos := 0; pos < len(t); pos++ {
			for _, inj := range []string{"x\r\n+OK", "\r\n:1\r\n"} {
				if tier != "thorough" && inj != "x\r\n+OK" {
					continue
				}
				m := append([]string{}, t...)
				m[pos] = inj
				key := strings.Join(m, "\x00")
				if seen[key] {
					continue
				}
				seen[key] = true
				out = append(out, pipeline{name: fmt.Sprintf("inject %q", m), cmds: [][]string{m, {"PING"}}, inject: true})
			}
		}
	}
	for _, n := range []int{8190, 8191, 8192, 8193, 8194, 9000, 16384, 20000} {
		if tier != "thorough" && (n == 8191 || n == 8193 || n == 20000) {
			continue
		}
		b := bigString(n)
		out = append(out, pipeline{name: fmt.Sprintf("SET/GET %d bytes", n), cmds: [][]string{{"SET", "k", b}, {"GET", "k"}, {"STRLEN", "k"}}, long: true})
		out = append(out, pipeline{name: fmt.Sprintf("PING + ECHO %d bytes + PING", n), cmds: [][]string{{"PING"}, {"ECHO", b}, {"PING"}}, long: true})
	}
	return out
}

func c01Cases(tier string) *caseList {
	ps := c01Pipelines(tier)
	return &caseList{N: len(ps), Name: func(i int) string { return ps[i].name }, Run: func(i int) caseResult { return runC01(ps[i], tier) }}
}

func runC01(p pipeline, tier string) (cr caseResult) {
	var stream []byte
	var bounds []int // frame boundaries
	for _, c := range p.cmds {
		stream = append(stream, vm.Encode(c...)...)
		bounds = append(bounds, len(stream))
	}
	viol := func(sig, detail string) caseResult {
		return caseResult{Status: "violation", Sig: sig, Detail: p.name + ": " + detail, Trace: map[string]any{"pipeline": p.cmds, "stream_len": len(stream)}, Units: cr.Units}
	}
	// 1. unsplit
	base, msg2 := runWire([][]byte{stream}, secondConnection)
	cr.Units++
	if base.term == verifrt.TermPanic {
		return viol("panic@"+base.panicAt, "the connection goroutine panics (the process would die): "+base.panicMsg)
	}
	replies, err := vm.ParseAll(base.out)
	if err != nil {
		return viol("reply-stream-malformed|"+cmdNames(p), fmt.Sprintf("reply stream %q does not parse: %v", clipB(base.out), err))
	}
	if len(replies) != len(p.cmds) {
		return viol("reply-count|"+cmdNames(p), fmt.Sprintf("%d commands, %d replies: %q", len(p.cmds), len(replies), clipB(base.out)))
	}
	if msg2 != "" {
		return viol("second-connection", msg2)
	}
	if p.inject {
		if replies[1].K != vm.KStatus || replies[1].S != "PONG" {
			return viol("reply-mismatch|inject:"+strings.ToUpper(p.cmds[0][0]), fmt.Sprintf("the reply to PING after %q is %s", clipArgs(p.cmds[0]), replies[1]))
		}
		var all []int
		for c := 1; c < len(stream); c++ {
			all = append(all, c)
		}
		segs := make([][]byte, 0, len(stream))
		for i := range stream {
			segs = append(segs, stream[i:i+1])
		}
		r, _ := runWire(segs, nil)
		cr.Units++
		cr.NTUnits++
		if r.term == verifrt.TermPanic {
			return viol("panic@"+r.panicAt+"|split", "byte by byte: the connection goroutine panics: "+r.panicMsg)
		}
		if strings.EqualFold(p.cmds[0][0], "HELLO") {
			// HELLO's reply is built from a Go map: under RESP2 a flat array whose order changes from run
			// to run; only its framing is compared
			if rs, err := vm.ParseAll(r.out); err != nil || len(rs) != 2 {
				return viol("split-changes-replies|byte-at-a-time", fmt.Sprintf("byte by byte: %d replies (%v): %q", len(rs), err, clipB(r.out)))
			}
		} else if !bytes.Equal(r.out, base.out) && !sameReplies(r.out, base.out) {
			return viol("split-changes-replies|byte-at-a-time", fmt.Sprintf("byte by byte: replies %q differ from the unsplit run %q", clipB(r.out), clipB(base.out)))
		}
		cr.Status = "ok"
		return
	}
	// expected replies by the reference model
	model := vm.NewModel(epochMs)
	model.NewSession()
	for ci, c := range p.cmds {
		want := model.Exec(0, c)
		if !vm.Known(c[0]) || strings.EqualFold(c[0], "INFO") || strings.EqualFold(c[0], "CLIENT") {
			if want.IsErr() && !replies[ci].IsErr() && !strings.EqualFold(c[0], "INFO") && !strings.EqualFold(c[0], "CLIENT") {
				return viol("reply-mismatch|"+strings.ToUpper(c[0]), fmt.Sprintf("command %d %q: want an error, got %s", ci, c, replies[ci]))
			}
			continue
		}
		if ok, why := vm.Match(want, replies[ci]); !ok {
			return viol("reply-mismatch|"+strings.ToUpper(c[0]), fmt.Sprintf("command %d %q: %s", ci, clipArgs(c), why))
		}
	}
	// 2. segmentations
	L := len(stream)
	try := func(cuts []int, kind string) *caseResult {
		var segs [][]byte
		prev := 0
		for _, c := range cuts {
			segs = append(segs, stream[prev:c])
			prev = c
		}
		segs = append(segs, stream[prev:])
		r, _ := runWire(segs, nil)
		cr.Units++
		if r.term == verifrt.TermPanic {
			v := viol("panic@"+r.panicAt+"|split", fmt.Sprintf("cuts %v: the connection goroutine panics: %s", cuts, r.panicMsg))
			return &v
		}
		if !bytes.Equal(r.out, base.out) && !sameReplies(r.out, base.out) {
			v := viol("split-changes-replies|"+kind, fmt.Sprintf("cuts %v of %d bytes: replies %q differ from the unsplit run %q", cuts, L, clipB(r.out), clipB(base.out)))
			return &v
		}
		// a reply must not appear before its command is complete
		for si, c := range append(append([]int{}, cuts...), L) {
			complete := 0
			for _, b := range bounds {
				if b <= c {
					complete++
				}
			}
			got, _ := vm.ParseAll(r.out[:r.noReply[si]])
			if len(got) > complete {
				v := viol("reply-before-command-complete", fmt.Sprintf("cuts %v: %d replies after only %d complete commands", cuts, len(got), complete))
				return &v
			}
		}
		return nil
	}
	isBoundary := func(c int) bool {
		for _, b := range bounds {
			if b == c {
				return true
			}
		}
		return false
	}
	var cutSet []int
	if !p.long {
		for c := 1; c < L; c++ {
			cutSet = append(cutSet, c)
		}
	} else {
		seen := map[int]bool{}
		addNear := func(x int) {
			for d := -4; d <= 4; d++ {
				if c := x + d; c > 0 && c < L && !seen[c] {
					seen[c] = true
					cutSet = append(cutSet, c)
				}
			}
		}
		addNear(0)
		for _, b := range bounds {
			addNear(b)
		}
		for m := 8192; m < L+8192; m += 8192 {
			addNear(m)
		}
		// the header of the big bulk string
		for i := 0; i+1 < L && i < 64; i++ {
			if stream[i] == '\r' {
				addNear(i)
			}
		}
		sortInts(cutSet)
	}
	// byte at a time (short streams only)
	if !p.long {
		var all []int
		for c := 1; c < L; c++ {
			all = append(all, c)
		}
		if v := try(all, "byte-at-a-time"); v != nil {
			return *v
		}
	}
	for _, c := range cutSet {
		if v := try([]int{c}, "1-cut"); v != nil {
			return *v
		}
		if !isBoundary(c) {
			cr.Nontrivial = true
			cr.NTUnits++
		}
	}
	step := 1
	if tier != "thorough" && len(cutSet) > 70 {
		step = 1 + len(cutSet)/70 // quick: thin out the second cut on longer streams
	}
	for i := 0; i < len(cutSet); i++ {
		for j := i + 1; j < len(cutSet); j += step {
			if v := try([]int{cutSet[i], cutSet[j]}, "2-cut"); v != nil {
				return *v
			}
			if !isBoundary(cutSet[i]) || !isBoundary(cutSet[j]) {
				cr.NTUnits++
			}
		}
	}
	cr.Status = "ok"
	return
}

// sameReplies: byte-identical, or identical after parsing (a reply built from a Go map, such as
// HELLO's, legitimately changes its pair order from run to run)
func sameReplies(a, b []byte) bool {
	ra, ea := vm.ParseAll(a)
	rb, eb := vm.ParseAll(b)
	if ea != nil || eb != nil || len(ra) != len(rb) {
		return false
	}
	for i := range ra {
		if vm.Canon(ra[i]) != vm.Canon(rb[i]) {
			return false
		}
	}
	return true
}

func sortInts(a []int) {
	for i := 1; i < len(a); i++ {
		for j := i; j > 0 && a[j-1] > a[j]; j-- {
			a[j-1], a[j] = a[j], a[j-1]
		}
	}
}

func cmdNames(p pipeline) string {
	var n []string
	for _, c := range p.cmds {
		nm := strings.ToUpper(c[0])
		if !vm.Known(nm) {
			nm = "<unknown>"
		}
		n = append(n, nm)
	}
	return strings.Join(n, "+")
}

func clipB(b []byte) string {
	if len(b) > 160 {
		return string(b[:120]) + fmt.Sprintf("...(%d bytes)", len(b))
	}
	return string(b)
}

func clipArgs(a []string) []string {
	out := make([]string, len(a))
	for i, s := range a {
		if len(s) > 40 {
			s = s[:30] + fmt.Sprintf("...(%dB)", len(s))
		}
		out[i] = s
	}
	return out
}

// limitMemory: a case that makes the emulator allocate without bound must cost one worker
// process, not the machine.
func limitMemory(bytes uint64) {
	var lim syscall.Rlimit
	lim.Cur, lim.Max = bytes, bytes
	syscall.Setrlimit(syscall.RLIMIT_AS, &lim)
}

// ---- C01, reply order -------------------------------------------------------------------------------
//
// Replies leave in the order of the requests whatever the schedule of the connection's goroutines
// (state machine, one goroutine per dispatched command) is: pipelines written in one segment,
// explored over all schedules (no preemption bound, partial-order reduction).

func init() {
	extraGroups["C01"] = []exploreGroup{{"order", 1, 2}}
	extraScenarios["C01/order"] = orderScenarios
	unboundedPass["C01/order"] = "quick thorough instead"
}

type orderScenario struct {
	name string
	cmds [][]string
}

func (os *orderScenario) body(x *Exec) {
	vnet.ResetNet()
	verifrt.SetSerial(true)
	vi := redisemu.VNew("")
	srv, cli := vnet.Pipe("127.0.0.1:6379", "127.0.0.1:40001")
	vi.NewCxn(srv)
	verifrt.AwaitQuiescence()
	var stream []byte
	for _, c := range os.cmds {
		stream = append(stream, vm.Encode(c...)...)
	}
	verifrt.SetSerial(false)
	cli.Write(stream)
	verifrt.AwaitQuiescence()
	verifrt.SetSerial(true)
	var out []byte
	buf := make([]byte, 1<<20)
	for cli.Pending() > 0 {
		n, _ := cli.Read(buf)
		out = append(out, buf[:n]...)
	}
	x.Extra["out"] = out
	x.Final = shortHash(string(out))
}

func (os *orderScenario) check(x *Exec) [][2]string {
	out, _ := x.Extra["out"].([]byte)
	replies, err := vm.ParseAll(out)
	if err != nil {
		return [][2]string{{"reply-stream-malformed", fmt.Sprintf("reply stream %q: %v", clipB(out), err)}}
	}
	model := vm.NewModel(epochMs)
	model.NewSession()
	if len(replies) != len(os.cmds) {
		return [][2]string{{"reply-count", fmt.Sprintf("%d commands, %d replies: %q", len(os.cmds), len(replies), clipB(out))}}
	}
	for i, c := range os.cmds {
		want := model.Exec(0, c)
		if ok, why := vm.Match(want, replies[i]); !ok {
			return [][2]string{{"reply-order", fmt.Sprintf("reply %d of the pipeline %v does not belong to command %d %v: %s (replies: %q)", i, pipelineNames(os.cmds), i, clipArgs(c), why, clipB(out))}}
		}
	}
	return nil
}

func pipelineNames(cmds [][]string) []string {
	var n []string
	for _, c := range cmds {
		n = append(n, strings.ToUpper(c[0]))
	}
	return n
}

func orderScenarios(tier string) []*Scenario {
	big := bigString(20000)
	list := []orderScenario{
		{"order/PING+ECHO+PING", [][]string{{"PING"}, {"ECHO", "x"}, {"PING", "y"}}},
		{"order/SET+GET+DEL+GET", [][]string{{"SET", "k", "v"}, {"GET", "k"}, {"DEL", "k"}, {"GET", "k"}}},
		{"order/big-GET+PING", [][]string{{"SET", "k", big}, {"GET", "k"}, {"PING"}}},
		{"order/INCRx3", [][]string{{"INCR", "n"}, {"INCR", "n"}, {"INCR", "n"}}},
		{"order/error+PING", [][]string{{"NOSUCH"}, {"PING"}, {"GET"}, {"ECHO", "z"}}},
	}
	if tier == "thorough" {
		list = append(list,
			orderScenario{"order/MULTI+SET+EXEC+GET", [][]string{{"MULTI"}, {"SET", "k", "1"}, {"EXEC"}, {"GET", "k"}}},
			orderScenario{"order/RPUSH+LRANGE+LPOP+LLEN", [][]string{{"RPUSH", "l", "a", "b"}, {"LRANGE", "l", "0", "-1"}, {"LPOP", "l"}, {"LLEN", "l"}}},
			orderScenario{"order/PINGx6", [][]string{{"PING", "1"}, {"PING", "2"}, {"PING", "3"}, {"PING", "4"}, {"PING", "5"}, {"PING", "6"}}})
	}
	var out []*Scenario
	for i := range list {
		o := &list[i]
		out = append(out, &Scenario{Name: o.name, Body: o.body, Check: o.check, Horizon: 200000})
	}
	// several connections at once: every connection gets its own replies, byte for byte, whatever
	// the other connections' goroutines do in between (anything shared on the reply path - a
	// recycled buffer, a common scratch area - shows as foreign bytes in a reply)
	a40, b300, c7 := strings.Repeat("a", 40), strings.Repeat("b", 300), strings.Repeat("c", 7)
	cross := []crossScenario{
		{"cross/ECHO40||ECHO300", [][][]string{{{"ECHO", a40}}, {{"ECHO", b300}}}},
		{"cross/GET+PING||ECHO+GET", [][][]string{{{"GET", "ka"}, {"PING"}}, {{"ECHO", c7}, {"GET", "kb"}}}},
		{"cross/error||LRANGE", [][][]string{{{"NOSUCH", a40}}, {{"LRANGE", "kl", "0", "-1"}}}},
	}
	if tier == "thorough" {
		cross = append(cross,
			crossScenario{"cross/HGETALL||SMEMBERS||GET", [][][]string{{{"HGETALL", "kh"}}, {{"SMEMBERS", "kz"}}, {{"GET", "kb"}}}}, // three connections: one preemption less
			crossScenario{"cross/ECHOx2||ECHOx2", [][][]string{{{"ECHO", a40}, {"ECHO", c7}}, {{"ECHO", b300}, {"ECHO", a40}}}})
	}
	for i := range cross {
		o := &cross[i]
		delta := 0
		if len(o.conns) > 2 {
			delta = -1
		}
		// preemption-bounded, not reduced: the reduction treats steps on different synchronisation objects as
		// commuting, which is exactly what a buffer shared behind the program's back does not do
		out = append(out, &Scenario{Name: o.name, Body: o.body, Check: o.check, Horizon: 400000, BoundedOnly: true, BoundDelta: delta})
	}
	return out
}

type crossScenario struct {
	name  string
	conns [][][]string // per connection: its pipeline
}

var crossSetup = [][]string{{"SET", "ka", strings.Repeat("A", 90)}, {"SET", "kb", strings.Repeat("B", 11)}, {"RPUSH", "kl", "l1", "l22", "l333"}, {"HSET", "kh", "f", "1"}, {"SADD", "kz", "only"}}

func (cs *crossScenario) body(x *Exec) {
	vnet.ResetNet()
	verifrt.SetSerial(true)
	vi := redisemu.VNew("")
	setup := vi.NewClient()
	for _, c := range crossSetup {
		setup.Do(c...)
	}
	var clis []*vnet.MemConn
	for i := range cs.conns {
		srv, cli := vnet.Pipe("127.0.0.1:6379", fmt.Sprintf("127.0.0.1:%d", 40001+i))
		vi.NewCxn(srv)
		clis = append(clis, cli)
	}
	verifrt.AwaitQuiescence()
	verifrt.SetSerial(false)
	for i, cli := range clis {
		var stream []byte
		for _, c := range cs.conns[i] {
			stream = append(stream, vm.Encode(c...)...)
		}
		cli.Write(stream)
	}
	verifrt.AwaitQuiescence()
	verifrt.SetSerial(true)
	var outs [][]byte
	var sum string
	buf := make([]byte, 1<<20)
	for _, cli := range clis {
		var out []byte
		for cli.Pending() > 0 {
			n, _ := cli.Read(buf)
			out = append(out, buf[:n]...)
		}
		outs = append(outs, out)
		sum += shortHash(string(out)) + " "
	}
	x.Extra["outs"] = outs
	x.Final = sum
}

func (cs *crossScenario) check(x *Exec) [][2]string {
	outs, _ := x.Extra["outs"].([][]byte)
	if len(outs) != len(cs.conns) {
		return [][2]string{{"scenario-did-not-finish", "the connections were not read"}}
	}
	for i, out := range outs {
		replies, err := vm.ParseAll(out)
		if err != nil {
			return [][2]string{{"reply-stream-malformed|several-connections", fmt.Sprintf("connection %d of %d, pipeline %v: reply stream %q: %v", i+1, len(outs), pipelineNames(cs.conns[i]), clipB(out), err)}}
		}
		if len(replies) != len(cs.conns[i]) {
			return [][2]string{{"reply-count|several-connections", fmt.Sprintf("connection %d of %d: %d commands, %d replies: %q", i+1, len(outs), len(cs.conns[i]), len(replies), clipB(out))}}
		}
		// the commands only read what the set-up wrote: the expected replies do not depend on the others
		model := vm.NewModel(epochMs)
		model.NewSession()
		for _, c := range crossSetup {
			model.Exec(0, c)
		}
		for j, c := range cs.conns[i] {
			want := model.Exec(0, c)
			if ok, why := vm.Match(want, replies[j]); !ok {
				return [][2]string{{"foreign-reply|several-connections", fmt.Sprintf("connection %d of %d: reply %d does not answer %v: %s (reply stream %q)", i+1, len(outs), j, clipArgs(c), why, clipB(out))}}
			}
		}
	}
	return nil
}
