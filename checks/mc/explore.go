package main

// E2: stateless exploration of thread schedules by prefix replay with iterative preemption
// bounding (CHESS style). A scenario builds a fresh emulator instance, spawns its connection
// threads under the controlled scheduler and evaluates an oracle at the terminal state.

import (
	"bufio"
	"encoding/json"
	"fmt"
	"io"
	"os"
	"runtime/pprof"
	"sort"
	"strings"
	"sync"
	"sync/atomic"
	"time"

	redisemu "github.com/jimsnab/go-redisemu"
	vm "github.com/jimsnab/go-redisemu/verifmodel"
	"github.com/jimsnab/go-redisemu/verifrt"
)

// Call is one command issued by a scenario thread, with the positions of its invocation and
// response in the total order of such events (real-time order).
type Call struct {
	Thread int
	Args   []string
	Reply  vm.Reply
	Raw    string
	Inv    int
	Ret    int // -1: never returned
	TInv   int64 // virtual time (ms) at invocation / response
	TRet   int64
}

type Exec struct {
	Sched    *verifrt.Sched
	Inst     *redisemu.VInst
	Calls    []*Call
	Notes    []string
	Final    string // canonical dump of the observable state at quiescence
	Finished bool   // the scenario body ran to its end
	events   int    // invocation / response events so far: one thread runs at a time, so the
	// counter is the exact real-time order of those events
	Extra    map[string]any
}

var historyObj struct{ _ int }

func (x *Exec) note(f string, a ...any) { x.Notes = append(x.Notes, fmt.Sprintf(f, a...)) }

// do issues a command on behalf of the calling thread and records it.
func (x *Exec) do(thread int, cl *redisemu.VClient, args ...string) vm.Reply {
	// the invocation and the response of a call are scheduling points on one common object:
	// another thread may run between a response and the next invocation, and the relative
	// order of these events (the real-time order the linearizability oracle judges) is part
	// of what distinguishes two schedules under the partial-order reduction
	verifrt.Point(verifrt.OpAtomic, &historyObj, nil)
	x.events++
	c := &Call{Thread: thread, Args: args, Inv: x.events, Ret: -1, TInv: verifrt.Now().UnixMilli()}
	x.Calls = append(x.Calls, c)
	raw := cl.Do(args...)
	verifrt.Point(verifrt.OpAtomic, &historyObj, nil)
	x.events++
	c.Ret = x.events
	c.TRet = verifrt.Now().UnixMilli()
	c.Raw = string(raw)
	r, err := vm.Parse1(raw)
	if err != nil {
		r = vm.Err("PARSE " + err.Error())
	}
	c.Reply = r
	return r
}

// dump renders the full observable state of database 0..1 through cl (canonical, sorted).
func dumpState(cl *redisemu.VClient, dbs []int) string {
	var sb strings.Builder
	for _, db := range dbs {
		parse := func(args ...string) vm.Reply {
			r, err := vm.Parse1(cl.Do(args...))
			if err != nil {
				return vm.Err("PARSE " + err.Error())
			}
			return r
		}
		parse("SELECT", itoa(db))
		keys := parse("KEYS", "*")
		names := []string{}
		for _, k := range keys.A {
			names = append(names, k.S)
		}
		sort.Strings(names)
		fmt.Fprintf(&sb, "db%d{", db)
		for _, k := range names {
			t := parse("TYPE", k).S
			var v vm.Reply
			switch t {
			case "string":
				v = parse("GET", k)
			case "list":
				v = parse("LRANGE", k, "0", "-1")
			case "hash":
				v = parse("HGETALL", k)
				v.K = vm.KUMap
			case "set":
				v = parse("SMEMBERS", k)
				v.K = vm.KUSet
			}
			ttl := parse("PTTL", k)
			tt := ""
			if ttl.I >= 0 {
				tt = "+ttl"
			}
			fmt.Fprintf(&sb, "%q:%s%s=%s;", k, t, tt, vm.Canon(v))
		}
		sb.WriteString("}")
	}
	cl.Do("SELECT", "0")
	return sb.String()
}

type Scenario struct {
	Name string
	// Body runs as thread 0 under the scheduler. It builds the instance, spawns threads with
	// x.spawn and typically ends with verifrt.AwaitQuiescence() followed by observations.
	Body func(x *Exec)
	// Check is evaluated after the execution ended; it returns violations (signature, detail).
	Check func(x *Exec) [][2]string
	// Horizon overrides the step budget.
	Horizon   int
	TimerAlts bool
	// TimerAltBudget: see Sched.TimerAltBudget
	TimerAltBudget int
	// MapOrder: the scenario runs a command that walks a Go map of connections (CLIENT LIST,
	// CLIENT KILL) while taking locks per entry; Go randomises that order, so a recorded prefix
	// may not be replayable. Such prefixes are retried and, if still unreproducible, skipped and
	// counted (never reported as a violation); everywhere else a divergence is a harness error.
	MapOrder bool
	// BoundedOnly: too large for the unbounded pass (left to the preemption-bounded exploration)
	BoundedOnly bool
	// BoundDelta is added to the preemption bound of the group for this scenario (long executions)
	BoundDelta int
}

// runSchedule executes the scenario under the schedule described by prefix.
func runSchedule(sc *Scenario, prefix []int, trace bool) *Exec {
	return runScheduleEx(sc, prefix, trace, false, nil)
}

// runScheduleEx: with por, the scheduler keeps sleep sets (see exploreFromPOR).
func runScheduleEx(sc *Scenario, prefix []int, trace bool, por bool, sleepAdd map[int][]int) *Exec {
	redisemu.VResetGlobals()
	x := &Exec{Extra: map[string]any{}}
	s := verifrt.NewSched(prefix)
	s.POR = por
	s.SleepAdd = sleepAdd
	if por {
		s.Hint = append([]int{}, dporHint...)
	}
	if sc.Horizon > 0 {
		s.Horizon = sc.Horizon
	} else {
		s.Horizon = 20000
	}
	s.TimerAlts = sc.TimerAlts
	s.TimerAltBudget = sc.TimerAltBudget
	s.TraceOn = trace
	x.Sched = s
	s.Run(func() {
		sc.Body(x)
		x.Finished = true
	})
	return x
}

func costOf(p verifrt.PointInfo, choice int) int {
	if choice == 0 {
		return 0
	}
	if p.Alts == nil {
		return 1 // a non-default environment / select choice
	}
	if p.Alts[choice] < 0 {
		return 1 // a timer fires although threads could run
	}
	if p.CurEnabled {
		return 1 // preemption: the running thread could have continued
	}
	return 0 // the running thread blocked or ended: any successor is free
}

type exploreStats struct {
	Execs       int            `json:"execs"`
	Points      int            `json:"points"`
	MaxPoints   int            `json:"max_points"`
	Horizon     int            `json:"horizon_hits"`
	Diverged    int            `json:"replay_divergences"`
	Unreproduced int           `json:"failures_not_reproduced_map_order"`
	Unreproducible int         `json:"unreproducible_prefixes"`
	Outcomes    map[string]int `json:"outcomes"`
	Terminals   map[string]int `json:"terminals"`
	PerBound    map[int]int    `json:"per_bound"`
	Violations  []exploreViol  `json:"violations"`
	TimedOut    bool           `json:"timed_out"`
	SleepBlocked int           `json:"sleep_blocked"`
}

type exploreViol struct {
	Sig      string   `json:"sig"`
	Detail   string   `json:"detail"`
	Choices  []int    `json:"choices"`
	Trace    []string `json:"trace"`
	Scenario string   `json:"scenario"`
}

func newStats() *exploreStats {
	return &exploreStats{Outcomes: map[string]int{}, Terminals: map[string]int{}, PerBound: map[int]int{}}
}

func (st *exploreStats) merge(o *exploreStats) {
	st.Execs += o.Execs
	st.Points += o.Points
	if o.MaxPoints > st.MaxPoints {
		st.MaxPoints = o.MaxPoints
	}
	st.Horizon += o.Horizon
	st.Diverged += o.Diverged
	st.Unreproduced += o.Unreproduced
	st.Unreproducible += o.Unreproducible
	for k, v := range o.Outcomes {
		st.Outcomes[k] += v
	}
	for k, v := range o.Terminals {
		st.Terminals[k] += v
	}
	for k, v := range o.PerBound {
		st.PerBound[k] += v
	}
	st.Violations = append(st.Violations, o.Violations...)
	st.TimedOut = st.TimedOut || o.TimedOut
	st.SleepBlocked += o.SleepBlocked
}

var dumpOutcome = os.Getenv("VERIF_DUMP_OUTCOME")
var noSleepSets = os.Getenv("VERIF_NO_SLEEP") != ""
var outcomeStrings = map[string]int{}
var showOutcomes = os.Getenv("VERIF_SHOW_OUTCOMES") != ""

// outcomeText: hash -> text of the outcomes seen (debugging aid, VERIF_SHOW_OUTCOMES)
var outcomeText = map[string]string{}

func outcomeOf(x *Exec) string {
	s := outcomeOf0(x)
	if showOutcomes {
		outcomeStrings[s]++
		outcomeText[shortHash(s)] = s + " ## schedule " + fmt.Sprint(x.Sched.Choices)
	}
	return s
}

func outcomeOf0(x *Exec) string {
	var sb strings.Builder
	for _, c := range x.Calls {
		if c.Ret < 0 {
			fmt.Fprintf(&sb, "t%d:%s=>(blocked);", c.Thread, strings.Join(c.Args, " "))
		} else {
			// replies whose text depends on the iteration order of a Go map (CLIENT LIST) are opaque here too
			fmt.Fprintf(&sb, "t%d:%s=>%s;", c.Thread, strings.Join(c.Args, " "), linCanon(c.Args, c.Reply))
		}
	}
	sb.WriteString("|" + x.Final)
	if outcomeWithRealTimeOrder {
		// which calls returned before which other calls were invoked (what the linearizability
		// oracle sees of the schedule)
		for i, a := range x.Calls {
			for j, b := range x.Calls {
				if i != j && a.Ret >= 0 && a.Ret < b.Inv {
					fmt.Fprintf(&sb, "|%d<%d", i, j)
				}
			}
		}
		sb.WriteString("|term:" + x.Sched.Term.String())
	}
	return sb.String()
}

// outcomeWithRealTimeOrder is switched on by the self-test of the reduction (mc porcheck)
var outcomeWithRealTimeOrder bool

// exploreFrom explores the subtree below prefix (the execution of prefix itself included).
func exploreFrom(sc *Scenario, root []int, bound int, deadline time.Time, st *exploreStats) {
	type node struct {
		prefix []int
		from   int // branching allowed at decision points >= from
	}
	stack := []node{{root, len(root)}}
	seenViol := map[string]bool{}
	for len(stack) > 0 {
		if time.Now().After(deadline) {
			st.TimedOut = true
			return
		}
		n := stack[len(stack)-1]
		stack = stack[:len(stack)-1]
		x := runSchedule(sc, n.prefix, false)
		atomic.AddInt64(&execCounter, 1)
		if sc.MapOrder {
			for try := 0; try < 40 && x.Sched.Divergence != ""; try++ {
				x = runSchedule(sc, n.prefix, false)
			}
			if x.Sched.Divergence != "" {
				st.Unreproducible++
				continue
			}
		}
		s := x.Sched
		st.Execs++
		st.Points += len(s.Points)
		if len(s.Points) > st.MaxPoints {
			st.MaxPoints = len(s.Points)
		}
		st.Terminals[s.Term.String()]++
		if s.Divergence != "" {
			st.Diverged++
			st.Violations = append(st.Violations, exploreViol{Sig: "HARNESS|replay-divergence", Detail: s.Divergence, Choices: n.prefix, Scenario: sc.Name})
			continue
		}
		if s.Term == verifrt.TermHorizon {
			st.Horizon++
		}
		// cost of the path so far
		cost := 0
		costs := make([]int, len(s.Points)+1)
		for i, p := range s.Points {
			costs[i] = cost
			cost += costOf(p, s.Choices[i])
		}
		costs[len(s.Points)] = cost
		st.PerBound[cost]++
		st.Outcomes[shortHash(outcomeOf(x))]++
		for _, v := range checkExec(sc, x) {
			if seenViol[v[0]] {
				continue
			}
			seenViol[v[0]] = true
			// determinism: the same schedule must give the same observation
			y, same := replaySame(sc, s.Choices, x)
			if !same {
				if sc.MapOrder {
					// the code under test iterates a Go map: the same choices need not meet the same execution;
					// a failure that no replay reproduces is counted, not reported
					st.Unreproduced++
					seenViol[v[0]] = false
					continue
				}
				st.Violations = append(st.Violations, exploreViol{Sig: "HARNESS|nondeterministic-replay", Detail: "replaying the failing schedule gave a different outcome: " + v[0], Choices: s.Choices, Scenario: sc.Name})
				continue
			}
			st.Violations = append(st.Violations, exploreViol{Sig: v[0], Detail: v[1], Choices: append([]int{}, s.Choices...), Trace: describe(y), Scenario: sc.Name})
		}
		for i := len(s.Points) - 1; i >= n.from; i-- {
			p := s.Points[i]
			for alt := 1; alt < p.N; alt++ {
				if costs[i]+costOf(p, alt) > bound {
					continue
				}
				np := append(append([]int{}, s.Choices[:i]...), alt)
				stack = append(stack, node{np, i + 1})
			}
		}
	}
}

// ---- unbounded exploration with dynamic partial-order reduction --------------------------------
//
// Every thread schedule is explored (no preemption bound) up to the order of commuting steps.
// After each execution the races in it are computed: pairs of steps of different threads that do
// not commute (they use a common synchronisation object, one of them has a global effect, or one
// changes whether/how the other's pending operation is enabled) and are adjacent in the
// happens-before order. For each race the reversed order is scheduled at the decision point that
// chose the earlier step (source-set DPOR, Abdulla et al. 2014); sleep sets avoid exploring an
// order twice. Value choices (which ready case a select takes) and timer alternatives are always
// explored completely. The set-up and observation phases of a scenario (Serial) have one fixed
// schedule and take no part.

type dFrame struct {
	alts      []int // thread ids (>= 0), -(timer+1); nil for a value choice
	n         int
	chosen    int
	backtrack map[int]bool // alternative indices to explore
	done      map[int]bool
	sleepAdd  []int // thread ids put to sleep at this point for the current choice
	asleep    map[int]bool // thread ids that arrived asleep at this point (inherited from earlier points)
	hints     map[int][]int // per alternative: the thread order that realises the reversal it was added for
}

var dporHint []int

type dporState struct {
	sc     *Scenario
	frames []*dFrame
}

func (d *dporState) prefix() ([]int, map[int][]int) {
	p := make([]int, len(d.frames))
	sa := map[int][]int{}
	for i, f := range d.frames {
		p[i] = f.chosen
		if len(f.sleepAdd) > 0 {
			sa[i] = f.sleepAdd
		}
	}
	return p, sa
}

// addRaces analyses the executed step sequence and extends the backtrack sets.
func (d *dporState) addRaces(s *verifrt.Sched) {
	T := s.Steps
	m := len(T)
	if m == 0 {
		return
	}
	li := make([]int, m)
	count := map[int]int{}
	for k := range T {
		li[k] = count[T[k].Tid]
		count[T[k].Tid]++
	}
	nextOf := make([]map[int]bool, m) // nextOf[i][tid]: has tid already stepped after i (up to the j under consideration)
	dep := func(i, j int) bool { // i < j
		a, b := &T[i], &T[j]
		if a.All || b.All {
			return true
		}
		for _, o := range a.Objs {
			for _, q := range b.Objs {
				if verifrt.Conflict(o, q) {
					return true
				}
			}
		}
		for _, t := range a.Changed {
			if t == b.Tid {
				// only the first step of that thread after i is the operation whose enabledness changed
				first := true
				for k := i + 1; k < j; k++ {
					if T[k].Tid == b.Tid {
						first = false
						break
					}
				}
				if first {
					return true
				}
			}
		}
		return false
	}
	_ = nextOf
	// vector clocks
	vc := make([]map[int]int, m)
	last := map[int]int{} // tid -> last step index
	depList := make([][]int, m)
	for j := 0; j < m; j++ {
		c := map[int]int{}
		if p, ok := last[T[j].Tid]; ok {
			for k, v := range vc[p] {
				c[k] = v
			}
		}
		for i := 0; i < j; i++ {
			if T[i].Tid != T[j].Tid && dep(i, j) {
				depList[j] = append(depList[j], i)
				for k, v := range vc[i] {
					if v > c[k] {
						c[k] = v
					}
				}
			}
		}
		c[T[j].Tid] = li[j] + 1
		vc[j] = c
		last[T[j].Tid] = j
	}
	hb := func(i, j int) bool { return i == j || (i < j && vc[j][T[i].Tid] >= li[i]+1) }
	for j := 0; j < m; j++ {
		for _, i := range depList[j] {
			pt := T[i].Point
			if pt < 0 || pt >= len(d.frames) || d.frames[pt].alts == nil {
				continue
			}
			// a step that only becomes possible through step i cannot be moved before it
			enabledByI := false
			for _, t := range T[i].Enabled {
				if t == T[j].Tid {
					enabledByI = true
					for k := i + 1; k < j; k++ {
						if T[k].Tid == T[j].Tid {
							enabledByI = false
							break
						}
					}
				}
			}
			if enabledByI && os.Getenv("VERIF_NO_ENABLEDBY") == "" {
				if os.Getenv("VERIF_DPOR_TRACE") != "" {
					fmt.Fprintf(os.Stderr, "SKIP race i=%d(t%d %v) j=%d(t%d %v) enabled=%v\n", i, T[i].Tid, len(T[i].Objs), j, T[j].Tid, len(T[j].Objs), T[i].Enabled)
				}
				continue
			}
			// adjacent in happens-before?
			adjacent := true
			for k := i + 1; k < j; k++ {
				if hb(i, k) && hb(k, j) {
					adjacent = false
					break
				}
			}
			if !adjacent {
				continue
			}
			// the steps after i that do not happen after i, then j: their initials may run first
			var v []int
			for k := i + 1; k < j; k++ {
				if !hb(i, k) {
					v = append(v, k)
				}
			}
			v = append(v, j)
			f := d.frames[pt]
			found := false
			var candidates []int
			for x, k := range v {
				initial := true
				for _, k2 := range v[:x] {
					if hb(k2, k) {
						initial = false
						break
					}
				}
				if !initial {
					continue
				}
				for ai, tid := range f.alts {
					if tid == T[k].Tid {
						if f.backtrack[ai] {
							found = true
						}
						candidates = append(candidates, ai)
					}
				}
			}
			if found {
				continue
			}
			if len(candidates) > 0 {
				c := candidates[0]
				f.backtrack[c] = true
				// the rest of v, in order, is the continuation that realises the reversal
				var hint []int
				skipped := false
				for _, k := range v {
					if !skipped && T[k].Tid == f.alts[c] {
						skipped = true
						continue
					}
					hint = append(hint, T[k].Tid)
				}
				if f.hints == nil {
					f.hints = map[int][]int{}
				}
				f.hints[c] = hint
			} else if os.Getenv("VERIF_NO_FALLBACK") == "" {
				for ai := range f.alts {
					f.backtrack[ai] = true
				}
			}
		}
	}
}

func exploreDPOR(sc *Scenario, deadline time.Time, st *exploreStats) {
	d := &dporState{sc: sc}
	seenViol := map[string]bool{}
	first := true
	for {
		if time.Now().After(deadline) {
			st.TimedOut = true
			return
		}
		if !first {
			// deepest frame with something left to explore
			k := len(d.frames) - 1
			next := -1
			for ; k >= 0; k-- {
				f := d.frames[k]
				for ai := 0; ai < f.n; ai++ {
					if f.alts != nil && f.asleep[f.alts[ai]] {
						continue // covered by an earlier branch
					}
					if f.backtrack[ai] && !f.done[ai] {
						next = ai
						break
					}
				}
				if next >= 0 {
					break
				}
			}
			if k < 0 {
				return
			}
			f := d.frames[k]
			// the alternatives explored before go to sleep in this branch
			f.sleepAdd = f.sleepAdd[:0]
			for ai := range f.done {
				if f.alts != nil && f.alts[ai] >= 0 {
					f.sleepAdd = append(f.sleepAdd, f.alts[ai])
				}
			}
			sort.Ints(f.sleepAdd)
			if noSleepSets {
				f.sleepAdd = f.sleepAdd[:0]
			}
			f.chosen = next
			f.done[next] = true
			d.frames = d.frames[:k+1]
		}
		first = false
		prefix, sa := d.prefix()
		var hint []int
		if n := len(d.frames); n > 0 {
			hint = d.frames[n-1].hints[d.frames[n-1].chosen]
		}
		dporHint = hint
		x := runScheduleEx(sc, prefix, false, true, sa)
		atomic.AddInt64(&execCounter, 1)
		if sc.MapOrder {
			for try := 0; try < 40 && x.Sched.Divergence != ""; try++ {
				x = runScheduleEx(sc, prefix, false, true, sa)
			}
			dporHint = nil
			if x.Sched.Divergence != "" {
				st.Unreproducible++
				continue
			}
		}
		s := x.Sched
		st.Points += len(s.Points)
		if len(s.Points) > st.MaxPoints {
			st.MaxPoints = len(s.Points)
		}
		if s.Divergence != "" {
			st.Diverged++
			st.Violations = append(st.Violations, exploreViol{Sig: "HARNESS|replay-divergence", Detail: s.Divergence, Choices: prefix, Scenario: sc.Name})
			continue
		}
		// frames for the decision points beyond the prefix
		for i := len(d.frames); i < len(s.Points); i++ {
			p := s.Points[i]
			f := &dFrame{alts: p.Alts, n: p.N, chosen: s.Choices[i], backtrack: map[int]bool{s.Choices[i]: true}, done: map[int]bool{s.Choices[i]: true}, asleep: map[int]bool{}}
			for _, t := range p.Sleep {
				f.asleep[t] = true
			}
			if p.Alts == nil {
				for ai := 0; ai < p.N; ai++ {
					f.backtrack[ai] = true
				}
			} else {
				for ai, tid := range p.Alts {
					if tid < 0 {
						f.backtrack[ai] = true // a timer firing here: always explored
					}
				}
			}
			d.frames = append(d.frames, f)
		}
		d.addRaces(s)
		if os.Getenv("VERIF_DPOR_TRACE") != "" {
			var bt []string
			for i, f := range d.frames {
				var b []int
				for ai := range f.backtrack {
					if !f.done[ai] {
						b = append(b, ai)
					}
				}
				if len(b) > 0 {
					bt = append(bt, fmt.Sprintf("%d:%v", i, b))
				}
			}
			sl := ""
			for i, p := range s.Points {
				if len(p.Sleep) > 0 {
					sl += fmt.Sprintf(" %d:%v", i, p.Sleep)
				}
			}
			fmt.Fprintf(os.Stderr, "RUN prefix=%d choices=%v blocked=%v outcome=%s pendingBacktrack=%v sleepAt=%s\n", len(prefix), s.Choices, s.SleepBlocked, x.Final, bt, sl)
		}
		if s.SleepBlocked {
			st.SleepBlocked++
			continue
		}
		st.Execs++
		st.Terminals[s.Term.String()]++
		if s.Term == verifrt.TermHorizon {
			st.Horizon++
		}
		st.Outcomes[shortHash(outcomeOf(x))]++
		if dumpOutcome != "" && strings.Contains(outcomeOf0(x), dumpOutcome) {
			dumpOutcome = ""
			fmt.Fprintf(os.Stderr, "DUMP choices %v\n", s.Choices)
			for k, r := range s.Steps {
				var ids []int
				for _, o := range r.Objs {
					ids = append(ids, s.ObjIDOf(o))
				}
				fmt.Fprintf(os.Stderr, "  step %3d thread %2d point %3d objs %v all=%v changed=%v\n", k, r.Tid, r.Point, ids, r.All, r.Changed)
			}
			for i, p := range s.Points {
				fmt.Fprintf(os.Stderr, "  point %3d alts %v chosen %d sleep %v\n", i, p.Alts, s.Choices[i], p.Sleep)
			}
		}
		for _, v := range checkExec(sc, x) {
			if seenViol[v[0]] {
				continue
			}
			seenViol[v[0]] = true
			// the recorded choices reproduce the execution without the reduction
			y, same := replaySame(sc, s.Choices, x)
			if !same {
				if sc.MapOrder {
					st.Unreproduced++
					seenViol[v[0]] = false
					continue
				}
				st.Violations = append(st.Violations, exploreViol{Sig: "HARNESS|nondeterministic-replay", Detail: "replaying the failing schedule gave a different outcome: " + v[0], Choices: s.Choices, Scenario: sc.Name})
				continue
			}
			st.Violations = append(st.Violations, exploreViol{Sig: v[0], Detail: v[1], Choices: append([]int{}, s.Choices...), Trace: describe(y), Scenario: sc.Name})
		}
	}
}

// replaySame runs the schedule again and tells whether the observation is the same. Scenarios whose code
// under test iterates a Go map get several attempts (each iteration order is a different execution).
func replaySame(sc *Scenario, choices []int, x *Exec) (*Exec, bool) {
	attempts := 1
	if sc.MapOrder {
		attempts = 12
	}
	var y *Exec
	for a := 0; a < attempts; a++ {
		y = runSchedule(sc, choices, true)
		if y.Sched.Divergence == "" && outcomeOf(y) == outcomeOf(x) {
			return y, true
		}
	}
	return y, false
}

func checkExec(sc *Scenario, x *Exec) [][2]string {
	var out [][2]string
	s := x.Sched
	if s.Term == verifrt.TermPanic {
		msg := firstLine(fmt.Sprint(s.PanicVal))
		out = append(out, [2]string{"panic@" + panicSite(s.PanicStk), fmt.Sprintf("thread %d panicked: %s", s.PanicThr, msg)})
		return out
	}
	if sc.Check != nil {
		out = append(out, sc.Check(x)...)
	}
	return out
}

func describe(x *Exec) []string {
	var out []string
	for _, c := range x.Calls {
		r := "(never returned)"
		if c.Ret >= 0 {
			r = c.Reply.String()
		}
		out = append(out, fmt.Sprintf("thread %d: %s  [events %d..%d] => %s", c.Thread, strings.Join(c.Args, " "), c.Inv, c.Ret, r))
	}
	out = append(out, x.Notes...)
	out = append(out, "final: "+x.Final)
	out = append(out, "terminal: "+x.Sched.Term.String())
	if len(x.Sched.Trace) > 0 {
		tr := x.Sched.Trace
		if len(tr) > 300 {
			tr = tr[len(tr)-300:]
		}
		out = append(out, "schedule (thread:op): "+strings.Join(tr, " "))
	}
	return out
}

func shortHash(s string) string {
	h := uint64(14695981039346656037)
	for i := 0; i < len(s); i++ {
		h = (h ^ uint64(s[i])) * 1099511628211
	}
	return fmt.Sprintf("%016x", h)
}

// ---- parallel driver ------------------------------------------------------------------------

type exploreTask struct {
	Scenario int   `json:"s"`
	Prefix   []int `json:"p"`
	Bound    int   `json:"b"` // preemption bound; < 0: unbounded with sleep-set reduction
	Budget   int   `json:"t"` // seconds
	SleepAdd map[int][]int `json:"z,omitempty"`
}

var workerBusy int64
var currentScenario string
var execCounter int64 // progress indicator for the watchdog (written by the exploring goroutine only)

func exploreWorker(scenarios []*Scenario) {
	redisemu.VInit()
	// watchdog: an execution that makes no progress for 60 s is a pure compute loop inside the
	// implementation (or a harness fault); dump all stacks and die so that the parent can report it
	go func() {
		last, since := int64(-1), time.Now()
		for {
			time.Sleep(2 * time.Second)
			cur := atomic.LoadInt64(&execCounter)
			if cur != last {
				last, since = cur, time.Now()
				continue
			}
			if time.Since(since) > 60*time.Second && atomic.LoadInt64(&workerBusy) == 1 {
				fmt.Fprintf(os.Stderr, "WATCHDOG: no progress for 60 s in %s; goroutine dump follows\n", currentScenario)
				pprof.Lookup("goroutine").WriteTo(os.Stderr, 2)
				os.Exit(3)
			}
		}
	}()
	dec := json.NewDecoder(bufio.NewReaderSize(os.Stdin, 1<<20))
	w := bufio.NewWriterSize(protoOut, 1<<20)
	enc := json.NewEncoder(w)
	for {
		var t exploreTask
		if err := dec.Decode(&t); err != nil {
			if err == io.EOF {
				return
			}
			os.Exit(2)
		}
		st := newStats()
		currentScenario = scenarios[t.Scenario].Name
		atomic.StoreInt64(&workerBusy, 1)
		if t.Bound < 0 {
			exploreDPOR(scenarios[t.Scenario], time.Now().Add(time.Duration(t.Budget)*time.Second), st)
		} else {
			exploreFrom(scenarios[t.Scenario], t.Prefix, t.Bound, time.Now().Add(time.Duration(t.Budget)*time.Second), st)
		}
		atomic.StoreInt64(&workerBusy, 0)
		enc.Encode(st)
		w.Flush()
	}
}

// runExplore explores every scenario up to the preemption bound on the worker pool.
func runExplore(propID, group string, scenarios []*Scenario, bound int, tier string, rep *Report) {
	runExploreSel(propID, group, scenarios, bound, tier, rep, nil)
}

// selfTestReduction compares, for a few scenarios of the group, the outcomes of an exploration
// without reduction (and without bound) with those of the reduced one: equal when both finish,
// contained when only the reduced one does. A difference is a fault of the explorer (exit 2), never a
// violation of the property.
func selfTestReduction(group string, scenarios []*Scenario, sel func(*Scenario) bool, secs int, rep *Report) {
	var cand []*Scenario
	for _, sc := range scenarios {
		// scenarios whose executions depend on the iteration order of a Go map are not comparable run to run
		if (sel == nil || sel(sc)) && !sc.MapOrder {
			cand = append(cand, sc)
		}
	}
	n := 6
	if len(cand) < n {
		n = len(cand)
	}
	outcomeWithRealTimeOrder = true
	defer func() { outcomeWithRealTimeOrder = false }()
	res := map[string]int{}
	for k := 0; k < n; k++ {
		sc := cand[k*len(cand)/n]
		full, red := newStats(), newStats()
		exploreFrom(sc, nil, 1<<30, time.Now().Add(time.Duration(secs)*time.Second), full)
		exploreDPOR(sc, time.Now().Add(time.Duration(secs)*time.Second), red)
		switch {
		case red.TimedOut:
			res["reduced_exploration_unfinished"]++
			continue
		}
		missing := 0
		for o := range full.Outcomes {
			if _, ok := red.Outcomes[o]; !ok {
				missing++
			}
		}
		extra := len(red.Outcomes) - (len(full.Outcomes) - missing)
		switch {
		case missing > 0 || (!full.TimedOut && extra != 0):
			res["differing"]++
			rep.HarnessErr = append(rep.HarnessErr, fmt.Sprintf("partial-order reduction self-test: scenario %s: %d outcomes of the unreduced exploration (%d schedules, finished=%v) are missing in the reduced one (%d schedules), %d extra", sc.Name, missing, full.Execs, !full.TimedOut, red.Execs, extra))
		case full.TimedOut:
			res["contained"]++
		default:
			res["equal"]++
		}
		res["schedules_unreduced"] += full.Execs
		res["schedules_reduced"] += red.Execs
	}
	rep.Coverage["reduction_selftest_"+group] = res
}

// runExploreSel: only the scenarios accepted by sel (nil: all) are explored; scenarios is always the
// complete list of the group, because the workers address scenarios by their index in it.
func runExploreSel(propID, group string, scenarios []*Scenario, bound int, tier string, rep *Report, sel func(*Scenario) bool) {
	redisemu.VInit()
	total := newStats()
	perScenario := map[string]map[string]int{}
	notFinished := map[string]bool{}
	var tasks []exploreTask
	deadline := time.Now().Add(tierBudget(tier))
	// split: expand the root of every scenario by one level so that there is enough parallelism
	selected := 0
	for si, sc := range scenarios {
		if sel != nil && !sel(sc) {
			continue
		}
		selected++
		if bound < 0 {
			// unbounded with partial-order reduction: one task per scenario (the backtrack sets of a
			// scenario are one data structure)
			tasks = append(tasks, exploreTask{Scenario: si, Bound: -1})
			continue
		}
		x := runSchedule(sc, nil, false)
		s := x.Sched
		bound := bound + sc.BoundDelta
		if bound < 0 {
			bound = 0
		}
		if len(scenarios) >= 3*numWorkers() || len(s.Points) == 0 {
			tasks = append(tasks, exploreTask{Scenario: si, Prefix: []int{}, Bound: bound})
			continue
		}
		// the root execution itself
		st := newStats()
		exploreFromRootOnly(sc, st)
		total.merge(st)
		cost := 0
		for i, p := range s.Points {
			for alt := 1; alt < p.N; alt++ {
				if cost+costOf(p, alt) <= bound {
					tasks = append(tasks, exploreTask{Scenario: si, Prefix: append(append([]int{}, s.Choices[:i]...), alt), Bound: bound})
				}
			}
			cost += costOf(p, s.Choices[i])
		}
	}
	slice := int(tierBudget(tier).Seconds()) * numWorkers() / (len(tasks) + 1)
	if min := int(tierBudget(tier).Seconds()) / 4; slice < min {
		slice = min
	}
	if bound < 0 && tier != "thorough" && slice > 45 {
		slice = 45 // quick: a scenario whose unbounded exploration is not done by then is reported as unfinished
	}
	taskCh := make(chan exploreTask, len(tasks))
	for _, t := range tasks {
		taskCh <- t
	}
	close(taskCh)
	var mu sync.Mutex
	var wg sync.WaitGroup
	for w := 0; w < numWorkers(); w++ {
		wg.Add(1)
		go func() {
			defer wg.Done()
			wp, err := startWorker("exploreworker", propID, group, tier)
			if err != nil {
				mu.Lock()
				rep.HarnessErr = append(rep.HarnessErr, err.Error())
				mu.Unlock()
				return
			}
			for t := range taskCh {
				left := int(time.Until(deadline).Seconds())
				if left <= 0 {
					mu.Lock()
					total.TimedOut = true
					notFinished[scenarios[t.Scenario].Name] = true
					mu.Unlock()
					continue
				}
				// fair shares: one heavy scenario must not starve the others
				if left > slice {
					left = slice
				}
				t.Budget = left
				js, _ := json.Marshal(t)
				wp.in.Write(append(js, '\n'))
				line, err := wp.out.ReadBytes('\n')
				st := newStats()
				if err == nil {
					err = json.Unmarshal(line, st)
				}
				mu.Lock()
				if err != nil {
					rep.HarnessErr = append(rep.HarnessErr, fmt.Sprintf("explore worker died on scenario %s prefix %v", scenarios[t.Scenario].Name, t.Prefix))
					mu.Unlock()
					wp.cmd.Process.Kill()
					wp.cmd.Wait()
					wp, _ = startWorker("exploreworker", propID, group, tier)
					continue
				}
				total.merge(st)
				name := scenarios[t.Scenario].Name
				if st.TimedOut {
					notFinished[name] = true
				}
				if perScenario[name] == nil {
					perScenario[name] = map[string]int{}
				}
				perScenario[name]["schedules"] += st.Execs
				perScenario[name]["cut"] += st.SleepBlocked
				perScenario[name]["outcomes"] = len(st.Outcomes) + perScenario[name]["outcomes"]
				mu.Unlock()
			}
			wp.in.Close()
			wp.cmd.Wait()
		}()
	}
	wg.Wait()
	for _, v := range total.Violations {
		if strings.HasPrefix(v.Sig, "HARNESS|") {
			rep.HarnessErr = append(rep.HarnessErr, fmt.Sprintf("%s: %s (scenario %s, choices %v)", v.Sig, v.Detail, v.Scenario, v.Choices))
			continue
		}
		rep.add(v.Scenario+"|"+v.Sig, v.Detail, map[string]any{"scenario": v.Scenario, "choices": v.Choices, "trace": v.Trace})
	}
	addCov := func(k string, n int) {
		if old, ok := rep.Coverage[k].(int); ok {
			n += old
		}
		rep.Coverage[k] = n
	}
	addCov("states", total.Points+total.Execs)
	addCov("transitions", total.Points)
	addCov("traces_validated_against_impl", total.Execs)
	addCov("schedules", total.Execs)
	addCov("scenarios", selected)
	addCov("distinct_outcomes", len(total.Outcomes))
	addCov("horizon_hits", total.Horizon)
	addCov("replay_divergences", total.Diverged)
	addCov("failures_not_reproduced_map_order", total.Unreproduced)
	addCov("prefixes_skipped_map_iteration_order", total.Unreproducible)
	rep.Coverage["preemption_bound_"+group] = bound
	if bound < 0 {
		delete(rep.Coverage, "preemption_bound_"+group)
		group += "_unbounded"
		rep.Coverage["mode_"+group] = "no preemption bound; sleep-set partial-order reduction (schedules that differ only in the order of commuting steps are explored once)"
		addCov("executions_cut_by_sleep_sets", total.SleepBlocked)
	}
	{
		ps := map[string]any{}
		for n, m := range perScenario {
			ps[n] = map[string]int{"schedules": m["schedules"], "cut_by_sleep_sets": m["cut"]}
		}
		rep.Coverage["per_scenario_"+group] = ps
	}
	if len(notFinished) > 0 {
		var names []string
		for n := range notFinished {
			names = append(names, n)
		}
		sort.Strings(names)
		rep.Coverage["scenarios_not_finished_"+group] = names
	}
	pb := map[string]int{}
	for k, v := range total.PerBound {
		pb[itoa(k)] = v
	}
	rep.Coverage["schedules_per_preemption_count_"+group] = pb
	rep.Coverage["terminals_"+group] = total.Terminals
	if bound < 0 && unboundedIsExtra {
		rep.Coverage["unbounded_pass_complete_"+group] = !total.TimedOut
	} else if old, ok := rep.Coverage["exhaustive"].(bool); ok {
		rep.Coverage["exhaustive"] = old && !total.TimedOut
	} else {
		rep.Coverage["exhaustive"] = !total.TimedOut
	}
	rep.Coverage["rule"] = "all thread schedules of each scenario up to the preemption bound (scheduling points at every lock, atomic, channel, select, sleep, timer and socket operation), explored by prefix replay on the real implementation; states = nodes of the schedule tree"
	if len(scenarios) > 0 {
		x := runSchedule(scenarios[0], nil, true)
		rep.sample(map[string]any{"scenario": scenarios[0].Name, "default_schedule": describe(x)})
		x2 := runSchedule(scenarios[len(scenarios)/2], nil, false)
		rep.sample(map[string]any{"scenario": scenarios[len(scenarios)/2].Name, "default_schedule": describe(x2)})
	}
}

func exploreFromRootOnly(sc *Scenario, st *exploreStats) {
	x := runSchedule(sc, nil, false)
	st.Execs++
	st.Points += len(x.Sched.Points)
	st.Terminals[x.Sched.Term.String()]++
	st.PerBound[0]++
	st.Outcomes[shortHash(outcomeOf(x))]++
	for _, v := range checkExec(sc, x) {
		y := runSchedule(sc, x.Sched.Choices, true)
		st.Violations = append(st.Violations, exploreViol{Sig: v[0], Detail: v[1], Choices: append([]int{}, x.Sched.Choices...), Trace: describe(y), Scenario: sc.Name})
	}
}
