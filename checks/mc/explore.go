package main

// E2: stateless exploration of thread schedules by prefix replay with iterative preemption
// bounding (CHESS style). A scenario builds a fresh emulator instance, spawns its connection
// threads under the controlled scheduler and evaluates an oracle at the terminal state.

import (
	"bufio"
	"encoding/json"
	"fmt"
	"io"
	"os"
	"runtime/pprof"
	"sort"
	"strings"
	"sync"
	"sync/atomic"
	"time"

	redisemu "github.com/jimsnab/go-redisemu"
	vm "github.com/jimsnab/go-redisemu/verifmodel"
	"github.com/jimsnab/go-redisemu/verifrt"
)

// Call is one command issued by a scenario thread, with the global step numbers of its
// invocation and response (real-time order).
type Call struct {
	Thread int
	Args   []string
	Reply  vm.Reply
	Raw    string
	Inv    int
	Ret    int // -1: never returned
	TInv   int64 // virtual time (ms) at invocation / response
	TRet   int64
}

type Exec struct {
	Sched    *verifrt.Sched
	Inst     *redisemu.VInst
	Calls    []*Call
	Notes    []string
	Final    string // canonical dump of the observable state at quiescence
	Finished bool   // the scenario body ran to its end
	Extra    map[string]any
}

func (x *Exec) note(f string, a ...any) { x.Notes = append(x.Notes, fmt.Sprintf(f, a...)) }

// do issues a command on behalf of the calling thread and records it.
func (x *Exec) do(thread int, cl *redisemu.VClient, args ...string) vm.Reply {
	c := &Call{Thread: thread, Args: args, Inv: x.Sched.Step, Ret: -1, TInv: verifrt.Now().UnixMilli()}
	x.Calls = append(x.Calls, c)
	raw := cl.Do(args...)
	c.Ret = x.Sched.Step
	c.TRet = verifrt.Now().UnixMilli()
	c.Raw = string(raw)
	r, err := vm.Parse1(raw)
	if err != nil {
		r = vm.Err("PARSE " + err.Error())
	}
	c.Reply = r
	return r
}

// dump renders the full observable state of database 0..1 through cl (canonical, sorted).
func dumpState(cl *redisemu.VClient, dbs []int) string {
	var sb strings.Builder
	for _, db := range dbs {
		parse := func(args ...string) vm.Reply {
			r, err := vm.Parse1(cl.Do(args...))
			if err != nil {
				return vm.Err("PARSE " + err.Error())
			}
			return r
		}
		parse("SELECT", itoa(db))
		keys := parse("KEYS", "*")
		names := []string{}
		for _, k := range keys.A {
			names = append(names, k.S)
		}
		sort.Strings(names)
		fmt.Fprintf(&sb, "db%d{", db)
		for _, k := range names {
			t := parse("TYPE", k).S
			var v vm.Reply
			switch t {
			case "string":
				v = parse("GET", k)
			case "list":
				v = parse("LRANGE", k, "0", "-1")
			case "hash":
				v = parse("HGETALL", k)
				v.K = vm.KUMap
			case "set":
				v = parse("SMEMBERS", k)
				v.K = vm.KUSet
			}
			ttl := parse("PTTL", k)
			tt := ""
			if ttl.I >= 0 {
				tt = "+ttl"
			}
			fmt.Fprintf(&sb, "%q:%s%s=%s;", k, t, tt, vm.Canon(v))
		}
		sb.WriteString("}")
	}
	cl.Do("SELECT", "0")
	return sb.String()
}

type Scenario struct {
	Name string
	// Body runs as thread 0 under the scheduler. It builds the instance, spawns threads with
	// x.spawn and typically ends with verifrt.AwaitQuiescence() followed by observations.
	Body func(x *Exec)
	// Check is evaluated after the execution ended; it returns violations (signature, detail).
	Check func(x *Exec) [][2]string
	// Horizon overrides the step budget.
	Horizon   int
	TimerAlts bool
	// MapOrder: the scenario runs a command that walks a Go map of connections (CLIENT LIST,
	// CLIENT KILL) while taking locks per entry; Go randomises that order, so a recorded prefix
	// may not be replayable. Such prefixes are retried and, if still unreproducible, skipped and
	// counted (never reported as a violation); everywhere else a divergence is a harness error.
	MapOrder bool
}

// runSchedule executes the scenario under the schedule described by prefix.
func runSchedule(sc *Scenario, prefix []int, trace bool) *Exec {
	redisemu.VResetGlobals()
	x := &Exec{Extra: map[string]any{}}
	s := verifrt.NewSched(prefix)
	if sc.Horizon > 0 {
		s.Horizon = sc.Horizon
	} else {
		s.Horizon = 20000
	}
	s.TimerAlts = sc.TimerAlts
	s.TraceOn = trace
	x.Sched = s
	s.Run(func() {
		sc.Body(x)
		x.Finished = true
	})
	return x
}

func costOf(p verifrt.PointInfo, choice int) int {
	if choice == 0 {
		return 0
	}
	if p.Alts == nil {
		return 1 // a non-default environment / select choice
	}
	if p.Alts[choice] < 0 {
		return 1 // a timer fires although threads could run
	}
	if p.CurEnabled {
		return 1 // preemption: the running thread could have continued
	}
	return 0 // the running thread blocked or ended: any successor is free
}

type exploreStats struct {
	Execs       int            `json:"execs"`
	Points      int            `json:"points"`
	MaxPoints   int            `json:"max_points"`
	Horizon     int            `json:"horizon_hits"`
	Diverged    int            `json:"replay_divergences"`
	Unreproducible int         `json:"unreproducible_prefixes"`
	Outcomes    map[string]int `json:"outcomes"`
	Terminals   map[string]int `json:"terminals"`
	PerBound    map[int]int    `json:"per_bound"`
	Violations  []exploreViol  `json:"violations"`
	TimedOut    bool           `json:"timed_out"`
}

type exploreViol struct {
	Sig      string   `json:"sig"`
	Detail   string   `json:"detail"`
	Choices  []int    `json:"choices"`
	Trace    []string `json:"trace"`
	Scenario string   `json:"scenario"`
}

func newStats() *exploreStats {
	return &exploreStats{Outcomes: map[string]int{}, Terminals: map[string]int{}, PerBound: map[int]int{}}
}

func (st *exploreStats) merge(o *exploreStats) {
	st.Execs += o.Execs
	st.Points += o.Points
	if o.MaxPoints > st.MaxPoints {
		st.MaxPoints = o.MaxPoints
	}
	st.Horizon += o.Horizon
	st.Diverged += o.Diverged
	st.Unreproducible += o.Unreproducible
	for k, v := range o.Outcomes {
		st.Outcomes[k] += v
	}
	for k, v := range o.Terminals {
		st.Terminals[k] += v
	}
	for k, v := range o.PerBound {
		st.PerBound[k] += v
	}
	st.Violations = append(st.Violations, o.Violations...)
	st.TimedOut = st.TimedOut || o.TimedOut
}

func outcomeOf(x *Exec) string {
	var sb strings.Builder
	for _, c := range x.Calls {
		if c.Ret < 0 {
			fmt.Fprintf(&sb, "t%d:%s=>(blocked);", c.Thread, strings.Join(c.Args, " "))
		} else {
			fmt.Fprintf(&sb, "t%d:%s=>%s;", c.Thread, strings.Join(c.Args, " "), vm.Canon(c.Reply))
		}
	}
	sb.WriteString("|" + x.Final)
	return sb.String()
}

// exploreFrom explores the subtree below prefix (the execution of prefix itself included).
func exploreFrom(sc *Scenario, root []int, bound int, deadline time.Time, st *exploreStats) {
	type node struct {
		prefix []int
		from   int // branching allowed at decision points >= from
	}
	stack := []node{{root, len(root)}}
	seenViol := map[string]bool{}
	for len(stack) > 0 {
		if time.Now().After(deadline) {
			st.TimedOut = true
			return
		}
		n := stack[len(stack)-1]
		stack = stack[:len(stack)-1]
		x := runSchedule(sc, n.prefix, false)
		atomic.AddInt64(&execCounter, 1)
		if sc.MapOrder {
			for try := 0; try < 40 && x.Sched.Divergence != ""; try++ {
				x = runSchedule(sc, n.prefix, false)
			}
			if x.Sched.Divergence != "" {
				st.Unreproducible++
				continue
			}
		}
		s := x.Sched
		st.Execs++
		st.Points += len(s.Points)
		if len(s.Points) > st.MaxPoints {
			st.MaxPoints = len(s.Points)
		}
		st.Terminals[s.Term.String()]++
		if s.Divergence != "" {
			st.Diverged++
			st.Violations = append(st.Violations, exploreViol{Sig: "HARNESS|replay-divergence", Detail: s.Divergence, Choices: n.prefix, Scenario: sc.Name})
			continue
		}
		if s.Term == verifrt.TermHorizon {
			st.Horizon++
		}
		// cost of the path so far
		cost := 0
		costs := make([]int, len(s.Points)+1)
		for i, p := range s.Points {
			costs[i] = cost
			cost += costOf(p, s.Choices[i])
		}
		costs[len(s.Points)] = cost
		st.PerBound[cost]++
		st.Outcomes[shortHash(outcomeOf(x))]++
		for _, v := range checkExec(sc, x) {
			if seenViol[v[0]] {
				continue
			}
			seenViol[v[0]] = true
			// determinism: the same schedule must give the same observation
			y := runSchedule(sc, s.Choices, true)
			if outcomeOf(y) != outcomeOf(x) {
				st.Violations = append(st.Violations, exploreViol{Sig: "HARNESS|nondeterministic-replay", Detail: "replaying the failing schedule gave a different outcome: " + v[0], Choices: s.Choices, Scenario: sc.Name})
				continue
			}
			st.Violations = append(st.Violations, exploreViol{Sig: v[0], Detail: v[1], Choices: append([]int{}, s.Choices...), Trace: describe(y), Scenario: sc.Name})
		}
		for i := len(s.Points) - 1; i >= n.from; i-- {
			p := s.Points[i]
			for alt := 1; alt < p.N; alt++ {
				if costs[i]+costOf(p, alt) > bound {
					continue
				}
				np := append(append([]int{}, s.Choices[:i]...), alt)
				stack = append(stack, node{np, i + 1})
			}
		}
	}
}

func checkExec(sc *Scenario, x *Exec) [][2]string {
	var out [][2]string
	s := x.Sched
	if s.Term == verifrt.TermPanic {
		msg := firstLine(fmt.Sprint(s.PanicVal))
		out = append(out, [2]string{"panic@" + panicSite(s.PanicStk), fmt.Sprintf("thread %d panicked: %s", s.PanicThr, msg)})
		return out
	}
	if sc.Check != nil {
		out = append(out, sc.Check(x)...)
	}
	return out
}

func describe(x *Exec) []string {
	var out []string
	for _, c := range x.Calls {
		r := "(never returned)"
		if c.Ret >= 0 {
			r = c.Reply.String()
		}
		out = append(out, fmt.Sprintf("thread %d: %s  [steps %d..%d] => %s", c.Thread, strings.Join(c.Args, " "), c.Inv, c.Ret, r))
	}
	out = append(out, x.Notes...)
	out = append(out, "final: "+x.Final)
	out = append(out, "terminal: "+x.Sched.Term.String())
	if len(x.Sched.Trace) > 0 {
		tr := x.Sched.Trace
		if len(tr) > 300 {
			tr = tr[len(tr)-300:]
		}
		out = append(out, "schedule (thread:op): "+strings.Join(tr, " "))
	}
	return out
}

func shortHash(s string) string {
	h := uint64(14695981039346656037)
	for i := 0; i < len(s); i++ {
		h = (h ^ uint64(s[i])) * 1099511628211
	}
	return fmt.Sprintf("%016x", h)
}

// ---- parallel driver ------------------------------------------------------------------------

type exploreTask struct {
	Scenario int   `json:"s"`
	Prefix   []int `json:"p"`
	Bound    int   `json:"b"`
	Budget   int   `json:"t"` // seconds
}

var workerBusy int64
var currentScenario string
var execCounter int64 // progress indicator for the watchdog (written by the exploring goroutine only)

func exploreWorker(scenarios []*Scenario) {
	redisemu.VInit()
	// watchdog: an execution that makes no progress for 60 s is a pure compute loop inside the
	// implementation (or a harness fault); dump all stacks and die so that the parent can report it
	go func() {
		last, since := int64(-1), time.Now()
		for {
			time.Sleep(2 * time.Second)
			cur := atomic.LoadInt64(&execCounter)
			if cur != last {
				last, since = cur, time.Now()
				continue
			}
			if time.Since(since) > 60*time.Second && atomic.LoadInt64(&workerBusy) == 1 {
				fmt.Fprintf(os.Stderr, "WATCHDOG: no progress for 60 s in %s; goroutine dump follows\n", currentScenario)
				pprof.Lookup("goroutine").WriteTo(os.Stderr, 2)
				os.Exit(3)
			}
		}
	}()
	dec := json.NewDecoder(bufio.NewReaderSize(os.Stdin, 1<<20))
	w := bufio.NewWriterSize(protoOut, 1<<20)
	enc := json.NewEncoder(w)
	for {
		var t exploreTask
		if err := dec.Decode(&t); err != nil {
			if err == io.EOF {
				return
			}
			os.Exit(2)
		}
		st := newStats()
		currentScenario = scenarios[t.Scenario].Name
		atomic.StoreInt64(&workerBusy, 1)
		exploreFrom(scenarios[t.Scenario], t.Prefix, t.Bound, time.Now().Add(time.Duration(t.Budget)*time.Second), st)
		atomic.StoreInt64(&workerBusy, 0)
		enc.Encode(st)
		w.Flush()
	}
}

// runExplore explores every scenario up to the preemption bound on the worker pool.
func runExplore(propID, group string, scenarios []*Scenario, bound int, tier string, rep *Report) {
	redisemu.VInit()
	total := newStats()
	perScenario := map[string]map[string]int{}
	var tasks []exploreTask
	deadline := time.Now().Add(tierBudget(tier))
	// split: expand the root of every scenario by one level so that there is enough parallelism
	for si, sc := range scenarios {
		x := runSchedule(sc, nil, false)
		s := x.Sched
		if len(scenarios) >= 3*numWorkers() || len(s.Points) == 0 {
			tasks = append(tasks, exploreTask{Scenario: si, Prefix: []int{}, Bound: bound})
			continue
		}
		// the root execution itself
		st := newStats()
		exploreFromRootOnly(sc, st)
		total.merge(st)
		cost := 0
		for i, p := range s.Points {
			for alt := 1; alt < p.N; alt++ {
				if cost+costOf(p, alt) <= bound {
					tasks = append(tasks, exploreTask{Scenario: si, Prefix: append(append([]int{}, s.Choices[:i]...), alt), Bound: bound})
				}
			}
			cost += costOf(p, s.Choices[i])
		}
	}
	taskCh := make(chan exploreTask, len(tasks))
	for _, t := range tasks {
		taskCh <- t
	}
	close(taskCh)
	var mu sync.Mutex
	var wg sync.WaitGroup
	for w := 0; w < numWorkers(); w++ {
		wg.Add(1)
		go func() {
			defer wg.Done()
			wp, err := startWorker("exploreworker", propID, group, tier)
			if err != nil {
				mu.Lock()
				rep.HarnessErr = append(rep.HarnessErr, err.Error())
				mu.Unlock()
				return
			}
			for t := range taskCh {
				left := int(time.Until(deadline).Seconds())
				if left <= 0 {
					mu.Lock()
					total.TimedOut = true
					mu.Unlock()
					continue
				}
				t.Budget = left
				js, _ := json.Marshal(t)
				wp.in.Write(append(js, '\n'))
				line, err := wp.out.ReadBytes('\n')
				st := newStats()
				if err == nil {
					err = json.Unmarshal(line, st)
				}
				mu.Lock()
				if err != nil {
					rep.HarnessErr = append(rep.HarnessErr, fmt.Sprintf("explore worker died on scenario %s prefix %v", scenarios[t.Scenario].Name, t.Prefix))
					mu.Unlock()
					wp.cmd.Process.Kill()
					wp.cmd.Wait()
					wp, _ = startWorker("exploreworker", propID, group, tier)
					continue
				}
				total.merge(st)
				name := scenarios[t.Scenario].Name
				if perScenario[name] == nil {
					perScenario[name] = map[string]int{}
				}
				perScenario[name]["schedules"] += st.Execs
				perScenario[name]["outcomes"] = len(st.Outcomes) + perScenario[name]["outcomes"]
				mu.Unlock()
			}
			wp.in.Close()
			wp.cmd.Wait()
		}()
	}
	wg.Wait()
	for _, v := range total.Violations {
		if strings.HasPrefix(v.Sig, "HARNESS|") {
			rep.HarnessErr = append(rep.HarnessErr, fmt.Sprintf("%s: %s (scenario %s, choices %v)", v.Sig, v.Detail, v.Scenario, v.Choices))
			continue
		}
		rep.add(v.Scenario+"|"+v.Sig, v.Detail, map[string]any{"scenario": v.Scenario, "choices": v.Choices, "trace": v.Trace})
	}
	addCov := func(k string, n int) {
		if old, ok := rep.Coverage[k].(int); ok {
			n += old
		}
		rep.Coverage[k] = n
	}
	addCov("states", total.Points+total.Execs)
	addCov("transitions", total.Points)
	addCov("traces_validated_against_impl", total.Execs)
	addCov("schedules", total.Execs)
	addCov("scenarios", len(scenarios))
	addCov("distinct_outcomes", len(total.Outcomes))
	addCov("horizon_hits", total.Horizon)
	addCov("replay_divergences", total.Diverged)
	addCov("prefixes_skipped_map_iteration_order", total.Unreproducible)
	rep.Coverage["preemption_bound_"+group] = bound
	pb := map[string]int{}
	for k, v := range total.PerBound {
		pb[itoa(k)] = v
	}
	rep.Coverage["schedules_per_preemption_count_"+group] = pb
	rep.Coverage["terminals_"+group] = total.Terminals
	if old, ok := rep.Coverage["exhaustive"].(bool); ok {
		rep.Coverage["exhaustive"] = old && !total.TimedOut
	} else {
		rep.Coverage["exhaustive"] = !total.TimedOut
	}
	rep.Coverage["rule"] = "all thread schedules of each scenario up to the preemption bound (scheduling points at every lock, atomic, channel, select, sleep, timer and socket operation), explored by prefix replay on the real implementation; states = nodes of the schedule tree"
	if len(scenarios) > 0 {
		x := runSchedule(scenarios[0], nil, true)
		rep.sample(map[string]any{"scenario": scenarios[0].Name, "default_schedule": describe(x)})
		x2 := runSchedule(scenarios[len(scenarios)/2], nil, false)
		rep.sample(map[string]any{"scenario": scenarios[len(scenarios)/2].Name, "default_schedule": describe(x2)})
	}
}

func exploreFromRootOnly(sc *Scenario, st *exploreStats) {
	x := runSchedule(sc, nil, false)
	st.Execs++
	st.Points += len(x.Sched.Points)
	st.Terminals[x.Sched.Term.String()]++
	st.PerBound[0]++
	st.Outcomes[shortHash(outcomeOf(x))]++
	for _, v := range checkExec(sc, x) {
		y := runSchedule(sc, x.Sched.Choices, true)
		st.Violations = append(st.Violations, exploreViol{Sig: v[0], Detail: v[1], Choices: append([]int{}, x.Sched.Choices...), Trace: describe(y), Scenario: sc.Name})
	}
}
