package main

// C20: lifecycle. The public NewEmulator/Start/RequestTermination/WaitForTermination/Close run on
// the in-memory network; every scenario is explored over the thread schedules of the closer,
// the emulator's own goroutines (accept loop, monitors, saver, connection state machines,
// command goroutines) and the client threads.

import (
	"time"
	"fmt"
	"strings"

	redisemu "github.com/jimsnab/go-redisemu"
	vm "github.com/jimsnab/go-redisemu/verifmodel"
	"github.com/jimsnab/go-redisemu/verifrt"
	vnet "github.com/jimsnab/go-redisemu/verifrt/vnet"
	vos "github.com/jimsnab/go-redisemu/verifrt/vos"
)

func init() {
	extraGroups["C20"] = []exploreGroup{{"life", 0, 1}}
	extraScenarios["C20/life"] = lifeScenarios
	unboundedPass["C20/life"] = "quick thorough instead"
}

// wcli is a client on the in-memory network.
type wcli struct {
	c    *vnet.MemConn
	name string
	buf  []byte
}

func dialW(port int, name string) (*wcli, error) {
	c, err := vnet.DialMem(port)
	if err != nil {
		return nil, err
	}
	return &wcli{c: c, name: name}, nil
}

func (w *wcli) send(args ...string) error {
	_, err := w.c.Write(vm.Encode(args...))
	return err
}

// recv blocks (under the scheduler) until one complete reply, EOF or an error arrives.
func (w *wcli) recv() (vm.Reply, string) {
	tmp := make([]byte, 4096)
	for {
		if len(w.buf) > 0 {
			r, next, incomplete, err := vm.ParseOne(w.buf, 0)
			if err != nil {
				return vm.Reply{}, "malformed: " + err.Error()
			}
			if !incomplete {
				w.buf = w.buf[next:]
				return r, ""
			}
		}
		n, err := w.c.Read(tmp)
		if err != nil {
			return vm.Reply{}, "closed: " + err.Error()
		}
		w.buf = append(w.buf, tmp[:n]...)
	}
}

func (w *wcli) call(args ...string) (vm.Reply, string) {
	if err := w.send(args...); err != nil {
		return vm.Reply{}, "closed: " + err.Error()
	}
	return w.recv()
}

// drain returns what is readable right now without blocking.
func (w *wcli) drain() []byte {
	tmp := make([]byte, 4096)
	for w.c.Pending() > 0 {
		n, _ := w.c.Read(tmp)
		w.buf = append(w.buf, tmp[:n]...)
	}
	out := w.buf
	w.buf = nil
	return out
}

type lifeScenario struct {
	name      string
	states    []string // client activity at the moment of termination
	racing    string   // "", "command", "connect": a thread racing with Close
	restart   bool     // start a successor on the same port
	second    bool     // a second emulator alive on another port
	persist   bool
	splitTerm bool // RequestTermination and WaitForTermination as two calls
	tickRaces bool // persist: the saver's tick may also fire at any point of the termination window
	heavy     bool // too many threads for the unbounded pass: preemption-bounded exploration only
}

const lifePort = 7000

func (ls *lifeScenario) scenario() *Scenario {
	return &Scenario{Name: ls.name, Horizon: 60000, Body: ls.body, Check: ls.check, MapOrder: true, TimerAlts: ls.persist && ls.tickRaces, TimerAltBudget: 1, BoundedOnly: ls.heavy}
}

func (ls *lifeScenario) body(x *Exec) {
	vnet.ResetNet()
	vos.ResetFS()
	verifrt.SetSerial(true) // set-up: one fixed schedule
	viol := func(sig, f string, a ...any) {
		v, _ := x.Extra["viol"].([][2]string)
		x.Extra["viol"] = append(v, [2]string{sig, fmt.Sprintf(f, a...)})
	}
	persist := ""
	if ls.persist {
		persist = "data/life"
		verifrt.SetQuiesceFirst(true) // the saver's one-second ticker never goes quiet
	}
	emu := redisemu.VNewEmu(lifePort, persist)
	emu.Start()
	var other *redisemu.VEmu
	var otherCli *wcli
	if ls.second {
		other = redisemu.VNewEmu(lifePort+1, "")
		other.Start()
		otherCli, _ = dialW(lifePort+1, "other")
		if r, e := otherCli.call("SET", "shared", "other-instance"); e != "" || r.S != "OK" {
			viol("setup", "second instance: SET answered %v %s", r, e)
		}
	}
	// --- clients in their states
	var clis []*wcli
	for i, st := range ls.states {
		w, err := dialW(lifePort, fmt.Sprintf("c%d-%s", i, st))
		if err != nil {
			viol("setup", "dial: %v", err)
			return
		}
		clis = append(clis, w)
		switch st {
		case "idle":
			if r, e := w.call("SET", "shared", "first-instance"); e != "" || r.S != "OK" {
				viol("setup", "idle client: SET answered %v %s", r, e)
			}
		case "fresh":
			// connected, nothing sent yet
		case "gone":
			if r, e := w.call("SET", "gone"+fmt.Sprint(i), "1"); e != "" || r.S != "OK" {
				viol("setup", "leaving client: SET answered %v %s", r, e)
			}
		case "pipeline":
			// two complete commands and the first half of a third in one segment
			req := append(append(vm.Encode("SET", "p1", "1"), vm.Encode("SET", "p2", "2")...), vm.Encode("SET", "p3", "3")[:9]...)
			w.c.Write(req)
		case "mid-command-100", "mid-command-8191", "mid-command-8192", "mid-command-8193", "mid-command-16384", "mid-command-20000":
			// the client is part-way through one large command: exactly so many bytes of a 40 000 byte SET
			// have arrived (multiples of the emulator's 8192-byte read buffer among them)
			n := 0
			fmt.Sscanf(st[len("mid-command-"):], "%d", &n)
			w.c.Write(vm.Encode("SET", "big", strings.Repeat("V", 40000))[:n])
		case "multi":
			w.call("MULTI")
			if r, e := w.call("SET", "m1", "queued"); e != "" || r.S != "QUEUED" {
				viol("setup", "multi client: SET answered %v %s", r, e)
			}
		case "not-reading":
			// the client pipelines commands with large replies and does not read them: the emulator's
			// write to this connection blocks (4 KiB of send buffer)
			vnet.SendBuffer = 4096
			req := vm.Encode("SET", "big", strings.Repeat("B", 3000))
			for k := 0; k < 6; k++ {
				req = append(req, vm.Encode("GET", "big")...)
			}
			w.c.Write(req)
		case "blocked":
			w.send("BLPOP", "kb", "0")
		case "blocked-timeout":
			w.send("BLPOP", "kb", "1000")
		}
	}
	// clients that have come and gone before the termination ("gone"): they disconnect, oldest first,
	// after everybody has connected, and the emulator notices each before the next one leaves
	for i, st := range ls.states {
		if st == "gone" {
			verifrt.AwaitQuiescence()
			clis[i].c.Close()
			verifrt.AwaitQuiescence()
		}
	}
	if ls.racing == "" || ls.racing == "connect" {
		verifrt.AwaitQuiescence()
	}
	// --- termination, possibly racing with client activity: every schedule of this window
	verifrt.SetSerial(false)
	closed := false
	closeBegan := verifrt.Now()
	var closeTook time.Duration
	verifrt.GoNamed("closer", func() {
		defer func() { closeTook = verifrt.Now().Sub(closeBegan) }()
		if ls.splitTerm {
			emu.RequestTermination()
			emu.RequestTermination() // idempotent
			emu.WaitForTermination()
		} else {
			emu.Close()
		}
		closed = true
	})
	var racer *wcli
	var racerReply vm.Reply
	var racerErr string
	racerDone := false
	switch ls.racing {
	case "command":
		verifrt.GoNamed("racer", func() {
			racer = clis[0]
			racerReply, racerErr = racer.call("INCR", "counter")
			racerDone = true
		})
	case "connect":
		verifrt.GoNamed("racer", func() {
			w, err := dialW(lifePort, "late")
			if err != nil {
				racerErr = "refused"
				racerDone = true
				return
			}
			racer = w
			racerReply, racerErr = w.call("INCR", "counter")
			racerDone = true
		})
	}
	verifrt.AwaitQuiescence()
	verifrt.SetSerial(true) // observation: one fixed schedule
	// --- (1) Close returned
	if !closed {
		viol("close-does-not-return", "Close / WaitForTermination has not returned although every thread is idle (clients: %v)", ls.states)
		return
	}
	if closeTook > 5*time.Second && !ls.persist {
		viol("close-takes-too-long", "Close / WaitForTermination returned only after %v of virtual time (clients: %v): something waited for a client", closeTook, ls.states)
	}
	x.note("racer done=%v reply=%v err=%q", racerDone, racerReply, racerErr)
	// what the clients saw while the emulator was terminating is the outcome of the schedule
	x.Final = fmt.Sprintf("racer{done=%v reply=%s err=%q}", racerDone, vm.Canon(racerReply), racerErr)
	for _, w := range clis {
		x.Final += fmt.Sprintf(" %s{pending=%d peerClosed=%v}", w.name, w.c.Pending(), w.c.PeerClosed())
	}
	// --- (2) the port is released
	if vnet.PortBound(lifePort) {
		viol("port-still-bound", "the listening port is still bound after Close returned")
	}
	if w, err := dialW(lifePort, "after-close"); err == nil {
		verifrt.AwaitQuiescence()
		if r, e := w.call("PING"); e == "" {
			viol("accepts-after-close", "a connection made after Close was accepted and answered %v", r)
		}
	}
	// --- (3) existing connections are closed and can neither read nor modify data
	for i, w := range clis {
		if ls.states[i] == "gone" {
			continue
		}
		w.drain()
		var probe []string
		switch ls.states[i] {
		case "multi":
			probe = []string{"EXEC"}
		case "blocked", "blocked-timeout":
			probe = nil // the pending BLPOP is the request; a push below must not be delivered
		case "pipeline":
			w.c.Write(vm.Encode("SET", "p3", "3")[9:]) // the rest of the third command
			probe = []string{"GET", "p1"}
		default:
			probe = []string{"SET", "after", "close"}
		}
		if probe != nil {
			w.send(probe...)
		}
		verifrt.AwaitQuiescence()
		if got := w.drain(); len(got) > 0 {
			viol("served-after-close|"+ls.states[i], "client %s (%s at termination) sent %v after Close had returned and was answered %q", w.name, ls.states[i], probe, clipB(got))
		} else if !w.c.PeerClosed() {
			viol("connection-left-open|"+ls.states[i], "client %s (%s at termination): the server side of the connection is still open after Close returned", w.name, ls.states[i])
		}
	}
	if racer != nil && ls.racing == "connect" {
		racer.drain()
		racer.send("SET", "after", "close")
		verifrt.AwaitQuiescence()
		if got := racer.drain(); len(got) > 0 {
			viol("served-after-close|late-connection", "a connection accepted while Close was running was answered %q after Close had returned", clipB(got))
		} else if !racer.c.PeerClosed() {
			viol("connection-left-open|late-connection", "a connection accepted while Close was running is still open after Close returned")
		}
	}
	// --- (4) the second instance is unaffected
	if ls.second {
		if r, e := otherCli.call("GET", "shared"); e != "" || r.S != "other-instance" {
			viol("second-instance-affected", "after closing the first emulator the second one answers GET shared with %v %s", r, e)
		}
		if r, e := otherCli.call("CLIENT", "LIST"); e == "" {
			if n := strings.Count(r.S, "id="); n != 1 {
				viol("second-instance-sees-foreign-clients", "CLIENT LIST on the second emulator lists %d connections, it has 1: %q", n, clipB([]byte(r.S)))
			}
		}
		other.Close()
		verifrt.AwaitQuiescence()
	}
	// --- (5) a successor on the same port starts, and starts empty
	if ls.restart {
		emu2 := redisemu.VNewEmu(lifePort, persist)
		started := false
		verifrt.GoNamed("restart", func() {
			emu2.Start()
			started = true
		})
		verifrt.AwaitQuiescence()
		if !started {
			viol("restart-fails", "a new emulator on the same port does not start")
			return
		}
		w, err := dialW(lifePort, "successor")
		if err != nil {
			viol("restart-fails", "dial to the successor: %v", err)
			return
		}
		if ls.persist {
			// what was acknowledged before the shutdown is there after the restart
			if r, e := w.call("GET", "shared"); e != "" || r.S != "first-instance" {
				viol("acknowledged-write-lost|setup", "successor on the persist path: GET shared = %v %s, SET shared first-instance was acknowledged before Close", r, e)
			}
			if ls.racing == "command" && racerDone && racerErr == "" && racerReply.K == vm.KInt {
				if r, e := w.call("GET", "counter"); e != "" || r.S != fmt.Sprint(racerReply.I) {
					viol("acknowledged-write-lost|during-close", "successor on the persist path: GET counter = %v %s, but INCR counter was answered %v while Close was running", r, e, racerReply)
				}
			}
		} else {
			for _, k := range []string{"shared", "p1", "m1", "counter", "after"} {
				if r, e := w.call("EXISTS", k); e != "" || r.I != 0 {
					viol("successor-not-empty", "successor without persist path: EXISTS %s = %v %s", k, r, e)
				}
			}
			if r, e := w.call("DBSIZE"); e != "" || r.I != 0 {
				viol("successor-not-empty", "successor without persist path: DBSIZE = %v %s", r, e)
			}
		}
		if r, e := w.call("CLIENT", "LIST"); e == "" {
			if n := strings.Count(r.S, "id="); n != 1 {
				viol("successor-sees-old-clients", "CLIENT LIST on the successor lists %d connections, it has 1: %q", n, clipB([]byte(r.S)))
			}
		}
		// old connections must not reach the successor's data either
		w.call("SET", "fresh", "1")
		for i, o := range clis {
			if ls.states[i] == "gone" {
				continue
			}
			o.drain()
			o.send("GET", "fresh")
			verifrt.AwaitQuiescence()
			if got := o.drain(); string(got) == "$1\r\n1\r\n" {
				viol("old-client-reads-successor|"+ls.states[i], "client %s of the closed emulator reads the successor's data: %q", o.name, got)
			}
		}
		emu2.Close()
		verifrt.AwaitQuiescence()
	}
}

func (ls *lifeScenario) check(x *Exec) [][2]string {
	var out [][2]string
	if v, ok := x.Extra["viol"].([][2]string); ok {
		out = append(out, v...)
	}
	switch x.Sched.Term {
	case verifrt.TermPanic:
		msg := firstLine(fmt.Sprint(x.Sched.PanicVal))
		if _, isExit := x.Sched.PanicVal.(vos.ExitPanic); isExit {
			out = append(out, [2]string{"process-exit", "the emulator called os.Exit (" + msg + "): a successor could not bind the port"})
		} else {
			out = append(out, [2]string{"panic@" + panicSite(x.Sched.PanicStk), "panic: " + msg})
		}
	case verifrt.TermHorizon, verifrt.TermLivelock:
		out = append(out, [2]string{"does-not-settle", fmt.Sprintf("terminal %s: the emulator keeps running without coming to rest", x.Sched.Term)})
	default:
		if !x.Finished && len(out) == 0 {
			out = append(out, [2]string{"scenario-stuck", fmt.Sprintf("terminal %s: the scenario body did not finish", x.Sched.Term)})
		}
	}
	return out
}

func lifeScenarios(tier string) []*Scenario {
	var out []*Scenario
	add := func(ls *lifeScenario) {
		ls.tickRaces = tier == "thorough"
		out = append(out, ls.scenario())
	}
	// every single client state at termination
	for _, st := range []string{"idle", "fresh", "pipeline", "multi", "blocked", "blocked-timeout", "not-reading", "mid-command-100", "mid-command-8192", "mid-command-16384"} {
		add(&lifeScenario{name: "close/" + st, states: []string{st}, restart: true})
	}
	add(&lifeScenario{name: "close/no-clients", restart: true})
	// connections that have come and gone before the termination, in every position among those that stay
	add(&lifeScenario{name: "churn/gone+gone+idle", states: []string{"gone", "gone", "idle"}, restart: true})
	add(&lifeScenario{name: "churn/gone+idle+gone+blocked", states: []string{"gone", "idle", "gone", "blocked"}})
	add(&lifeScenario{name: "churn/idle+gone", states: []string{"idle", "gone"}, restart: true})
	add(&lifeScenario{name: "close/split-calls/idle+blocked", states: []string{"idle", "blocked"}, splitTerm: true})
	// termination racing with a command / a connect
	add(&lifeScenario{name: "race/command-during-close", states: []string{"idle"}, racing: "command"})
	add(&lifeScenario{name: "race/connect-during-close", states: []string{"idle"}, racing: "connect"})
	// two instances
	add(&lifeScenario{name: "two-instances/idle", states: []string{"idle"}, second: true})
	add(&lifeScenario{name: "two-instances/blocked+restart", states: []string{"blocked"}, second: true, restart: true})
	// persistence path: the saver goroutine is part of what Close waits for
	add(&lifeScenario{name: "persist/idle", states: []string{"idle"}, persist: true, restart: true})
	add(&lifeScenario{name: "persist/command-during-close", states: []string{"idle"}, persist: true, racing: "command", restart: true})
	if tier == "thorough" {
		add(&lifeScenario{name: "close/all-states", states: []string{"idle", "pipeline", "multi", "blocked"}})
		add(&lifeScenario{name: "race/command-during-close/blocked", states: []string{"idle", "blocked"}, racing: "command"})
		sts := []string{"idle", "pipeline", "multi", "blocked"}
		for _, a := range sts {
			for _, b := range sts {
				add(&lifeScenario{name: "close/pair/" + a + "+" + b, states: []string{a, b}, restart: true})
			}
			add(&lifeScenario{name: "race/command/" + a, states: []string{"idle", a}, racing: "command", restart: true})
			add(&lifeScenario{name: "race/connect/" + a, states: []string{a}, racing: "connect", restart: true})
			add(&lifeScenario{name: "two-instances/" + a, states: []string{a}, second: true, restart: true})
		}
		for _, sts := range [][]string{{"gone", "idle", "idle"}, {"idle", "gone", "gone", "idle"}, {"gone", "gone", "gone", "multi"}, {"gone", "blocked", "gone", "pipeline"}} {
			add(&lifeScenario{name: "churn/" + strings.Join(sts, "+"), states: sts, restart: true})
		}
		add(&lifeScenario{name: "churn/race/gone+gone+idle", states: []string{"gone", "gone", "idle"}, racing: "command"})
		for _, st := range []string{"mid-command-8191", "mid-command-8193", "mid-command-20000"} {
			add(&lifeScenario{name: "close/" + st, states: []string{st}, restart: true})
		}
		add(&lifeScenario{name: "close/not-reading+idle+blocked", states: []string{"not-reading", "idle", "blocked"}, restart: true})
		add(&lifeScenario{name: "race/command/not-reading", states: []string{"idle", "not-reading"}, racing: "command", restart: true})
		// repeated cycles on one port
		add(&lifeScenario{name: "cycle/idle-restart-persist", states: []string{"idle", "idle"}, persist: true, restart: true, splitTerm: true})
	}
	return out
}
