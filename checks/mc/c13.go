package main

// C13: no client input crashes the process, stalls other clients or goes unanswered.
// Part 1: byte strings generated from a grammar of RESP frames (every type byte, count and
// length classes, nesting, every proper prefix) are written to the socket of the real
// connection state machine. Part 2: every command of the emulator x arity 0..3(4) x argument
// value classes x key types is dispatched on a fresh instance.

import (
	"fmt"
	"sort"
	"strings"

	redisemu "github.com/jimsnab/go-redisemu"
	vm "github.com/jimsnab/go-redisemu/verifmodel"
	"github.com/jimsnab/go-redisemu/verifrt"
)

func init() {
	genLists["C13"] = c13Cases
	extraRunners["C13"] = func(tier string, rep *Report) {
		rep.Level = "exploration"
		ok, nt, units := runGen("C13", tier, 400, rep)
		rep.Coverage["evaluations"] = units
		rep.Coverage["distinct_nontrivial"] = nt
		rep.Coverage["cases_ok"] = ok
		cl := c13Cases(tier)
		rep.Coverage["cases"] = cl.N
		rep.Coverage["byte_string_cases"] = len(c13Bytes(tier))
		rep.Coverage["rule"] = "part 1: grammar-generated request byte strings (type byte x count/length class x payload class x nesting <= 2, blank lines, inline text) sent whole and split at every proper prefix; part 2: every handler name (incl. subcommands) x arity 0..3 x argument values from the boundary alphabet on a fixture with a key of every type; non-trivial = the case reached the dispatcher or was rejected by the parser with a reply"
		rep.Assume = append(rep.Assume,
			"a panic in a connection goroutine or handler is 'the process would have died' (the emulator has no recover)",
			"unbounded loops are detected by deterministic budgets (random draws, scheduler steps) and a 45 s no-progress watchdog per worker; unbounded allocation by an address-space limit on the worker process",
			"blocking commands may legitimately not answer (timeout 0)")
		for _, i := range []int{0, cl.N / 2, cl.N - 1} {
			rep.sample(cl.Name(i))
		}
	}
	levelOverride["C13"] = "exploration"
}

// ---- part 1: byte strings ----------------------------------------------------------------------

func c13Bytes(tier string) [][]byte {
	var out [][]byte
	add := func(s string) { out = append(out, []byte(s)) }
	counts := []string{"-2", "-1", "0", "1", "2", "3", "2147483647", "2147483648", "4294967296", "9223372036854775807", "9223372036854775808", "-9223372036854775808", "x", "", " 1", "1 ", "+1", "01", "1.5"}
	types := []string{"+", "-", ":", "$", "*", "%", "~", "|", ">", "!", "=", ",", "#", "_", "(", "?", ";", ".", "@", "\x00", "a", " "}
	for _, t := range types {
		for _, c := range counts {
			add(t + c + "\r\n")
			add(t + c + "\r\nabc\r\n")
			add(t + c + "\r\n$3\r\nabc\r\n")
			add("*1\r\n" + t + c + "\r\n")
			add("*2\r\n$4\r\nECHO\r\n" + t + c + "\r\n")
			add("*2\r\n$4\r\nECHO\r\n" + t + c + "\r\nabc\r\n")
			if tier == "thorough" {
				add("*2\r\n" + t + c + "\r\n$1\r\nx\r\n$1\r\ny\r\n")
				add("%1\r\n" + t + c + "\r\n$1\r\nx\r\n")
				add("*1\r\n*1\r\n" + t + c + "\r\n")
			}
		}
	}
	// streamed / chunked forms, blank lines, inline commands, binary junk
	for _, s := range []string{
		"\r\n", "\r\n\r\n", "\n", "\r", "PING\r\n", "PING", "SET k v\r\n", "*1\r\n$4\r\nPING\r\n", "*1\r\n$4\r\nPING\r\n\r\n*1\r\n$4\r\nPING\r\n",
		"$?\r\n;3\r\nabc\r\n;0\r\n", "*?\r\n$4\r\nPING\r\n.\r\n", "*?\r\n.\r\n", "%?\r\n.\r\n", "~?\r\n.\r\n", "|?\r\n.\r\n", "!?\r\n;1\r\nx\r\n;0\r\n", "$?\r\n;-1\r\n", "$?\r\nx\r\n", "*?\r\n*?\r\n*?\r\n.\r\n.\r\n.\r\n",
		"*1\r\n$-1\r\n", "*1\r\n*-1\r\n", "*2\r\n$4\r\nECHO\r\n$-1\r\n", "*2\r\n$4\r\nECHO\r\n*0\r\n", "*2\r\n$4\r\nECHO\r\n*1\r\n$1\r\nx\r\n", "*2\r\n$4\r\nECHO\r\n%1\r\n$1\r\na\r\n$1\r\nb\r\n", "*2\r\n$4\r\nECHO\r\n~1\r\n$1\r\na\r\n",
		"*2\r\n$4\r\nECHO\r\n:5\r\n", "*2\r\n$4\r\nECHO\r\n,1.5\r\n", "*2\r\n$4\r\nECHO\r\n#t\r\n", "*2\r\n$4\r\nECHO\r\n_\r\n", "*2\r\n$4\r\nECHO\r\n(123\r\n", "*2\r\n$4\r\nECHO\r\n=7\r\ntxt:abc\r\n", "*2\r\n$4\r\nECHO\r\n=2\r\nab\r\n", "*2\r\n$4\r\nECHO\r\n+simple\r\n", "*2\r\n$4\r\nECHO\r\n-err\r\n", "*2\r\n$4\r\nECHO\r\n!3\r\nerr\r\n",
		"*2\r\n:1\r\n$1\r\nx\r\n", "*2\r\n*1\r\n$4\r\nECHO\r\n$1\r\nx\r\n", "*2\r\n%0\r\n$1\r\nx\r\n", "*3\r\n$3\r\nSET\r\n$1\r\nk\r\n%1\r\n*1\r\n$1\r\na\r\n$1\r\nb\r\n", "%1\r\n*1\r\n$1\r\na\r\n$1\r\nb\r\n", "~1\r\n*1\r\n$1\r\na\r\n", "|1\r\n%0\r\n$1\r\nb\r\n",
		"*3\r\n$3\r\nSET\r\n$1\r\nk\r\n:7\r\n", "*3\r\n$4\r\nLPOP\r\n$1\r\nk\r\n,2.5\r\n", "*2\r\n$3\r\nGET\r\n#t\r\n", "*4\r\n$6\r\nEXPIRE\r\n$1\r\nk\r\n(99999999999999999999999\r\n$2\r\nNX\r\n",
		">2\r\n+pubsub\r\n$1\r\nx\r\n", ">0\r\n", ">1\r\n:1\r\n", "*1\r\n>1\r\n+x\r\n",
		"$3\r\nabcde\r\n", "$3\r\nab\r\n", "$5\r\nabc\r\n\r\n", "$0\r\n\r\n", "$0\r\nx\r\n", "*1\r\n$4\r\nPING", "*1\r\n$4\r\nPI", "*1\r\n$4", "*1\r\n$", "*1\r", "*",
		"\xff\xfe\xfd\r\n", "\x00\x00\x00\x00", strings.Repeat("*1\r\n", 50) + "$4\r\nPING\r\n", strings.Repeat("%1\r\n", 30) + "$1\r\na\r\n", strings.Repeat("a", 9000), strings.Repeat("a", 9000) + "\r\n", strings.Repeat("\r\n", 5000),
		"*1\r\n$9000\r\n" + strings.Repeat("x", 9000) + "\r\n", "*2\r\n$4\r\nECHO\r\n$9000\r\n" + strings.Repeat("x", 9000) + "\r\n", "*100000\r\n$4\r\nPING\r\n", "*2\r\n$4\r\nECHO\r\n$100000000\r\nabc\r\n",
	} {
		add(s)
	}
	return out
}

// ---- part 2: commands x arity x values ------------------------------------------------------------

var c13Values = []string{"", "0", "1", "-1", "2", "2147483648", "4294967296", "9223372036854775807", "-9223372036854775808", "-9223372036854775807", "-4611686018427387905", "4611686018427387905", "nan", "inf", "abc", "*", "ks", "kl", "kh", "kz", "kx", "nokey"}
var c13ValuesSmall = []string{"0", "-1", "9223372036854775807", "abc", "ks", "kl", "kh", "kz"}

type c13Cmd struct {
	words []string // command name words ("CLIENT", "KILL")
}

func c13Commands() []c13Cmd {
	names := redisemu.VHandlerNames()
	sort.Strings(names)
	var out []c13Cmd
	for _, n := range names {
		out = append(out, c13Cmd{words: strings.Split(strings.ToUpper(n), "|")})
	}
	// a few names that have no handler
	for _, n := range []string{"OBJECT", "DEBUG", "SUBSCRIBE", "ZADD", "EVAL", "CONFIG", "WAIT", "", "CLIENT"} {
		out = append(out, c13Cmd{words: []string{n}})
	}
	return out
}

type c13Case struct {
	bytes []byte   // part 1
	split int      // part 1: -1 = whole, else cut position
	args  []string // part 2
}

func c13List(tier string) []c13Case {
	var out, arity4 []c13Case
	for _, b := range c13Bytes(tier) {
		out = append(out, c13Case{bytes: b, split: -1})
		step := 1
		if len(b) > 200 {
			step = len(b) / 60
		}
		for c := 1; c < len(b); c += step {
			out = append(out, c13Case{bytes: b, split: c})
		}
	}
	for _, cmd := range c13Commands() {
		out = append(out, c13Case{args: cmd.words})
		for _, a := range c13Values {
			out = append(out, c13Case{args: append(append([]string{}, cmd.words...), a)})
			for _, b := range c13Values {
				out = append(out, c13Case{args: append(append([]string{}, cmd.words...), a, b)})
			}
		}
		vals3 := c13ValuesSmall
		if tier == "thorough" {
			vals3 = c13Values
		}
		for _, a := range vals3 {
			for _, b := range vals3 {
				for _, c := range vals3 {
					out = append(out, c13Case{args: append(append([]string{}, cmd.words...), a, b, c)})
					if tier == "thorough" {
						// arity 4: by far the largest part; it goes to the END of the list, so that a time budget that
						// runs out cuts this part and not the others
						for _, d := range c13ValuesSmall {
							arity4 = append(arity4, c13Case{args: append(append([]string{}, cmd.words...), a, b, c, d)})
						}
					}
				}
			}
		}
	}
	// part 2b: argument LENGTHS and COUNTS. Replies that quote client input (unknown command, unknown
	// subcommand, wrong arity, syntax errors) are built with length arithmetic: every total length of the
	// quoted arguments from 0 to 300 bytes, as one long argument plus a short one, as many short ones, and
	// as a few medium ones; the same for a known command with a wrong option, inside MULTI, and for names
	for _, head := range [][]string{{"NOSUCHCMD"}, {"SETT"}, {"CLIENT", "NOSUCHSUB"}, {"SET", "ks"}, {"GET"}, {"HSET", "kh"}, {"COMMAND", "INFO"}, {"OBJECT", "NOSUCH"}, {"CONFIG", "GET"}} {
		for l := 0; l <= 300; l++ {
			long := strings.Repeat("a", l)
			out = append(out, c13Case{args: append(append([]string{}, head...), long)}, c13Case{args: append(append([]string{}, head...), long, "x")})
			if l%7 == 0 {
				out = append(out, c13Case{args: append(append([]string{}, head...), long, "EX", "10")})
			}
		}
		for n := 2; n <= 70; n++ {
			for _, w := range []int{0, 1, 2, 10} {
				if w > 2 && n > 30 {
					continue
				}
				a := append([]string{}, head...)
				for i := 0; i < n; i++ {
					a = append(a, strings.Repeat("b", w))
				}
				out = append(out, c13Case{args: a})
			}
		}
		for _, w := range []int{38, 59, 60, 61, 62, 63, 64, 127, 128, 129} {
			for n := 2; n <= 4; n++ {
				a := append([]string{}, head...)
				for i := 0; i < n; i++ {
					a = append(a, strings.Repeat("c", w))
				}
				out = append(out, c13Case{args: a})
			}
		}
	}
	for l := 1; l <= 300; l++ {
		out = append(out, c13Case{args: []string{strings.Repeat("N", l)}}, c13Case{args: []string{strings.Repeat("N", l), "arg"}})
	}
	// part 2c: DUMP payloads. What DUMP produces for a key of each type is fed to RESTORE - as it is, and
	// with its length field, type byte, version byte or size changed and the checksum made right again
	// (the payload is made at run time: "$DUMP:<variant>:<key>"); the tour of the key space afterwards
	// reads whatever RESTORE created
	for _, k := range []string{"ks", "kl", "kh", "kz", "ke", "kn", "kx"} {
		for _, variant := range []string{"asis", "len+1", "len+1000", "len=0", "len=max", "type=list", "type=hash", "type=set", "type=0", "type=ff", "version", "short", "long", "nosum"} {
			p := "$DUMP:" + variant + ":" + k
			out = append(out, c13Case{args: []string{"RESTORE", "restored", "0", p}}, c13Case{args: []string{"RESTORE", "ks", "0", p, "REPLACE"}}, c13Case{args: []string{"RESTORE", "kl", "1000", p, "REPLACE", "ABSTTL"}})
		}
	}
	// part 3: every template of the command matrix (each key type as target) and of the option
	// templates below, with each argument position replaced by each boundary value
	seen := map[string]bool{}
	var tpls [][]string
	for _, k := range []string{"kn", "ks", "kl", "kh", "kz", "kx", "ke"} {
		for _, op := range commandMatrix(k, true) {
			tpls = append(tpls, op.Args)
		}
	}
	tpls = append(tpls, c13OptionTemplates...)
	subst := append(append([]string{}, c13Values...), "1.5", "-0", "+1", " 1", "1e3", "0x10", "18446744073709551616", "-2147483649", "u64", "i65", "u0", "#9223372036854775807", "LEFT", "COUNT", "LIMIT", "GET", "MATCH", "x\r\n+OK")
	addArgs := func(a []string) {
		k := strings.Join(a, "\x00")
		if !seen[k] {
			seen[k] = true
			out = append(out, c13Case{args: a})
		}
	}
	for _, t := range tpls {
		addArgs(t)
		for pos := 1; pos < len(t); pos++ {
			for _, v := range subst {
				if c13Huge(t, pos, v) {
					continue
				}
				m := append([]string{}, t...)
				m[pos] = v
				addArgs(m)
				if tier == "thorough" {
					for pos2 := pos + 1; pos2 < len(t); pos2++ {
						for _, v2 := range c13ValuesSmall {
							if c13Huge(m, pos2, v2) {
								continue
							}
							m2 := append([]string{}, m...)
							m2[pos2] = v2
							addArgs(m2)
						}
					}
				}
			}
		}
		// one argument dropped / one appended
		for pos := 1; pos < len(t); pos++ {
			addArgs(append(append([]string{}, t[:pos]...), t[pos+1:]...))
		}
		for _, v := range c13ValuesSmall {
			addArgs(append(append([]string{}, t...), v))
		}
	}
	return append(out, arity4...)
}

// c13Huge: argument positions whose value is by design the size of the result (a string or
// bitmap extended to the given offset; a negative count that asks for that many repeated
// elements): the memory/time used is proportional to the request, as in Redis, so only values up
// to 2^32 are excluded there - the boundary values 2^63-1 / -2^63 are still used.
func c13Huge(t []string, pos int, v string) bool {
	switch strings.ToUpper(t[0]) {
	case "SETRANGE", "SETBIT", "BITFIELD", "BITFIELD_RO":
		return v == "2147483648" || v == "4294967296" || v == "-2147483649" || v == "0x10"
	case "SRANDMEMBER", "HRANDFIELD":
		return v == "-2147483649"
	}
	return false
}

var c13OptionTemplates = [][]string{
	// names whose length is a multiple of 8 and that differ in one bit of the first byte of the last
	// 8-byte block (the hash function once mixed the length into that byte: identical hashes, and a
	// table that holds both never stops growing)
	{"HSET", "kc", "0abcdefg", "1", "8abcdefg", "2"}, {"SADD", "kc", "0abcdefg", "8abcdefg"}, {"MSET", "0abcdefg", "1", "8abcdefg", "2"}, {"SADD", "kc", "01234567@abcdefg", "01234567Pabcdefg"}, {"HSET", "kc", "01234567 abcdefg", "1", "012345670abcdefg", "2"},
	{"LPOS", "kl", "e", "RANK", "1"}, {"LPOS", "kl", "e", "RANK", "-1", "COUNT", "0", "MAXLEN", "0"}, {"LPOS", "kl", "e", "COUNT", "2"}, {"LPOS", "kl", "e", "MAXLEN", "1"},
	{"LMPOP", "1", "kl", "LEFT", "COUNT", "1"}, {"LMPOP", "2", "kl", "kn", "RIGHT"}, {"BLMPOP", "0.01", "1", "kl", "LEFT", "COUNT", "1"}, {"BLPOP", "kn", "0.01"}, {"BRPOP", "kl", "kn", "0.01"}, {"BLMOVE", "kn", "kl", "LEFT", "RIGHT", "0.01"}, {"BRPOPLPUSH", "kn", "kl", "0.01"},
	{"LRANGE", "kl", "0", "-1"}, {"LTRIM", "kl", "0", "-1"}, {"LINDEX", "kl", "0"}, {"LSET", "kl", "0", "v"}, {"LREM", "kl", "1", "e"}, {"LINSERT", "kl", "AFTER", "e", "v"}, {"LPOP", "kl", "1"}, {"RPOP", "kl", "1"},
	{"SET", "ks", "v", "EX", "10"}, {"SET", "ks", "v", "PX", "10"}, {"SET", "ks", "v", "EXAT", "1893457000"}, {"SET", "ks", "v", "PXAT", "1893457000000"}, {"SET", "ks", "v", "NX", "GET", "KEEPTTL"}, {"GETEX", "ks", "PX", "10"}, {"GETEX", "ks", "EXAT", "10"}, {"GETEX", "ks", "PXAT", "10"},
	{"SETEX", "ks", "10", "v"}, {"PSETEX", "ks", "10", "v"}, {"EXPIRE", "ks", "10", "GT"}, {"PEXPIRE", "ks", "10"}, {"EXPIREAT", "ks", "10"}, {"PEXPIREAT", "ks", "10"},
	{"GETRANGE", "ks", "0", "1"}, {"SUBSTR", "ks", "0", "1"}, {"SETRANGE", "ks", "0", "v"}, {"INCRBY", "ks", "1"}, {"DECRBY", "ks", "1"}, {"INCRBYFLOAT", "ks", "1"}, {"HINCRBY", "kh", "f", "1"}, {"HINCRBYFLOAT", "kh", "f", "1"},
	{"BITCOUNT", "ks", "0", "1", "BIT"}, {"BITCOUNT", "ks", "0", "1", "BYTE"}, {"BITPOS", "ks", "1", "0", "1", "BIT"}, {"BITPOS", "ks", "0", "0"}, {"GETBIT", "ks", "0"}, {"SETBIT", "ks", "0", "1"},
	{"BITFIELD", "ks", "GET", "u8", "0"}, {"BITFIELD", "ks", "SET", "i8", "#1", "1"}, {"BITFIELD", "ks", "INCRBY", "u8", "0", "1"}, {"BITFIELD", "ks", "OVERFLOW", "SAT", "INCRBY", "i8", "0", "1"}, {"BITFIELD_RO", "ks", "GET", "i8", "0"}, {"BITOP", "AND", "kd", "ks", "ks"}, {"BITOP", "NOT", "kd", "ks"},
	{"SORT", "kl", "LIMIT", "0", "1", "ALPHA"}, {"SORT", "kl", "BY", "w_*", "GET", "#", "GET", "o_*", "ALPHA"}, {"SORT", "kz", "ALPHA", "DESC", "LIMIT", "1", "1", "STORE", "kd"}, {"SORT_RO", "kl", "ALPHA"},
	{"SINTERCARD", "1", "kz", "LIMIT", "1"}, {"SINTERCARD", "2", "kz", "kz"}, {"SMISMEMBER", "kz", "m"}, {"SPOP", "kz"}, {"SPOP", "kz", "1"}, {"SRANDMEMBER", "kz", "1"}, {"HRANDFIELD", "kh", "1", "WITHVALUES"},
	{"SCAN", "0", "MATCH", "*", "COUNT", "10", "TYPE", "string"}, {"SSCAN", "kz", "0", "MATCH", "*", "COUNT", "10"}, {"HSCAN", "kh", "0", "MATCH", "*", "COUNT", "10"}, {"KEYS", "k[a-"}, {"KEYS", "\\"},
	{"COPY", "ks", "kd", "DB", "1", "REPLACE"}, {"MOVE", "ks", "1"}, {"SELECT", "1"}, {"SWAPDB", "0", "1"}, {"FLUSHDB", "ASYNC"}, {"FLUSHALL", "SYNC"}, {"OBJECT", "ENCODING", "ks"}, {"OBJECT", "FREQ", "ks"}, {"DUMP", "ks"}, {"RESTORE", "kd", "0", "xx"}, {"RESTORE", "kd", "0", "xx", "REPLACE", "ABSTTL", "IDLETIME", "1"},
	{"HELLO", "3"}, {"HELLO", "2", "SETNAME", "n"}, {"HELLO", "3", "AUTH", "u", "p"}, {"AUTH", "p"}, {"AUTH", "u", "p"}, {"RESET"}, {"QUIT"},
	{"CLIENT", "ID"}, {"CLIENT", "INFO"}, {"CLIENT", "LIST", "TYPE", "normal"}, {"CLIENT", "LIST", "ID", "1", "2"}, {"CLIENT", "KILL", "ID", "1"}, {"CLIENT", "KILL", "1.2.3.4:5"}, {"CLIENT", "KILL", "ADDR", "1.2.3.4:5", "SKIPME", "yes"}, {"CLIENT", "KILL", "LADDR", "x", "USER", "u", "TYPE", "pubsub"},
	{"CLIENT", "UNBLOCK", "1", "ERROR"}, {"CLIENT", "UNBLOCK", "1", "TIMEOUT"}, {"CLIENT", "PAUSE", "1", "WRITE"}, {"CLIENT", "UNPAUSE"}, {"CLIENT", "REPLY", "ON"}, {"CLIENT", "SETNAME", "n"}, {"CLIENT", "GETNAME"}, {"CLIENT", "NO-EVICT", "on"}, {"CLIENT", "TRACKING", "on", "REDIRECT", "1", "PREFIX", "a", "BCAST", "OPTIN", "OPTOUT", "NOLOOP"}, {"CLIENT", "TRACKINGINFO"}, {"CLIENT", "GETREDIR"}, {"CLIENT", "CACHING", "yes"},
	{"COMMAND"}, {"COMMAND", "COUNT"}, {"COMMAND", "INFO", "get"}, {"COMMAND", "DOCS", "get"}, {"COMMAND", "GETKEYS", "set", "a", "b"}, {"COMMAND", "GETKEYS", "lmpop", "2", "a", "b", "LEFT"}, {"COMMAND", "GETKEYSANDFLAGS", "get", "a"}, {"COMMAND", "LIST", "FILTERBY", "PATTERN", "g*"}, {"COMMAND", "LIST", "FILTERBY", "MODULE", "m"}, {"COMMAND", "LIST", "FILTERBY", "ACLCAT", "read"},
	{"INFO"}, {"INFO", "server", "clients"}, {"INFO", "everything"}, {"ECHO", "x"}, {"PING", "x"}, {"TIME"}, {"LASTSAVE"}, {"SAVE"}, {"BGSAVE", "SCHEDULE"}, {"DBSIZE"}, {"RANDOMKEY"}, {"WAIT", "0", "0"},
	{"MULTI"}, {"EXEC"}, {"DISCARD"}, {"WATCH", "ks"}, {"UNWATCH"}, {"MSET", "a", "1", "b", "2"}, {"MSETNX", "a", "1", "ks", "2"}, {"MGET", "ks", "kl"}, {"LCS", "ks", "ks", "IDX", "MINMATCHLEN", "1", "WITHMATCHLEN"}, {"LCS", "ks", "ks", "LEN"},
}

var c13Memo = map[string][]c13Case{}

func c13Cases(tier string) *caseList {
	l, ok := c13Memo[tier]
	if !ok {
		l = c13List(tier)
		c13Memo[tier] = l
	}
	return &caseList{N: len(l), Run: func(i int) caseResult { return runC13(l[i]) }, Name: func(i int) string {
		if l[i].args != nil {
			return strings.Join(quoteArgs(l[i].args), " ")
		}
		return fmt.Sprintf("bytes %q split at %d", clipB(l[i].bytes), l[i].split)
	}, Class: func(i int) string { return c13Class(l[i]) }}
}

// c13Class: the input class a finding is attributed to (command name, or the start of the byte string)
func c13Class(cs c13Case) string {
	if cs.args != nil {
		tpl := strings.ToUpper(cs.args[0])
		if len(cs.args) > 1 && (tpl == "CLIENT" || tpl == "COMMAND") {
			tpl += " " + strings.ToUpper(cs.args[1])
		}
		return tpl
	}
	return fmt.Sprintf("bytes:%q", clipB(cs.bytes[:min(len(cs.bytes), 24)]))
}

var blockingCmds = map[string]bool{"BLPOP": true, "BRPOP": true, "BLMOVE": true, "BRPOPLPUSH": true, "BLMPOP": true}

func runC13(cs c13Case) (cr caseResult) {
	cr.Units = 1
	if cs.args == nil {
		return runC13Bytes(cs)
	}
	name := strings.Join(quoteArgs(cs.args), " ")
	redisemu.VResetGlobals()
	var reply []byte
	done := false
	pong := ""
	served := false
	tourDone, tourStep, tourBad := false, "", ""
	s := verifrt.NewSched(nil)
	s.Horizon = 3000000
	s.Run(func() {
		vi := redisemu.VNew("")
		fx := vi.NewClient()
		for _, f := range append(fixtureOps(""), c("SET", "kx", "gone", "PX", "1")) {
			fx.Do(f.Args...)
		}
		verifrt.Advance(5 * 1000000) // 5 ms: kx is now expired but still stored
		cl := vi.NewClient()
		other := vi.NewClient()
		args := c13Payloads(cs.args, fx)
		verifrt.GoNamed("cmd", func() {
			reply = cl.Do(args...)
			done = true
		})
		verifrt.AwaitQuiescence()
		pong = string(other.Do("PING"))
		// ... and a command that needs the database the first connection has just used
		other.Do("SET", "probe", "1")
		served = string(other.Do("GET", "probe")) == "$1\r\n1\r\n"
		// ... and a tour of everything the command may have left behind: whatever is in the key space now
		// can be read, walked and picked from at random without stalling (a refused command that leaves an
		// empty collection behind makes the random pick spin for ever, with the database locked)
		if served {
			tourStep = "KEYS *"
			tourBad = c13Tour(other, &tourStep)
			tourDone = true
		}
	})
	viol := func(sig, detail string) caseResult {
		return caseResult{Status: "violation", Sig: sig + "|" + c13Class(cs), Detail: name + ": " + detail, Trace: cs.args, Units: 1}
	}
	switch s.Term {
	case verifrt.TermPanic:
		msg := firstLine(fmt.Sprint(s.PanicVal))
		if strings.Contains(msg, "budget exhausted") {
			if tourStep != "" {
				return viol("hang-afterwards@"+panicSite(s.PanicStk), "afterwards "+tourStep+" never returns: "+msg)
			}
			return viol("hang@"+panicSite(s.PanicStk), "unbounded loop: "+msg)
		}
		if tourStep != "" {
			return viol("panic-afterwards@"+panicSite(s.PanicStk), "afterwards "+tourStep+" panics (the process would die): "+msg)
		}
		return viol("panic@"+panicSite(s.PanicStk), "panic (the process would die): "+msg)
	case verifrt.TermHorizon:
		return viol("hang-step-budget", "the command does not finish within the step budget")
	}
	if pong != "+PONG\r\n" {
		return viol("other-client-not-served", fmt.Sprintf("a second connection's PING answered %q afterwards", pong))
	}
	if !served {
		return viol("other-client-stalled", fmt.Sprintf("afterwards a second connection's SET/GET on the same database does not complete (terminal %s): the command left the database locked", s.Term))
	}
	if served && !tourDone {
		return viol("stalled-afterwards", fmt.Sprintf("afterwards %s does not return (terminal %s)", tourStep, s.Term))
	}
	if tourBad != "" {
		return viol("malformed-reply-afterwards", tourBad)
	}
	if !done {
		if blockingCmds[strings.ToUpper(cs.args[0])] {
			cr.Status = "ok"
			cr.Nontrivial = true
			return
		}
		return viol("no-reply", fmt.Sprintf("the command never returns (terminal %s)", s.Term))
	}
	if _, err := vm.Parse1(reply); err != nil {
		return viol("malformed-reply", fmt.Sprintf("reply %q: %v", clipB(reply), err))
	}
	cr.Status = "ok"
	cr.Nontrivial = true
	return
}

func min(a, b int) int {
	if a < b {
		return a
	}
	return b
}

func runC13Bytes(c c13Case) (cr caseResult) {
	cr.Units = 1
	segs := [][]byte{c.bytes}
	if c.split >= 0 {
		segs = [][]byte{c.bytes[:c.split], c.bytes[c.split:]}
	}
	r, msg2 := runWire(segs, secondConnection)
	name := fmt.Sprintf("bytes %q", clipB(c.bytes))
	if c.split >= 0 {
		name += fmt.Sprintf(" split at %d", c.split)
	}
	viol := func(sig, detail string) caseResult {
		return caseResult{Status: "violation", Sig: sig + "|" + c13Class(c), Detail: name + ": " + detail, Trace: map[string]any{"bytes": string(c.bytes), "split": c.split}, Units: 1}
	}
	switch r.term {
	case verifrt.TermPanic:
		return viol("panic@"+r.panicAt, "the connection goroutine panics (the process would die): "+r.panicMsg)
	case verifrt.TermHorizon:
		return viol("hang-step-budget", "the connection does not settle within the step budget")
	}
	if msg2 != "" {
		return viol("other-client-not-served", msg2)
	}
	if _, err := vm.ParseAll(r.out); err != nil {
		return viol("malformed-reply", fmt.Sprintf("reply stream %q: %v", clipB(r.out), err))
	}
	if c.split >= 0 {
		// the same bytes in one piece must give the same replies
		whole, _ := runWire([][]byte{c.bytes}, nil)
		if whole.term != verifrt.TermPanic && !sameReplies(whole.out, r.out) && string(whole.out) != string(r.out) {
			return viol("split-changes-replies", fmt.Sprintf("replies %q, unsplit %q", clipB(r.out), clipB(whole.out)))
		}
	}
	cr.Status = "ok"
	cr.Nontrivial = len(r.out) > 0
	return
}

// c13Tour reads everything that is in the selected database through a second connection: every key
// by the commands of its type, including the ones that pick at random; step names the command
// that is running (for the report when it never returns).
func c13Tour(cl *redisemu.VClient, step *string) (bad string) {
	do := func(args ...string) vm.Reply {
		*step = strings.Join(quoteArgs(args), " ")
		raw := cl.Do(args...)
		r, err := vm.Parse1(raw)
		if err != nil && bad == "" {
			bad = fmt.Sprintf("afterwards %s answers %q: %v", *step, clipB(raw), err)
		}
		return r
	}
	keys := do("KEYS", "*")
	do("DBSIZE")
	do("RANDOMKEY")
	do("SCAN", "0", "COUNT", "100")
	for _, e := range keys.A {
		k := e.S
		switch do("TYPE", k).S {
		case "string":
			// (a value of hundreds of megabytes - SETBIT k 2147483648 - is not read back: several copies of it
			// would decide the fate of the worker process, not the emulator)
			if n := do("STRLEN", k); n.I <= 1<<20 {
				do("GET", k)
			}
		case "list":
			do("LRANGE", k, "0", "-1")
			do("LLEN", k)
		case "hash":
			do("HGETALL", k)
			do("HRANDFIELD", k)
			do("HRANDFIELD", k, "-2", "WITHVALUES")
			do("HRANDFIELD", k, "2")
			do("HSCAN", k, "0")
		case "set":
			do("SMEMBERS", k)
			do("SRANDMEMBER", k)
			do("SRANDMEMBER", k, "-2")
			do("SRANDMEMBER", k, "2")
			do("SSCAN", k, "0")
		}
		do("PTTL", k)
	}
	*step = ""
	return
}

// c13Payloads replaces "$DUMP:<variant>:<key>" arguments by a payload derived from what DUMP says
// about the key right now.
func c13Payloads(args []string, fx *redisemu.VClient) []string {
	out := append([]string{}, args...)
	for i, a := range out {
		if !strings.HasPrefix(a, "$DUMP:") {
			continue
		}
		f := strings.SplitN(a, ":", 3)
		r, err := vm.Parse1(fx.Do("DUMP", f[2]))
		if err != nil || r.K != vm.KBulk || len(r.S) < 14 {
			// nothing to dump (missing key): a hand-made string payload
			body := []byte{1, 1, 0, 0, 0, 3, 'h', 'i'}
			r = vm.Reply{K: vm.KBulk, S: string(append(body, redisemu.VSimpleChecksum(body)...))}
		}
		body := []byte(r.S[:len(r.S)-8])
		resum := true
		switch f[1] {
		case "len+1":
			body[5]++
		case "len+1000":
			body[4] += 4
		case "len=0":
			body[2], body[3], body[4], body[5] = 0, 0, 0, 0
		case "len=max":
			body[2], body[3], body[4], body[5] = 0xff, 0xff, 0xff, 0xff
		case "type=list":
			body[1] = 8
		case "type=hash":
			body[1] = 2
		case "type=set":
			body[1] = 4
		case "type=0":
			body[1] = 0
		case "type=ff":
			body[1] = 0xff
		case "version":
			body[0] = 9
		case "short":
			if len(body) > 7 {
				body = body[:len(body)-1]
			}
		case "long":
			body = append(body, "extra"...)
		case "nosum":
			resum = false
		}
		if resum {
			out[i] = string(append(body, redisemu.VSimpleChecksum(body)...))
		} else {
			out[i] = string(body)
		}
	}
	return out
}
