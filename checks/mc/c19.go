package main

// C19: persistence. The real save/load code runs on the in-memory file system of the os shim.
// Part A (histories): fixture -> [save] -> op(s) -> final save -> restart on the same path;
// the observable state of every database after the restart must equal the state read before
// the shutdown. Part B (crash points): for a transition A -> B of the stored state, the file
// operations of the save are logged; for EVERY prefix of that log and EVERY byte-granular cut
// of the last write, the file system a crash would leave is materialised and loaded: each
// database must come up as A or as B.

import (
	"fmt"
	"sort"
	"strconv"
	"strings"
	"time"

	redisemu "github.com/jimsnab/go-redisemu"
	vm "github.com/jimsnab/go-redisemu/verifmodel"
	"github.com/jimsnab/go-redisemu/verifrt"
	vos "github.com/jimsnab/go-redisemu/verifrt/vos"
)

const c19Base = "data/persist"

var c19DBs = []int{0, 1, 2, 15}

func init() {
	genLists["C19"] = c19Cases
	extraRunners["C19"] = func(tier string, rep *Report) {
		rep.Level = "fault_enumeration"
		ok, nt, units := runGen("C19", tier, 50, rep)
		cl := c19Cases(tier)
		a, b := c19Counts(tier)
		rep.Coverage["evaluations"] = units
		rep.Coverage["distinct_nontrivial"] = nt
		rep.Coverage["cases_ok"] = ok
		rep.Coverage["history_cases"] = a
		rep.Coverage["crash_transitions"] = b
		rep.Coverage["rule"] = "part A: every command of the matrix (every key type as target, databases 0 and 1) after each fixture, with and without a save between fixture and command, restart immediately and 7 s later; pairs of commands from the mutator alphabet with every placement of an intermediate save; non-trivial = the command changed the observable state. Part B: for each stored-state transition A -> B the logged file operations of the save: every operation prefix x every byte cut of the last write (evaluations counts the crash states loaded); non-trivial = the crash state differs from both the pre-save and the post-save file system"
		rep.Assume = append(rep.Assume,
			"crash model: the process dies between or inside file operations; what was written before survives (prefix of the operation log, last write cut at any byte). Loss of unsynced data after a completed rename (power failure) is not modelled",
			"the final save at shutdown is the saver's last dss.save(); restart = a new data store set on the same path (the code path of Start)",
			"the observable state is read through KEYS/TYPE/GET/LRANGE/HGETALL/SMEMBERS/PTTL on databases 0..2")
		for _, i := range []int{0, cl.N / 2, cl.N - 1} {
			rep.sample(cl.Name(i))
		}
	}
	levelOverride["C19"] = "fault_enumeration"
	// the saver runs next to the commands: all schedules of one saver tick against one or two writing
	// connections, then the final save of a shutdown, a restart, and the comparison as in part A
	extraGroups["C19"] = []exploreGroup{{"saverace", 2, 3}}
	extraScenarios["C19/saverace"] = saveRaceScenarios
}

type saveRaceScenario struct {
	name    string
	setup   [][]string
	writers [][][]string
	ticks   int
}

func (sr *saveRaceScenario) body(x *Exec) {
	vos.ResetFS()
	verifrt.SetSerial(true)
	vi := redisemu.VNew(c19Base)
	x.Inst = vi
	fx := vi.NewClient()
	for _, cmd := range sr.setup {
		fx.Do(cmd...)
	}
	var saveErr error
	clients := make([]*redisemu.VClient, len(sr.writers))
	for i := range clients {
		clients[i] = vi.NewClient()
	}
	verifrt.SetSerial(false)
	verifrt.GoNamed("saver", func() {
		for t := 0; t < sr.ticks; t++ {
			if e := vi.Save(); e != nil && saveErr == nil {
				saveErr = e
			}
		}
	})
	for i := range sr.writers {
		i := i
		verifrt.GoNamed(fmt.Sprintf("conn%d", i+1), func() {
			for _, cmd := range sr.writers[i] {
				x.do(i+1, clients[i], cmd...)
			}
		})
	}
	verifrt.AwaitQuiescence()
	verifrt.SetSerial(true)
	// shutdown: the final save; then a restart on the same path
	if e := vi.Save(); e != nil && saveErr == nil {
		saveErr = e
	}
	before, err1 := dumpDBs(fx)
	vi2 := redisemu.VNew(c19Base)
	after, err2 := dumpDBs(vi2.NewClient())
	x.Extra["before"], x.Extra["after"] = before, after
	x.Extra["err"] = fmt.Sprint(saveErr, err1, err2)
	x.Final = strings.Join(after, "|")
}

func (sr *saveRaceScenario) check(x *Exec) [][2]string {
	before, _ := x.Extra["before"].([]string)
	after, _ := x.Extra["after"].([]string)
	if e, _ := x.Extra["err"].(string); e != "<nil> <nil> <nil>" && e != "" {
		return [][2]string{{"save-error", e}}
	}
	if len(before) == 0 || len(before) != len(after) {
		return [][2]string{{"scenario-did-not-finish", fmt.Sprintf("terminal %s", x.Sched.Term)}}
	}
	for i := range before {
		if before[i] != after[i] {
			return [][2]string{{fmt.Sprintf("acknowledged-write-lost|db%d", c19DBs[i]), fmt.Sprintf("a saver tick ran next to the commands; after the final save and a restart database %d is {%s}, before the shutdown it was {%s}", c19DBs[i], clipB([]byte(after[i])), clipB([]byte(before[i])))}}
		}
	}
	return nil
}

func saveRaceScenarios(tier string) []*Scenario {
	var out []*Scenario
	fix := [][]string{{"SET", "ks", "0"}, {"RPUSH", "kl", "e"}, {"HSET", "kh", "f", "1"}, {"SELECT", "1"}, {"SET", "other", "db1"}, {"SELECT", "0"}}
	list := []saveRaceScenario{
		{"saverace/tick||INCR", fix, [][][]string{{{"INCR", "ks"}}}, 1},
		{"saverace/tick||RPUSH+LSET", fix, [][][]string{{{"RPUSH", "kl", "f"}, {"LSET", "kl", "0", "w"}}}, 1},
		{"saverace/tick||FLUSHDB", fix, [][][]string{{{"FLUSHDB"}}}, 1},
		{"saverace/tick||db1:SET", fix, [][][]string{{{"SELECT", "1"}, {"SET", "other", "changed"}}}, 1},
		{"saverace/tick+tick||INCR||HSET", fix, [][][]string{{{"INCR", "ks"}}, {{"HSET", "kh", "g", "2"}}}, 2},
		{"saverace/tick||EXPIRE+PERSIST", fix, [][][]string{{{"EXPIRE", "ks", "100"}, {"PERSIST", "ks"}, {"DEL", "kh"}}}, 1},
	}
	if tier == "thorough" {
		list = append(list,
			saveRaceScenario{"saverace/tick+tick||SET-new||DEL", fix, [][][]string{{{"SET", "kn", "1"}}, {{"DEL", "kl"}}}, 2},
			saveRaceScenario{"saverace/first-save||SET", nil, [][][]string{{{"SET", "first", "1"}, {"SELECT", "2"}, {"SET", "second", "2"}}}, 1})
	}
	for i := range list {
		sr := &list[i]
		out = append(out, &Scenario{Name: sr.name, Body: sr.body, Check: sr.check, Horizon: 400000, MapOrder: true})
	}
	return out
}

// ---- observable state -------------------------------------------------------------------------------

func dumpDBs(cl *redisemu.VClient) (perDB []string, err error) {
	do := func(args ...string) vm.Reply {
		r, e := vm.Parse1(cl.Do(args...))
		if e != nil && err == nil {
			err = fmt.Errorf("%v: %v", args, e)
		}
		return r
	}
	strs := func(r vm.Reply) []string {
		var out []string
		for _, e := range r.A {
			out = append(out, e.S)
		}
		return out
	}
	for _, db := range c19DBs {
		if r := do("SELECT", strconv.Itoa(db)); r.IsErr() {
			perDB = append(perDB, "select: "+r.S)
			continue
		}
		var sb strings.Builder
		keys := strs(do("KEYS", "*"))
		sort.Strings(keys)
		fmt.Fprintf(&sb, "keys=%d;", len(keys)) // not DBSIZE: that may count expired keys not yet reaped
		for _, k := range keys {
			t := do("TYPE", k).S
			fmt.Fprintf(&sb, "%q:%s=", k, t)
			switch t {
			case "string":
				fmt.Fprintf(&sb, "%q len=%d", do("GET", k).S, do("STRLEN", k).I)
			case "list":
				fmt.Fprintf(&sb, "%q len=%d", strs(do("LRANGE", k, "0", "-1")), do("LLEN", k).I)
			case "hash":
				a := strs(do("HGETALL", k))
				var pairs []string
				for i := 0; i+1 < len(a); i += 2 {
					pairs = append(pairs, fmt.Sprintf("%q=%q", a[i], a[i+1]))
				}
				sort.Strings(pairs)
				fmt.Fprintf(&sb, "%v len=%d", pairs, do("HLEN", k).I)
			case "set":
				a := strs(do("SMEMBERS", k))
				sort.Strings(a)
				fmt.Fprintf(&sb, "%q len=%d", a, do("SCARD", k).I)
			}
			fmt.Fprintf(&sb, " pttl=%d;", do("PTTL", k).I)
		}
		perDB = append(perDB, sb.String())
	}
	do("SELECT", "0")
	return
}

// ---- case list ------------------------------------------------------------------------------------------

type c19Case struct {
	kind    string // "hist" | "crash"
	fixture int
	ops     [][]string
	saveAt  []bool // hist: save after the fixture, after op i ...
	delay   int64  // ms between shutdown and restart
	a, b    [][]string
	stray   []string // files that appear next to the snapshots before the restart (name suffixes after the base path)
	base    string   // persist path (default c19Base)
}

func c19Fixtures() [][]Op {
	return [][]Op{
		fixtureOps(""),
		fixtureOps("100000"),
		append(fixtureOps(""), c("SELECT", "1"), c("SET", "ks", "one"), c("RPUSH", "kl", "a", "b"), c("HSET", "kh", "f", "1"), c("SADD", "kz", "m"), c("SELECT", "15"), c("SET", "ks", "fifteen"), c("RPUSH", "kl", "z"), c("SELECT", "0")),
		{},
		c19BigFixture(),
	}
}

// c19BigFixture: collections whose tables have grown and carry a removal history (the snapshot
// header stores both), a keyspace that has grown and shrunk, a value of several file-system
// writes, and names / values / fields / members / elements that are empty or not text
func c19BigFixture() []Op {
	seq := func(head []string, prefix string, from, to int) Op {
		a := append([]string{}, head...)
		for i := from; i < to; i++ {
			a = append(a, fmt.Sprintf("%s%d", prefix, i))
		}
		return c(a...)
	}
	pairs := []string{"HSET", "kh", "f", "1", "g", "x"}
	for i := 0; i < 40; i++ {
		pairs = append(pairs, fmt.Sprintf("f%d", i), fmt.Sprint(i))
	}
	ops := []Op{
		c("SET", "ks", strings.Repeat("0123456789", 2000)),
		seq([]string{"RPUSH", "kl", "e", "f2"}, "e", 0, 40),
		c(pairs...), seq([]string{"HDEL", "kh"}, "f", 5, 30),
		seq([]string{"SADD", "kz", "m", "n2"}, "m", 0, 40), seq([]string{"SREM", "kz"}, "m", 5, 30),
		c("RPUSH", "ksrt", "ks", "kn", "kl"),
		c("SET", "bin\r\n\x00\xff", "v\r\n\x00\xff"), c("SET", "", "empty-name"), c("SET", "empty", ""),
		c("HSET", "hb", "", "", "\r\n", "\x00", "\xff\xfe", "*1\r\n$1\r\nx\r\n"), c("SADD", "sb", "", "\xff\xfe", "\r\n"), c("RPUSH", "lb", "", "\r\n", "", "\x00"),
	}
	for i := 0; i < 40; i++ {
		ops = append(ops, c("SET", fmt.Sprintf("k%d", i), fmt.Sprint(i)))
	}
	ops = append(ops, seq([]string{"DEL"}, "k", 5, 30))
	return ops
}

// c19Probe: commands run after the restart on the restarted instance AND on the instance that
// was never shut down (it is still there, in memory): both must stay in step - a snapshot that
// reads back correctly but restores a collection's bookkeeping wrongly (element count, table size,
// removal counter, object numbers, list links) shows at the next write
func c19Probe() [][]string {
	var out [][]string
	for _, db := range []string{"1", "15", "0"} {
		out = append(out, []string{"SELECT", db},
			[]string{"RPUSH", "kl", "p1", "p2"}, []string{"LPOP", "kl"}, []string{"LSET", "kl", "-1", "q"}, []string{"LINSERT", "kl", "AFTER", "e", "ins"}, []string{"LREM", "kl", "1", "f2"}, []string{"LLEN", "kl"}, []string{"LMOVE", "kl", "kl", "RIGHT", "LEFT"},
			[]string{"HSET", "kh", "p", "1"}, []string{"HDEL", "kh", "f", "f0", "f1", "f2", "f3", "f4", "f30", "f31", "f32", "f33", "f34"}, []string{"HINCRBY", "kh", "g2", "1"}, []string{"HLEN", "kh"},
			[]string{"SADD", "kz", "p"}, []string{"SREM", "kz", "m", "m0", "m1", "m2", "m3", "m4", "m30", "m31", "m32", "m33"}, []string{"SCARD", "kz"}, []string{"SINTERSTORE", "kd2", "kz", "kz"},
			[]string{"APPEND", "ks", "p"}, []string{"STRLEN", "ks"}, []string{"SET", "kp", "probe"}, []string{"DEL", "k0", "k1", "k2", "k3", "k4", "k30", "k31", "k32"}, []string{"DBSIZE"}, []string{"RENAME", "kp", "kp2"}, []string{"COPY", "kl", "klc"},
			[]string{"WATCH", "ks"}, []string{"MULTI"}, []string{"SET", "kw", "1"}, []string{"EXEC"})
	}
	return out
}

var c19Multi = [][]string{
	{"COPY", "ks", "kd", "DB", "1"}, {"COPY", "kl", "kl", "DB", "1", "REPLACE"}, {"COPY", "kh", "kh", "DB", "2"}, {"FLUSHDB"}, {"FLUSHALL"}, {"FLUSHALL", "SYNC"}, {"FLUSHDB", "ASYNC"},
}

func c19Alphabet() [][]string {
	a := [][]string{
		{"SET", "ks", "v2"}, {"APPEND", "ks", "x"}, {"INCR", "ks"}, {"SETRANGE", "ks", "1", "z"}, {"SETBIT", "ks", "3", "1"}, {"DEL", "ks"}, {"GETDEL", "ks"}, {"SET", "kn", "new"},
		{"RPUSH", "kl", "g"}, {"LPOP", "kl"}, {"LSET", "kl", "0", "w"}, {"LREM", "kl", "0", "e"}, {"LTRIM", "kl", "1", "1"}, {"LINSERT", "kl", "BEFORE", "e", "b"}, {"LMOVE", "kl", "kl", "LEFT", "RIGHT"}, {"LMOVE", "kl", "kd", "LEFT", "LEFT"}, {"RPOP", "kl", "5"},
		{"HSET", "kh", "f", "9"}, {"HSET", "kh", "q", "9"}, {"HDEL", "kh", "f"}, {"HDEL", "kh", "f", "g"}, {"HINCRBY", "kh", "f", "1"}, {"HSETNX", "kh", "n", "1"},
		{"SADD", "kz", "q"}, {"SREM", "kz", "m"}, {"SREM", "kz", "m", "n2"}, {"SMOVE", "kz", "kd", "m"}, {"SPOP", "kz", "5"}, {"SINTERSTORE", "kz", "kz", "kn"},
		{"EXPIRE", "ks", "100"}, {"PEXPIRE", "kl", "5000"}, {"PERSIST", "ks"}, {"PERSIST", "kl"}, {"EXPIRE", "kh", "0"}, {"EXPIREAT", "kz", "1893457000"}, {"GETEX", "ks", "EX", "50"}, {"GETEX", "ks", "PERSIST"}, {"SET", "ks", "v3", "KEEPTTL"}, {"SET", "ks", "v4", "PX", "3000"},
		{"RENAME", "kl", "kd"}, {"RENAME", "ks", "kl"}, {"COPY", "kh", "kd"}, {"SORT", "kl", "ALPHA", "STORE", "kd"}, {"BITOP", "NOT", "kd", "ks"}, {"MSET", "ks", "a", "kn", "b"}, {"UNLINK", "kh", "kz"},
	}
	return append(a, c19Multi...)
}

type c19Trans struct{ a, b [][]string }

func c19Transitions(tier string) []c19Trans {
	fix := [][]string{{"SET", "ks", "10"}, {"RPUSH", "kl", "e", "f2"}, {"HSET", "kh", "f", "1", "g", "x"}, {"SADD", "kz", "m", "n2"}}
	big := strings.Repeat("0123456789abcdef", 600) // several file-system writes
	t := []c19Trans{
		{fix, [][]string{{"SET", "kn", "added"}}},
		{fix, [][]string{{"DEL", "ks"}}},
		{fix, [][]string{{"LSET", "kl", "0", "changed"}, {"EXPIRE", "ks", "100"}}},
		{fix, [][]string{{"FLUSHALL"}}},
		{fix, [][]string{{"SELECT", "1"}, {"SET", "other", "db1"}}},
		{append(append([][]string{}, fix...), []string{"SELECT", "1"}, []string{"SET", "o", "1"}, []string{"SELECT", "0"}), [][]string{{"SET", "ks", "11"}, {"SELECT", "1"}, {"SET", "o", "2"}, {"RPUSH", "l", "x"}}},
		{[][]string{}, [][]string{{"SET", "first", "key"}}},
		{[][]string{{"SET", "big", big}}, [][]string{{"APPEND", "big", "tail"}, {"SET", "small", "s"}}},
		{[][]string{{"SET", "small", "s"}}, [][]string{{"SET", "big", big}}},
	}
	if tier == "thorough" {
		t = append(t,
			c19Trans{fix, [][]string{{"DEL", "ks", "kl", "kh", "kz"}}},
			c19Trans{fix, [][]string{{"COPY", "kl", "kl", "DB", "1"}, {"DEL", "kl"}}},
			c19Trans{fix, [][]string{{"HSET", "kh", "f", "2"}, {"SADD", "kz", "z"}, {"RPUSH", "kl", "g"}, {"APPEND", "ks", "0"}}},
			c19Trans{fix, [][]string{{"SELECT", "2"}, {"SADD", "z", "a"}, {"SELECT", "0"}, {"FLUSHDB"}}},
		)
	}
	return t
}

func c19List(tier string) (out []c19Case, nHist, nCrash int) {
	fixtures := c19Fixtures()
	seen := map[string]bool{}
	var single [][]string
	addOp := func(a []string) {
		k := strings.Join(a, "\x00")
		if !seen[k] {
			seen[k] = true
			single = append(single, a)
		}
	}
	for _, k := range []string{"kn", "ks", "kl", "kh", "kz", "ke"} {
		for _, op := range commandMatrix(k, true) {
			addOp(op.Args)
		}
	}
	for _, a := range c19Alphabet() {
		addOp(a)
	}
	for fi := range fixtures {
		for _, op := range single {
			for _, saveFirst := range []bool{true, false} {
				for _, delay := range []int64{0, 7000} {
					if delay != 0 && !saveFirst {
						continue
					}
					out = append(out, c19Case{kind: "hist", fixture: fi, ops: [][]string{op}, saveAt: []bool{saveFirst, true}, delay: delay})
				}
			}
			// the same command in database 1
			if fi == 2 {
				out = append(out, c19Case{kind: "hist", fixture: fi, ops: [][]string{{"SELECT", "1"}, op}, saveAt: []bool{true, false, true}})
			}
		}
	}
	alpha := c19Alphabet()
	fxs := []int{0, 2}
	if tier == "thorough" {
		fxs = []int{0, 1, 2}
	}
	for _, fi := range fxs {
		for _, o1 := range alpha {
			for _, o2 := range alpha {
				for _, mid := range []bool{true, false} {
					out = append(out, c19Case{kind: "hist", fixture: fi, ops: [][]string{o1, o2}, saveAt: []bool{true, mid, true}})
				}
			}
		}
	}
	if tier == "thorough" {
		// triples over the in-place mutators
		small := alpha[:0:0]
		for _, a := range alpha {
			switch a[0] {
			case "LSET", "SREM", "EXPIRE", "PERSIST", "HDEL", "FLUSHALL", "FLUSHDB", "COPY", "RENAME", "LPOP", "APPEND":
				small = append(small, a)
			}
		}
		for _, o1 := range small {
			for _, o2 := range small {
				for _, o3 := range small {
					for m := 0; m < 4; m++ {
						out = append(out, c19Case{kind: "hist", fixture: 2, ops: [][]string{o1, o2, o3}, saveAt: []bool{true, m&1 != 0, m&2 != 0, true}})
					}
				}
			}
		}
	}
	// files with similar names next to the snapshots: out-of-range and malformed indexes, left-over temporaries,
	// other base names with the same prefix
	for _, stray := range [][]string{{".db16"}, {".db-1"}, {".db99999999999"}, {".db"}, {".dbx"}, {".db1.tmp", ".db0.tmp"}, {".db01x"}, {"2.db0"}, {".db3.bak", ".db+2"}, {".db16", ".db-1", ".dbx", ".db0.tmp"}} {
		out = append(out, c19Case{kind: "hist", fixture: 2, ops: [][]string{{"SET", "kn", "v"}}, saveAt: []bool{true, true}, stray: stray})
	}
	out = append(out, c19FlushCases()...)
	// persist paths that are not plain words: characters that mean something to a pattern matcher, spaces, dots,
	// non-ASCII, a base name that is a prefix of another's
	for _, b := range []string{"data/per[s]ist", "data/p*st", "data/p?rsist", "data/per\\sist", "da ta/per sist", "data/persist.db", "data/persist.db1", "data/\xc3\xa4\xe2\x82\xac", "d.a.t.a/p.e.r", "persist", "./persist", "data/{a,b}", "data/^x$"} {
		out = append(out, c19Case{kind: "hist", fixture: 2, ops: [][]string{{"SET", "kn", "v"}}, saveAt: []bool{true, true}, base: b},
			c19Case{kind: "hist", fixture: 2, ops: [][]string{{"SELECT", "1"}, {"RPUSH", "kl", "c"}}, saveAt: []bool{false, false, true}, base: b})
	}
	nHist = len(out)
	for _, t := range c19Transitions(tier) {
		out = append(out, c19Case{kind: "crash", a: t.a, b: t.b})
		nCrash++
	}
	return
}

var c19Memo = map[string][]c19Case{}

func c19Get(tier string) []c19Case {
	l, ok := c19Memo[tier]
	if !ok {
		l, _, _ = c19List(tier)
		c19Memo[tier] = l
	}
	return l
}

func c19Counts(tier string) (int, int) {
	_, a, b := c19List(tier)
	return a, b
}

// c19FlushCases: a database that has been emptied by deletions that are not saved yet is flushed: the keys
// must not come back with a restart (a seeded change of wave 8 let a flush of an empty database skip the
// dirty mark - which lives in the dictionary the flush replaces). Also run as part of C14's check: what
// FLUSHDB / FLUSHALL empty stays empty.
func c19FlushCases() []c19Case {
	var out []c19Case
	for _, db := range []string{"0", "1", "15"} {
		for _, create := range [][]string{{"SET", "kn", "new"}, {"RPUSH", "kn", "a", "b"}, {"HSET", "kn", "f", "v"}, {"SADD", "kn", "m"}} {
			for _, empty := range [][]string{{"DEL", "kn"}, {"UNLINK", "kn"}, {"RENAME", "kn", "kn"}, {"FLUSHDB"}} {
				for _, flush := range [][]string{{"FLUSHALL"}, {"FLUSHDB"}, {"FLUSHALL", "SYNC"}} {
					if db != "0" && (create[0] != "SET" || empty[0] == "RENAME") {
						continue
					}
					ops := [][]string{{"SELECT", db}, create, empty, flush}
					// saved after the creation, not after the emptying; the flush is followed by the final save
					out = append(out, c19Case{kind: "hist", fixture: 3, ops: ops, saveAt: []bool{false, false, true, false, true}},
						c19Case{kind: "hist", fixture: 3, ops: ops, saveAt: []bool{false, false, true, true, true}})
				}
			}
		}
	}
	return out
}

func init() {
	// C14: the flush histories above, judged as in C19 (state before the shutdown = state after the restart)
	prev := extraRunners["C14"]
	extraRunners["C14"] = func(tier string, rep *Report) {
		if prev != nil {
			prev(tier, rep)
		}
		redisemu.VInit()
		n, bad := 0, 0
		for _, cs := range c19FlushCases() {
			n++
			if r := runC19(cs); r.Status == "violation" {
				bad++
				rep.add("flush-then-restart|"+r.Sig, r.Detail, r.Trace)
			}
		}
		rep.Coverage["flush_restart_histories"] = n
		rep.Coverage["flush_restart_violations"] = bad
	}
}

func c19Cases(tier string) *caseList {
	l := c19Get(tier)
	return &caseList{N: len(l), Run: func(i int) caseResult { return runC19(l[i]) }, Name: func(i int) string { return c19Name(l[i]) }, Class: func(i int) string { return c19Class(l[i]) }}
}

func c19Name(cs c19Case) string {
	if cs.kind == "crash" {
		return fmt.Sprintf("crash during the save of %v after %v", cmdList(cs.b), cmdList(cs.a))
	}
	var parts []string
	parts = append(parts, fmt.Sprintf("fixture%d", cs.fixture))
	if len(cs.stray) > 0 {
		parts = append(parts, "stray files "+strings.Join(cs.stray, " "))
	}
	if cs.base != "" {
		parts = append(parts, fmt.Sprintf("persist path %q", cs.base))
	}
	if cs.saveAt[0] {
		parts = append(parts, "save")
	}
	for i, o := range cs.ops {
		parts = append(parts, strings.Join(quoteArgs(clipArgs(o)), " "))
		if cs.saveAt[i+1] {
			parts = append(parts, "save")
		}
	}
	parts = append(parts, fmt.Sprintf("restart+%dms", cs.delay))
	return strings.Join(parts, "; ")
}

func cmdList(cmds [][]string) string {
	var p []string
	for _, c := range cmds {
		p = append(p, strings.Join(quoteArgs(clipArgs(c)), " "))
	}
	return "[" + strings.Join(p, "; ") + "]"
}

func c19Class(cs c19Case) string {
	if cs.kind == "crash" {
		return "crash:" + cmdList(cs.b)
	}
	var n []string
	for _, o := range cs.ops {
		if strings.EqualFold(o[0], "SELECT") {
			n = append(n, "SELECT "+o[1])
			continue
		}
		n = append(n, strings.ToUpper(o[0]))
	}
	if len(cs.stray) > 0 {
		return "stray" + strings.Join(cs.stray, "")
	}
	if cs.base != "" {
		return "path:" + cs.base
	}
	return strings.Join(n, "+")
}

// ---- part A ------------------------------------------------------------------------------------------------

func runC19(cs c19Case) (cr caseResult) {
	if cs.kind == "crash" {
		return runC19Crash(cs)
	}
	cr.Units = 1
	base := c19Base
	if cs.base != "" {
		base = cs.base
	}
	redisemu.VResetGlobals()
	vos.ResetFS()
	verifrt.SetNow(time.UnixMilli(epochMs).UTC())
	var before0, before, after, cont1, cont2 []string
	var probeDiff string
	var derr error
	var saveErr error
	var trouble string
	s := verifrt.NewSched(nil)
	s.Horizon = 3000000
	s.Run(func() {
		vi := redisemu.VNew(base)
		cl := vi.NewClient()
		for _, f := range c19Fixtures()[cs.fixture] {
			cl.Do(f.Args...)
		}
		tick := int64(0)
		save := func() {
			if e := vi.Save(); e != nil && saveErr == nil {
				saveErr = e
			}
		}
		if cs.saveAt[0] {
			save()
		}
		obs := vi.NewClient()
		if before0, derr = dumpDBs(obs); derr != nil {
			return
		}
		for i, o := range cs.ops {
			tick++
			verifrt.SetNow(time.UnixMilli(epochMs).UTC().Add(time.Duration(tick) * time.Microsecond))
			if _, e := vm.Parse1(cl.Do(o...)); e != nil {
				trouble = fmt.Sprintf("%v: %v", o, e)
				return
			}
			if cs.saveAt[i+1] {
				save()
			}
		}
		// shutdown: the final save has happened; time passes; restart
		verifrt.SetNow(time.UnixMilli(epochMs + cs.delay).UTC().Add(time.Duration(tick+1) * time.Microsecond))
		if before, derr = dumpDBs(obs); derr != nil {
			return
		}
		for _, suffix := range cs.stray {
			// something else wrote files with similar names into the directory: none of them is a database of ours
			vos.WriteFile(base+suffix, []byte("not a snapshot"), 0o644)
		}
		vi2 := redisemu.VNew(base)
		cl2 := vi2.NewClient()
		if after, derr = dumpDBs(cl2); derr != nil {
			return
		}
		// life after the restart: the restarted instance and the one that never stopped stay in step
		probe1, probe2 := vi.NewClient(), vi2.NewClient()
		for _, o := range c19Probe() {
			r1, e1 := vm.Parse1(probe1.Do(o...))
			r2, e2 := vm.Parse1(probe2.Do(o...))
			if e1 != nil || e2 != nil {
				trouble = fmt.Sprintf("probe %v: %v %v", o, e1, e2)
				return
			}
			if o[0] != "DBSIZE" && vm.Canon(r1) != vm.Canon(r2) && probeDiff == "" { // DBSIZE may count expired keys not yet reaped
				probeDiff = fmt.Sprintf("%v answers %s on the instance that kept running and %s on the restarted one", o, r1.String(), r2.String())
			}
		}
		if cont1, derr = dumpDBs(obs); derr != nil {
			return
		}
		cont2, derr = dumpDBs(cl2)
	})
	viol := func(sig, detail string) caseResult {
		return caseResult{Status: "violation", Sig: sig + "|" + c19Class(cs), Detail: c19Name(cs) + ": " + detail, Trace: map[string]any{"fixture": cmdListOps(c19Fixtures()[cs.fixture]), "ops": cs.ops, "save_after": cs.saveAt, "restart_delay_ms": cs.delay}, Units: 1}
	}
	if s.Term == verifrt.TermPanic {
		return viol("panic@"+panicSite(s.PanicStk), "panic: "+firstLine(fmt.Sprint(s.PanicVal)))
	}
	if s.Term != verifrt.TermAllDone {
		return viol("not-finished", fmt.Sprintf("terminal %s", s.Term))
	}
	if trouble != "" || derr != nil {
		return viol("malformed-reply", fmt.Sprint(trouble, derr))
	}
	if saveErr != nil {
		return viol("save-error", saveErr.Error())
	}
	for i := range before {
		if before[i] != after[i] {
			kind := "restart-differs"
			if strings.HasPrefix(after[i], "keys=0;") && !strings.HasPrefix(before[i], "keys=0;") {
				kind = "restart-lost-database"
			}
			return viol(fmt.Sprintf("%s|db%d", kind, c19DBs[i]), fmt.Sprintf("database %d before shutdown {%s} after restart {%s}", c19DBs[i], clipB([]byte(before[i])), clipB([]byte(after[i]))))
		}
	}
	if probeDiff != "" {
		return viol("diverges-after-restart|reply", "after the restart (state read back identical): "+probeDiff)
	}
	for i := range cont1 {
		if cont1[i] != cont2[i] {
			return viol(fmt.Sprintf("diverges-after-restart|db%d", c19DBs[i]), fmt.Sprintf("the same commands after the restart leave database %d as {%s} on the instance that kept running and as {%s} on the restarted one", c19DBs[i], clipB([]byte(cont1[i])), clipB([]byte(cont2[i]))))
		}
	}
	cr.Status = "ok"
	cr.Nontrivial = strings.Join(before0, "|") != strings.Join(before, "|")
	return
}

func cmdListOps(ops []Op) [][]string {
	var out [][]string
	for _, o := range ops {
		out = append(out, o.Args)
	}
	return out
}

// ---- part B ------------------------------------------------------------------------------------------------

func runC19Crash(cs c19Case) (cr caseResult) {
	redisemu.VResetGlobals()
	vos.ResetFS()
	verifrt.SetNow(time.UnixMilli(epochMs).UTC())
	viol := func(sig, detail string, extra map[string]any) caseResult {
		tr := map[string]any{"state_a": cs.a, "then": cs.b}
		for k, v := range extra {
			tr[k] = v
		}
		return caseResult{Status: "violation", Sig: sig + "|" + c19Class(cs), Detail: c19Name(cs) + ": " + detail, Trace: tr, Units: cr.Units, NTUnits: cr.NTUnits}
	}
	var dumpA, dumpB []string
	var fsA, fsB map[string][]byte
	var log []vos.Op
	var derr error
	s := verifrt.NewSched(nil)
	s.Run(func() {
		vi := redisemu.VNew(c19Base)
		cl := vi.NewClient()
		obs := vi.NewClient()
		for _, o := range cs.a {
			cl.Do(o...)
		}
		cl.Do("SELECT", "0")
		vi.Save()
		if dumpA, derr = dumpDBs(obs); derr != nil {
			return
		}
		fsA = vos.Snapshot()
		for _, o := range cs.b {
			cl.Do(o...)
		}
		if dumpB, derr = dumpDBs(obs); derr != nil {
			return
		}
		vos.Log = nil
		vos.Armed = true
		vi.Save()
		vos.Armed = false
		log = append([]vos.Op{}, vos.Log...)
		fsB = vos.Snapshot()
	})
	if s.Term != verifrt.TermAllDone || derr != nil {
		return viol("setup", fmt.Sprintf("terminal %s %v %v", s.Term, s.PanicVal, derr), nil)
	}
	// the complete save must load as B (checked by part A as well)
	type crashPoint struct {
		k, cut int
	}
	var points []crashPoint
	for k := 0; k <= len(log); k++ {
		points = append(points, crashPoint{k, -1})
		if k > 0 && log[k-1].Kind == vos.OpWrite {
			n := len(log[k-1].Data)
			step := 1
			if n > 400 {
				step = n / 200
			}
			for cut := 0; cut < n; cut += step {
				points = append(points, crashPoint{k, cut})
			}
		}
	}
	sameFS := func(x, y map[string][]byte) bool {
		if len(x) != len(y) {
			return false
		}
		for p, d := range x {
			if d2, ok := y[p]; !ok || string(d) != string(d2) {
				return false
			}
		}
		return true
	}
	for _, pt := range points {
		cr.Units++
		fsC := vos.Apply(fsA, log[:pt.k], pt.cut)
		if !sameFS(fsC, fsA) && !sameFS(fsC, fsB) {
			cr.NTUnits++
		}
		redisemu.VResetGlobals()
		vos.ResetFS()
		vos.Restore(fsC)
		verifrt.SetNow(time.UnixMilli(epochMs).UTC())
		var got []string
		var gerr error
		s2 := verifrt.NewSched(nil)
		s2.Run(func() {
			vi := redisemu.VNew(c19Base)
			got, gerr = dumpDBs(vi.NewClient())
		})
		where := fmt.Sprintf("after %d of %d file operations", pt.k, len(log))
		if pt.k > 0 {
			op := log[pt.k-1]
			where += fmt.Sprintf(" (last: %s %s", op.Kind, op.Path)
			if pt.cut >= 0 {
				where += fmt.Sprintf(", only %d of %d bytes written", pt.cut, len(op.Data))
			}
			where += ")"
		}
		extra := map[string]any{"crash_after_ops": pt.k, "cut": pt.cut, "oplog": describeLog(log)}
		if s2.Term == verifrt.TermPanic {
			return viol("restart-panics@"+panicSite(s2.PanicStk), fmt.Sprintf("crash %s: the restart panics: %s", where, firstLine(fmt.Sprint(s2.PanicVal))), extra)
		}
		if s2.Term != verifrt.TermAllDone || gerr != nil {
			return viol("restart-fails", fmt.Sprintf("crash %s: terminal %s %v", where, s2.Term, gerr), extra)
		}
		for i := range got {
			if got[i] != dumpA[i] && got[i] != dumpB[i] {
				kind := "partial"
				if strings.HasPrefix(got[i], "keys=0;") {
					kind = "empty"
				}
				return viol(fmt.Sprintf("crash-state-%s|db%d", kind, c19DBs[i]), fmt.Sprintf("crash %s: database %d loads as {%s}, neither the previous {%s} nor the new snapshot {%s}", where, c19DBs[i], clipB([]byte(got[i])), clipB([]byte(dumpA[i])), clipB([]byte(dumpB[i]))), extra)
			}
		}
	}
	cr.Status = "ok"
	return
}

func describeLog(log []vos.Op) []string {
	var out []string
	for _, op := range log {
		switch op.Kind {
		case vos.OpWrite:
			out = append(out, fmt.Sprintf("write %s %dB", op.Path, len(op.Data)))
		case vos.OpRename:
			out = append(out, fmt.Sprintf("rename %s -> %s", op.Path, op.Path2))
		default:
			out = append(out, fmt.Sprintf("%s %s", op.Kind, op.Path))
		}
	}
	return out
}
