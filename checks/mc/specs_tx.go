package main

func cs(sess int, args ...string) Op { return Op{Sess: sess, Args: args} }

// ---- C09: MULTI / EXEC ----------------------------------------------------------------------

func specC09(tier string) *SeqSpec {
	s := &SeqSpec{ID: "C09", Sessions: 2, Keys: []string{"k", "l1", "e"}, DBs: []int{0, 1}}
	s.Inits = [][]Op{{c("RPUSH", "l1", "z")}}
	s.Alphabet = []Op{
		c("MULTI"), c("EXEC"), c("DISCARD"), c("WATCH", "k"), c("UNWATCH"),
		c("SET", "k", "1"), c("INCR", "k"), c("INCR", "l1"), c("GETT", "k"), c("GET"), c("BLPOP", "e", "0"), c("LPUSH", "e", "x"), c("PING"), c("SELECT", "1"),
		cs(1, "SET", "k", "2"), cs(1, "GET", "k"), cs(1, "LPUSH", "e", "y"),
	}
	s.Depth = 6
	if tier == "thorough" {
		s.Depth = 8
		s.Alphabet = append(s.Alphabet, c("BLMOVE", "e", "l1", "LEFT", "RIGHT", "0.5"), cs(1, "DEL", "k"))
	}
	// time passes while the transaction is open: what a queued command does is decided when EXEC runs it
	// (lifetimes count from EXEC, a key that expires in between is missing for the queued commands)
	s.TTL = true
	wait := func(ms int64) Op { return Op{Sess: 1, Args: []string{"PING"}, Advance: ms} }
	for _, q := range [][]Op{
		{c("SET", "k", "v", "PX", "1000"), wait(1300), c("EXEC"), c("GET", "k"), c("PTTL", "k")},
		{c("SET", "k", "v"), c("PEXPIRE", "k", "1000"), c("GET", "k"), wait(1300), c("EXEC"), c("PTTL", "k")},
		{c("SETEX", "k", "2", "v"), c("GETEX", "k", "PX", "500"), wait(5000), c("EXEC"), c("GET", "k"), wait(400), c("GET", "k"), wait(200), c("GET", "k")},
		{c("EXPIRE", "l1", "1"), c("RPUSH", "l1", "y"), wait(1500), c("EXEC"), c("LRANGE", "l1", "0", "-1"), c("PTTL", "l1")},
		{c("GET", "tmp"), c("INCR", "tmp"), wait(600), c("EXEC"), c("GET", "tmp")},
		{c("BLPOP", "e", "0.2"), c("PSETEX", "k", "300", "w"), wait(250), c("EXEC"), wait(100), c("GET", "k"), wait(250), c("GET", "k")},
	} {
		seq := append([]Op{cs(1, "SET", "tmp", "1", "PX", "500"), c("MULTI")}, q...)
		o := seq[0]
		o.Then = seq[1:]
		s.InitSweep = append(s.InitSweep, o)
	}
	s.Keys = append(s.Keys, "tmp")
	return s
}

// ---- C10: WATCH -----------------------------------------------------------------------------------

// writers / readers / failing writers, parameterised by the acting session
func c10Ops(sess int) (W, R, F []Op) {
	w := [][]string{
		// strings
		{"SET", "ws", "new"}, {"SET", "ws", "10"}, {"SET", "wn", "created"}, {"APPEND", "ws", "x"}, {"INCR", "ws"}, {"DECRBY", "ws", "3"}, {"INCRBYFLOAT", "ws", "0.5"}, {"SETRANGE", "ws", "0", "9"}, {"GETSET", "ws", "g"}, {"GETDEL", "ws"},
		{"SETBIT", "ws", "1", "1"}, {"BITFIELD", "ws", "SET", "u4", "0", "3"}, {"BITOP", "NOT", "ws", "ws"}, {"BITOP", "OR", "wn", "ws", "ws"}, {"MSET", "ws", "m", "u", "m"}, {"MSETNX", "wn", "m"}, {"SETNX", "wn", "m"}, {"SETEX", "ws", "100", "t"},
		{"GETEX", "ws", "EX", "100"}, {"GETEX", "wt", "PERSIST"},
		// lists
		{"RPUSH", "wl", "p"}, {"LPUSH", "wl", "p"}, {"LPOP", "wl"}, {"RPOP", "wl"}, {"LSET", "wl", "0", "s"}, {"LINSERT", "wl", "BEFORE", "e", "i"}, {"LREM", "wl", "0", "e"}, {"LTRIM", "wl", "0", "0"}, {"LMOVE", "wl", "u", "LEFT", "LEFT"}, {"LMOVE", "ul", "wl", "LEFT", "LEFT"},
		{"LMOVE", "wl", "wl", "LEFT", "RIGHT"}, {"RPOPLPUSH", "wl", "wn"}, {"LMPOP", "1", "wl", "LEFT"}, {"LPUSHX", "wl", "p"}, {"BLPOP", "wl", "0.01"}, {"BLMOVE", "wl", "wn", "LEFT", "LEFT", "0.01"}, {"RPUSH", "wn", "created"},
		{"LSET", "wm", "1", "s"}, {"LSET", "wm", "2", "s"}, {"LSET", "wm", "-2", "s"}, {"LINSERT", "wm", "BEFORE", "c", "i"}, {"LREM", "wm", "0", "c"}, {"LTRIM", "wm", "1", "3"},
		{"HSET", "wg", "f2", "changed"}, {"HSET", "wg", "f3", "changed"}, {"HDEL", "wg", "f3"}, {"HINCRBY", "wg", "f4", "1"}, {"SREM", "wy", "m2"}, {"SREM", "wy", "m3"}, {"SMOVE", "wy", "u2", "m4"},
		// hashes
		{"HSET", "wh", "q", "v"}, {"HSET", "wh", "f", "changed"}, {"HSETNX", "wh", "q", "v"}, {"HDEL", "wh", "f"}, {"HDEL", "wh", "f", "g"}, {"HINCRBY", "wh", "f", "2"}, {"HINCRBYFLOAT", "wh", "f", "0.5"}, {"HMSET", "wh", "q", "v"}, {"HSET", "wn", "f", "created"},
		// sets
		{"SADD", "wz", "q"}, {"SREM", "wz", "m"}, {"SREM", "wz", "m", "n2"}, {"SMOVE", "wz", "u2", "m"}, {"SMOVE", "uz", "wz", "z9"}, {"SUNIONSTORE", "wz", "wz", "uz"}, {"SINTERSTORE", "wz", "wz", "wn"}, {"SDIFFSTORE", "wn", "wz"}, {"SADD", "wn", "created"},
		// generic
		{"DEL", "ws"}, {"DEL", "wl"}, {"UNLINK", "wh"}, {"UNLINK", "wz"}, {"RENAME", "ws", "u3"}, {"RENAME", "ul", "wl"}, {"RENAME", "ul", "wn"}, {"RENAMENX", "wh", "u3"}, {"RENAMENX", "ul", "wn"}, {"COPY", "ul", "wn"}, {"COPY", "ul", "ws", "REPLACE"},
		{"EXPIRE", "ws", "100"}, {"PEXPIRE", "wl", "100000"}, {"EXPIRE", "wh", "-1"}, {"EXPIREAT", "wz", "1893457000"}, {"PERSIST", "wt"}, {"SORT", "ul", "ALPHA", "STORE", "wl"}, {"SORT", "ul", "ALPHA", "STORE", "wn"},
		{"FLUSHDB"}, {"FLUSHALL"},
	}
	r := [][]string{
		{"GET", "ws"}, {"STRLEN", "ws"}, {"GETRANGE", "ws", "0", "-1"}, {"MGET", "ws", "wn"}, {"GETBIT", "ws", "1"}, {"BITCOUNT", "ws"}, {"BITFIELD", "ws", "GET", "u4", "0"}, {"GETEX", "ws"}, {"LCS", "ws", "ws"},
		{"LRANGE", "wl", "0", "-1"}, {"LLEN", "wl"}, {"LINDEX", "wl", "0"}, {"LPOS", "wl", "e"}, {"HGETALL", "wh"}, {"HGET", "wh", "f"}, {"HLEN", "wh"}, {"HRANDFIELD", "wh"}, {"HSCAN", "wh", "0", "COUNT", "100"},
		{"SMEMBERS", "wz"}, {"SCARD", "wz"}, {"SISMEMBER", "wz", "m"}, {"SRANDMEMBER", "wz"}, {"SINTER", "wz", "uz"}, {"SINTERCARD", "1", "wz"}, {"EXISTS", "ws", "wl", "wn"}, {"TYPE", "wh"}, {"TOUCH", "ws", "wl"}, {"TTL", "wt"}, {"PTTL", "ws"},
		{"KEYS", "*"}, {"DBSIZE"}, {"SCAN", "0", "COUNT", "100"}, {"RANDOMKEY"}, {"SORT", "wl", "ALPHA"}, {"DUMP", "ws"}, {"SET", "u", "unrelated"}, {"DEL", "u"}, {"RPUSH", "ul", "unrelated"}, {"COPY", "ws", "u4"}, {"SUNIONSTORE", "u5", "wz"}, {"SMOVE", "wz", "u2", "absent"},
	}
	f := [][]string{
		{"INCR", "wl"}, {"LPUSH", "ws", "x"}, {"HSET", "wz", "f", "v"}, {"SADD", "wh", "m"}, {"APPEND", "wl", "x"}, {"SET", "ws", "v", "NX"}, {"SET", "wn", "v", "XX"}, {"SETNX", "ws", "v"}, {"MSETNX", "ws", "v", "wn", "v"}, {"INCR", "wt"}, {"HINCRBY", "wh", "g", "1"},
		{"LSET", "wl", "9", "v"}, {"LSET", "wn", "0", "v"}, {"SETRANGE", "ws", "-1", "v"}, {"RENAME", "wn", "u3"}, {"RENAMENX", "ws", "wl"}, {"COPY", "ws", "wl"}, {"EXPIRE", "ws", "100", "XX"}, {"EXPIRE", "wn", "100"}, {"PERSIST", "ws"}, {"LPUSHX", "wn", "v"},
		{"HSETNX", "wh", "f", "v"}, {"SREM", "wz", "absent"}, {"HDEL", "wh", "absent"}, {"LREM", "wl", "0", "absent"}, {"DEL", "wn"}, {"GETDEL", "wn"}, {"LPOP", "wn"}, {"SINTERSTORE", "wn", "wn", "wz"}, {"LINSERT", "wl", "BEFORE", "absent", "v"},
	}
	mk := func(t [][]string) []Op {
		out := make([]Op, 0, len(t))
		for _, a := range t {
			out = append(out, Op{Sess: sess, Args: a})
		}
		return out
	}
	return mk(w), mk(r), mk(f)
}

func c10Fixture() []Op {
	return []Op{
		cs(1, "SET", "ws", "5"), cs(1, "RPUSH", "wl", "e", "e2"), cs(1, "HSET", "wh", "f", "1", "g", "x"), cs(1, "SADD", "wz", "m", "n2"), cs(1, "SET", "wt", "1", "PX", "50000"),
		cs(1, "RPUSH", "ul", "b", "a"), cs(1, "SADD", "uz", "m", "z9"),
		// longer aggregates: a change can be in the interior, away from the ends / the first element
		cs(1, "RPUSH", "wm", "a", "b", "c", "d", "e5"), cs(1, "HSET", "wg", "f1", "1", "f2", "2", "f3", "3", "f4", "4"), cs(1, "SADD", "wy", "m1", "m2", "m3", "m4"),
	}
}

var c10Watched = []string{"ws", "wl", "wh", "wz", "wn", "wt", "wm", "wg", "wy"}

func specC10(tier string, variant int) *SeqSpec {
	id := []string{"C10", "C10#inmulti", "C10#db1"}[variant]
	s := &SeqSpec{ID: id, Sessions: 2, Keys: []string{"ws", "wl", "wh", "wz", "wn", "wt", "wm", "wg", "wy", "u", "ul", "uz", "u2", "u3", "u4", "u5", "probe"}, DBs: []int{0}, TTL: true}
	w0, r0, f0 := c10Ops(0)
	w1, r1, f1 := c10Ops(1)
	expire := Op{Sess: 1, Args: []string{"PING"}, Advance: 50002} // the clock passes wt's deadline
	probe := func(pre ...Op) Op {
		// the observation: a transaction whose effect is visible iff EXEC ran
		seq := append(pre, cs(0, "MULTI"), cs(0, "SET", "probe", "1"), cs(0, "EXEC"))
		o := seq[0]
		o.Then = seq[1:]
		return o
	}
	switch variant {
	case 0:
		// every single key watched on its own, and all together
		for _, k := range c10Watched {
			s.Inits = append(s.Inits, append(c10Fixture(), cs(0, "WATCH", k)))
		}
		s.Inits = append(s.Inits, append(c10Fixture(), Op{Sess: 0, Args: append([]string{"WATCH"}, c10Watched...)}))
		s.Inits = append(s.Inits, append(c10Fixture(), cs(0, "WATCH", "ws"), cs(0, "WATCH", "wl", "wn")))
		// every writer / reader / failing writer, by the other and by the watching connection,
		// followed at once by the probe transaction
		all := append(append(append(append(append(append([]Op{}, w1...), w0...), r1...), f1...), r0...), f0...)
		all = append(all, expire)
		for _, o := range all {
			s.Sweep = append(s.Sweep, probe(o))
		}
		s.Sweep = append(s.Sweep, probe(), probe(cs(0, "UNWATCH")), probe(cs(0, "MULTI"), cs(0, "DISCARD")), probe(cs(0, "WATCH", "u")),
			probe(cs(1, "SET", "ws", "x"), cs(0, "UNWATCH")), probe(cs(1, "SET", "ws", "x"), cs(0, "MULTI"), cs(0, "DISCARD")), probe(cs(1, "SET", "ws", "x"), cs(0, "MULTI"), cs(0, "EXEC")),
			probe(cs(1, "SET", "ws", "x"), cs(0, "WATCH", "ws")), probe(cs(1, "RPUSH", "wl", "x"), cs(0, "WATCH", "wl")), probe(cs(1, "SET", "ws", "x"), cs(1, "SET", "ws", "5")), probe(cs(1, "RPUSH", "wl", "x"), cs(1, "RPOP", "wl")),
			probe(cs(1, "RENAME", "ws", "tmp"), cs(1, "RENAME", "tmp", "ws")), probe(cs(1, "DEL", "ws"), cs(1, "SET", "ws", "5")), probe(cs(1, "SET", "wn", "x"), cs(1, "DEL", "wn")),
			// the key disappears through a flush and is re-created with the same content
			probe(cs(1, "FLUSHALL"), cs(1, "SET", "ws", "5")), probe(cs(1, "FLUSHDB"), cs(1, "RPUSH", "wl", "e", "e2")), probe(cs(0, "FLUSHALL"), cs(0, "SET", "ws", "5")),
			probe(cs(1, "FLUSHDB"), cs(1, "HSET", "wh", "f", "1", "g", "x")), probe(cs(1, "FLUSHALL"), cs(1, "SADD", "wz", "m", "n2")))
		// a watched STRING that is changed and changed back is still a changed key (strings are replaced by
		// every write; the open finding about in-place changes concerns lists, hashes, sets and missing keys)
		for _, who := range []int{1, 0} {
			for _, pair := range [][2][]string{{{"INCR", "ws"}, {"DECR", "ws"}}, {{"INCRBY", "ws", "5"}, {"DECRBY", "ws", "5"}}, {{"DECR", "ws"}, {"INCR", "ws"}}, {{"SETBIT", "ws", "7", "1"}, {"SETBIT", "ws", "7", "0"}},
				{{"SETRANGE", "ws", "0", "9"}, {"SETRANGE", "ws", "0", "5"}}, {{"INCRBYFLOAT", "ws", "1.5"}, {"INCRBYFLOAT", "ws", "-1.5"}}, {{"APPEND", "ws", ""}, {"GET", "ws"}}, {{"INCRBY", "ws", "0"}, {"GET", "ws"}}, {{"GETSET", "ws", "5"}, {"GET", "ws"}}, {{"SET", "ws", "5", "KEEPTTL"}, {"GET", "ws"}}} {
				s.Sweep = append(s.Sweep, probe(Op{Sess: who, Args: pair[0]}, Op{Sess: who, Args: pair[1]}))
			}
		}
		// commands of the watching connection that are refused, or have nothing to do with transactions,
		// leave the watches alone - whether a watched key has been modified or not
		for _, keep := range [][]Op{
			{cs(0, "DISCARD")}, {cs(0, "EXEC")}, {cs(0, "DISCARD"), cs(0, "DISCARD")}, {cs(0, "NOSUCHCMD")}, {cs(0, "WATCH")}, {cs(0, "GET")}, {cs(0, "PING")},
			{cs(0, "SELECT", "1"), cs(0, "SELECT", "0")}, {cs(0, "SELECT", "99")}, {cs(0, "CLIENT", "SETNAME", "w")}, {cs(0, "HELLO", "3")}, {cs(0, "HELLO", "9")},
			{cs(0, "MULTI"), cs(0, "MULTI"), cs(0, "DISCARD"), cs(0, "WATCH", "ws", "wl", "wh", "wz", "wn")}, {cs(0, "GET", "ws"), cs(0, "LRANGE", "wl", "0", "-1")}, {cs(0, "BLPOP", "nolist", "0.01")},
		} {
			s.Sweep = append(s.Sweep, probe(keep...))
			for _, mod := range []Op{cs(1, "SET", "ws", "x"), cs(1, "RPUSH", "wl", "x"), cs(1, "SET", "wn", "x"), cs(1, "HSET", "wh", "q", "v"), cs(1, "SADD", "wz", "q")} {
				s.Sweep = append(s.Sweep, probe(append([]Op{mod}, keep...)...), probe(append(append([]Op{}, keep...), mod)...))
			}
		}
		// chained: operations after which the sweep is repeated (a second transaction on the same
		// connection, a re-established watch, a modified-but-unwatched past)
		s.Alphabet = []Op{probe(), probe(cs(1, "SET", "ws", "again")), cs(0, "UNWATCH"), Op{Sess: 0, Args: append([]string{"WATCH"}, c10Watched...)}, cs(1, "SET", "u", "x"), expire}
		s.Depth = 0
		if tier == "thorough" {
			s.Depth = 1
		}
	case 1:
		// the modification arrives between MULTI and EXEC
		all := Op{Sess: 0, Args: append([]string{"WATCH"}, c10Watched...)}
		for _, k := range c10Watched {
			s.Inits = append(s.Inits, append(c10Fixture(), cs(0, "WATCH", k), cs(0, "MULTI"), cs(0, "SET", "probe", "1")))
		}
		s.Inits = append(s.Inits, append(c10Fixture(), all, cs(0, "MULTI"), cs(0, "SET", "probe", "1")))
		allOps := append(append(append(append([]Op{}, w1...), r1...), f1...), expire)
		// own commands are only queued: they must not abort the transaction they are part of
		allOps = append(allOps, w0[:8]...)
		for _, o := range allOps {
			o.Then = []Op{cs(0, "EXEC")}
			s.Sweep = append(s.Sweep, o)
		}
		s.Sweep = append(s.Sweep, cs(0, "EXEC"), Op{Sess: 0, Args: []string{"DISCARD"}, Then: []Op{cs(0, "MULTI"), cs(0, "SET", "probe", "2"), cs(0, "EXEC")}})
		s.Alphabet = []Op{cs(1, "SET", "u", "x"), cs(1, "GET", "ws")}
		s.Depth = 0
		if tier == "thorough" {
			s.Depth = 1
		}
	case 2:
		// same in database 1, with a same-named key in database 0 being modified
		s.DBs = []int{0, 1}
		fix := []Op{cs(0, "SELECT", "1"), cs(1, "SELECT", "1")}
		fix = append(fix, c10Fixture()...)
		fix = append(fix, cs(1, "SELECT", "0"), cs(1, "SET", "ws", "other-db"), cs(1, "RPUSH", "wl", "other-db"))
		s.Inits = append(s.Inits, append(append([]Op{}, fix...), Op{Sess: 0, Args: append([]string{"WATCH"}, c10Watched...)}))
		// the other connection is in database 0 (init) or database 1 (after the chained SELECT)
		s.Alphabet = []Op{cs(1, "SELECT", "1"), cs(1, "SELECT", "0")}
		for _, o := range []Op{cs(1, "SET", "ws", "x"), cs(1, "RPUSH", "wl", "x"), cs(1, "DEL", "ws"), cs(1, "FLUSHDB"), cs(1, "FLUSHALL"), cs(1, "COPY", "ws", "wn"), cs(1, "HSET", "wh", "q", "v"), cs(1, "GET", "ws"), cs(1, "RENAME", "ws", "wn")} {
			s.Sweep = append(s.Sweep, probe(o))
		}
		s.Sweep = append(s.Sweep, probe())
		// the same NAME watched in two databases is two watches: the connection watches ws in database 1
		// (init), goes to database 0, watches ws there too, comes back; a change of either aborts EXEC
		for _, mod := range [][]Op{{cs(1, "SELECT", "0"), cs(1, "SET", "ws", "changed-in-db0")}, {cs(1, "SELECT", "1"), cs(1, "SET", "ws", "changed-in-db1")}, {cs(1, "SELECT", "0"), cs(1, "RPUSH", "wl", "x")}, {cs(1, "SELECT", "1"), cs(1, "DEL", "wl")}, {cs(1, "SELECT", "0"), cs(1, "GET", "ws")}, {cs(1, "FLUSHALL")}} {
			for _, order := range [][]Op{
				{cs(0, "SELECT", "0"), cs(0, "WATCH", "ws", "wl"), cs(0, "SELECT", "1")},
				{cs(0, "UNWATCH"), cs(0, "SELECT", "0"), cs(0, "WATCH", "ws", "wl"), cs(0, "SELECT", "1"), cs(0, "WATCH", "ws", "wl")},
				{cs(0, "UNWATCH"), cs(0, "WATCH", "ws"), cs(0, "SELECT", "0"), cs(0, "WATCH", "ws", "wl"), cs(0, "WATCH", "ws")},
			} {
				seq := append(append([]Op{}, order...), mod...)
				s.Sweep = append(s.Sweep, probe(seq...))
			}
		}
		s.Depth = 1
	}
	return s
}

// ---- C15 (part 2): HELLO switches the protocol of exactly one connection -----------------------------

func specC15hello(tier string) *SeqSpec {
	s := &SeqSpec{ID: "C15#hello", Sessions: 2, Keys: []string{"kh"}, DBs: []int{0}}
	s.Inits = [][]Op{{c("HSET", "kh", "f", "1", "g", "x")}}
	for sess := 0; sess < 2; sess++ {
		for _, a := range [][]string{{"HELLO"}, {"HELLO", "2"}, {"HELLO", "3"}, {"HELLO", "4"}, {"HELLO", "1"}, {"HELLO", "0"}, {"HELLO", "x"}, {"HELLO", "3", "SETNAME", "nm"}, {"HELLO", "2", "BOGUS"}} {
			s.Alphabet = append(s.Alphabet, Op{Sess: sess, Args: a})
		}
	}
	// after every step both connections are probed with a command whose wire form differs
	s.Probes = []Op{cs(0, "HGETALL", "kh"), cs(1, "HGETALL", "kh"), cs(0, "CLIENT", "GETNAME"), cs(1, "CLIENT", "GETNAME")}
	s.Depth = 3
	if tier == "thorough" {
		s.Depth = 4
	}
	return s
}

// ---- C14: databases and session state ------------------------------------------------------------------

func specC14(tier string) *SeqSpec {
	s := &SeqSpec{ID: "C14", Sessions: 3, Keys: []string{"k", "j"}, DBs: []int{0, 1, 15}, LazyFrom: 2, ObserveAll: true, Persist: true}
	var A []Op
	for sess := 0; sess < 3; sess++ {
		v := "v" + itoa(sess)
		A = append(A,
			cs(sess, "SELECT", "0"), cs(sess, "SELECT", "1"), cs(sess, "SELECT", "15"), cs(sess, "SELECT", "16"), cs(sess, "SELECT", "-1"),
			cs(sess, "SET", "k", v), cs(sess, "GET", "k"), cs(sess, "DBSIZE"), cs(sess, "FLUSHDB"), cs(sess, "FLUSHALL"),
		)
		if sess < 2 {
			A = append(A, cs(sess, "CLIENT", "SETNAME", "n"+itoa(sess)), cs(sess, "CLIENT", "GETNAME"), cs(sess, "HELLO", "3"), cs(sess, "RPUSH", "j", v))
		}
	}
	A = append(A, cs(0, "MULTI"), cs(0, "EXEC"), cs(0, "WATCH", "k"), cs(1, "SELECT", "x"), cs(1, "HELLO", "2"), cs(1, "KEYS", "*"))
	// the saver's tick between any two commands (the instance has a persist path): it must not change what any
	// connection sees - e.g. by tidying away a database that connections have selected
	A = append(A, cs(0, "$SAVE"))
	// a database switch inside a transaction: the commands queued after it run in the new database,
	// the connection stays there afterwards
	for sess := 0; sess < 2; sess++ {
		for _, db := range []string{"1", "0", "15"} {
			A = append(A, Op{Sess: sess, Args: []string{"MULTI"}, Then: []Op{cs(sess, "SET", "k", "t0"), cs(sess, "SELECT", db), cs(sess, "GET", "k"), cs(sess, "SET", "k", "t"+db), cs(sess, "DBSIZE"), cs(sess, "EXEC")}})
		}
		A = append(A, Op{Sess: sess, Args: []string{"MULTI"}, Then: []Op{cs(sess, "SELECT", "1"), cs(sess, "SELECT", "16"), cs(sess, "SET", "k", "u"), cs(sess, "EXEC")}},
			Op{Sess: sess, Args: []string{"MULTI"}, Then: []Op{cs(sess, "SELECT", "1"), cs(sess, "FLUSHDB"), cs(sess, "DISCARD")}})
	}
	s.Alphabet = A
	// overlapping transactions: two connections inside MULTI at the same time, every interleaving of
	// their programs at command granularity - each queue belongs to its connection, each EXEC runs its
	// own commands in its own connection's database (a seeded change of wave 5 let all queues share
	// one backing array)
	progs := [][][]string{
		{{"MULTI"}, {"SET", "k", "a"}, {"RPUSH", "j", "x"}, {"GET", "k"}, {"EXEC"}},
		{{"MULTI"}, {"SET", "k", "b"}, {"EXEC"}},
		{{"MULTI"}, {"SELECT", "1"}, {"SET", "k", "c"}, {"DBSIZE"}, {"EXEC"}},
		{{"MULTI"}, {"FLUSHDB"}, {"EXEC"}},
		{{"MULTI"}, {"RPUSH", "j", "y"}, {"RPUSH", "j", "z"}, {"DISCARD"}},
	}
	var weave func(a, b [][]string, acc []Op, emit func([]Op))
	weave = func(a, b [][]string, acc []Op, emit func([]Op)) {
		if len(a) == 0 && len(b) == 0 {
			emit(append([]Op{}, acc...))
			return
		}
		if len(a) > 0 {
			weave(a[1:], b, append(acc, Op{Sess: 0, Args: a[0]}), emit)
		}
		if len(b) > 0 {
			weave(a, b[1:], append(acc, Op{Sess: 1, Args: b[0]}), emit)
		}
	}
	// the saver's tick in the middle of histories in which a connection sits in an EMPTY database (the tick does
	// not change the model's state, so the search over model states never goes on from "after the tick")
	for _, n := range []string{"1", "15"} {
		for _, seq := range [][]Op{
			{cs(0, "SELECT", n), cs(0, "$SAVE"), cs(1, "SELECT", n), cs(1, "SET", "k", "v1"), cs(0, "GET", "k")},
			{cs(0, "SELECT", n), cs(0, "SET", "k", "x"), cs(0, "DEL", "k"), cs(0, "$SAVE"), cs(0, "$SAVE"), cs(1, "SELECT", n), cs(1, "RPUSH", "j", "y"), cs(0, "DBSIZE"), cs(0, "LRANGE", "j", "0", "-1")},
			{cs(0, "SELECT", n), cs(0, "WATCH", "k"), cs(0, "$SAVE"), cs(1, "SELECT", n), cs(1, "SET", "k", "w"), cs(0, "MULTI"), cs(0, "GET", "k"), cs(0, "EXEC")},
			{cs(0, "SELECT", n), cs(0, "$SAVE"), cs(0, "SET", "k", "mine"), cs(0, "$SAVE"), cs(1, "SELECT", n), cs(1, "GET", "k"), cs(1, "FLUSHDB"), cs(0, "GET", "k")},
			{cs(0, "SELECT", n), cs(0, "MULTI"), cs(0, "SET", "k", "queued"), cs(0, "$SAVE"), cs(1, "SELECT", n), cs(1, "SET", "j", "other"), cs(0, "EXEC"), cs(1, "GET", "k"), cs(0, "GET", "j")},
			{cs(0, "SELECT", n), cs(0, "$SAVE"), cs(1, "FLUSHALL"), cs(0, "$SAVE"), cs(0, "SET", "k", "after"), cs(1, "SELECT", n), cs(1, "DBSIZE")},
		} {
			o := seq[0]
			o.Then = seq[1:]
			s.InitSweep = append(s.InitSweep, o)
		}
	}
	for i, pa := range progs {
		for j, pb := range progs {
			if tier != "thorough" && (i+2*j)%3 != 0 && i != j {
				continue
			}
			weave(pa, pb, nil, func(seq []Op) {
				o := seq[0]
				o.Then = seq[1:]
				s.InitSweep = append(s.InitSweep, o)
			})
		}
	}
	s.Depth = 3
	if tier == "thorough" {
		s.Depth = 4
	}
	return s
}
