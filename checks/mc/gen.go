package main

// Generic "enumerate a finite list of cases, run each on a fresh implementation instance"
// driver with worker processes (C01, C13, C19). A case list is identified by (property, tier);
// parent and workers build the identical list.

import (
	"bufio"
	"encoding/json"
	"fmt"
	"io"
	"os"
	"runtime"
	"runtime/debug"
	"runtime/pprof"
	"sync"
	"sync/atomic"
	"time"

	redisemu "github.com/jimsnab/go-redisemu"
)

type caseResult struct {
	Status     string `json:"st"` // ok | violation | skip
	Sig        string `json:"sig,omitempty"`
	Detail     string `json:"d,omitempty"`
	Trace      any    `json:"tr,omitempty"`
	Nontrivial bool   `json:"nt,omitempty"`
	Key        string `json:"k,omitempty"`   // identity of the case for distinct counting
	Units      int    `json:"u,omitempty"`   // sub-evaluations performed by the case
	NTUnits    int    `json:"ntu,omitempty"` // of which non-trivial
}

type caseList struct {
	N     int
	Run   func(i int) caseResult
	Name  func(i int) string
	Class func(i int) string // optional: input class of case i for finding signatures
}

var genLists = map[string]func(tier string) *caseList{}

type genTask struct {
	From int `json:"f"`
	To   int `json:"t"`
	// Skip: input classes in which two cases have already hung a worker; further cases of the class
	// are not run (counted as not applicable) - every one of them would cost a watchdog period
	Skip []string `json:"skip,omitempty"`
	// Patience: seconds without progress after which the worker's watchdog fires (0: 20); the lone re-run
	// that confirms a hang is given more
	Patience int `json:"p,omitempty"`
}

type genTaskResult struct {
	Task   genTask        `json:"t"`
	OK     int            `json:"ok"`
	Skip   int            `json:"skip"`
	NT     int            `json:"nt"`
	Units  int            `json:"units"`
	Viol   []caseResult   `json:"v"`
	VIdx   []int          `json:"vi"`
	VCount map[string]int `json:"vc"`
	Died   bool           `json:"died,omitempty"`
	Hung   *int           `json:"hung,omitempty"` // the worker's watchdog fired while running this case
}

var genProgress int64
var genPatience int64 = 20
var genCurrent atomic.Value

func genWorker(prop, tier string) {
	redisemu.VInit()
	cl := genLists[prop](tier)
	go func() {
		last, since := int64(-1), time.Now()
		for {
			time.Sleep(2 * time.Second)
			cur := atomic.LoadInt64(&genProgress)
			if cur != last {
				last, since = cur, time.Now()
				continue
			}
			if atomic.LoadInt64(&workerBusy) != 1 {
				// between tasks, or in the driver's own housekeeping (returning memory): not the code under test
				since = time.Now()
				continue
			}
			if pat := atomic.LoadInt64(&genPatience); time.Since(since) > time.Duration(pat)*time.Second {
				fmt.Fprintf(os.Stderr, "WATCHDOG: case %v makes no progress for %d s; goroutine dump follows\n", genCurrent.Load(), pat)
				pprof.Lookup("goroutine").WriteTo(os.Stderr, 2)
				// tell the parent which case it was, so that it does not have to bisect with one
				// watchdog period per step
				if idx, ok := genCurrent.Load().(int); ok {
					fmt.Fprintf(protoOut, "{\"hung\":%d}\n", idx)
				}
				os.Exit(3)
			}
		}
	}()
	dec := json.NewDecoder(bufio.NewReaderSize(os.Stdin, 1<<20))
	w := bufio.NewWriterSize(protoOut, 1<<20)
	enc := json.NewEncoder(w)
	for {
		var t genTask
		if err := dec.Decode(&t); err != nil {
			if err == io.EOF {
				return
			}
			os.Exit(2)
		}
		out := genTaskResult{Task: t, VCount: map[string]int{}}
		if t.Patience > 0 {
			atomic.StoreInt64(&genPatience, int64(t.Patience))
		} else {
			atomic.StoreInt64(&genPatience, 20)
		}
		atomic.StoreInt64(&workerBusy, 1)
		skip := map[string]bool{}
		for _, c := range t.Skip {
			skip[c] = true
		}
		for i := t.From; i < t.To; i++ {
			genCurrent.Store(i)
			if len(skip) > 0 && cl.Class != nil && skip[cl.Class(i)] {
				atomic.AddInt64(&genProgress, 1)
				out.Skip++
				continue
			}
			if f := os.Getenv("VERIF_GEN_FAKE_STALL"); f != "" && t.Patience == 0 && f == fmt.Sprint(i) {
				// self-test of the driver: pretend the batch worker stalled at this case
				fmt.Fprintf(protoOut, "{\"hung\":%d}\n", i)
				os.Exit(3)
			}
			r := cl.Run(i)
			atomic.AddInt64(&genProgress, 1)
			// a case may legitimately have allocated hundreds of megabytes (SETBIT k 2147483648 1): give them back
			// before the next case, the worker's address space is limited
			var ms runtime.MemStats
			if i%64 == 0 {
				runtime.ReadMemStats(&ms)
			}
			if ms.HeapIdle-ms.HeapReleased > 1<<30 || ms.HeapAlloc > 2<<30 {
				// the collection of a multi-gigabyte heap on a loaded machine can take longer than a watchdog
				// period; it is the driver's time, not the case's
				atomic.StoreInt64(&workerBusy, 0)
				debug.FreeOSMemory()
				atomic.AddInt64(&genProgress, 1)
				atomic.StoreInt64(&workerBusy, 1)
			}
			out.Units += r.Units
			switch r.Status {
			case "ok":
				out.OK++
				if r.NTUnits > 0 {
					out.NT += r.NTUnits
				} else if r.Nontrivial {
					out.NT++
				}
			case "skip":
				out.Skip++
			default:
				out.VCount[r.Sig]++
				if out.VCount[r.Sig] == 1 && len(out.Viol) < 40 {
					out.Viol = append(out.Viol, r)
					out.VIdx = append(out.VIdx, i)
				}
			}
		}
		atomic.StoreInt64(&workerBusy, 0)
		enc.Encode(out)
		w.Flush()
	}
}

// runGen runs the case list on the worker pool and fills the report.
func runGen(prop, tier string, chunk int, rep *Report) (ok, nontrivial, units int) {
	cl := genLists[prop](tier)
	var jobs []genTask
	for f := 0; f < cl.N; f += chunk {
		to := f + chunk
		if to > cl.N {
			to = cl.N
		}
		jobs = append(jobs, genTask{From: f, To: to})
	}
	tasks := make(chan genTask, len(jobs))
	for _, j := range jobs {
		tasks <- j
	}
	close(tasks)
	results := make(chan genTaskResult, len(jobs)+4096)
	var hungMu sync.Mutex
	hungClasses := map[string]int{}
	deadline := time.Now().Add(tierBudget(tier))
	expired := false
	// confirmDied: a case whose worker died or stalled is run again, alone, in a fresh worker process with a
	// longer watchdog period, twice; it is reported only if the lone runs die as well. (A case is one
	// connection's command sequence under the cooperative scheduler: a hang or a fatal error of the
	// emulator repeats; a stall of the worker itself - collector, machine load - does not.)
	var notConfirmed int64
	confirmDied := func(h int) {
		confirmed := false
		defer func() {
			if confirmed && cl.Class != nil {
				hungMu.Lock()
				hungClasses[cl.Class(h)]++
				hungMu.Unlock()
			}
		}()
		for attempt := 0; attempt < 2; attempt++ {
			wp, err := startWorker("genworker", prop, tier)
			if err != nil {
				break
			}
			js, _ := json.Marshal(genTask{From: h, To: h + 1, Patience: 60})
			wp.in.Write(append(js, '\n'))
			line, err := wp.out.ReadBytes('\n')
			var r genTaskResult
			if err == nil {
				err = json.Unmarshal(line, &r)
			}
			good := err == nil && r.Hung == nil
			if good {
				wp.in.Close()
				wp.cmd.Wait()
				atomic.AddInt64(&notConfirmed, 1)
				fmt.Fprintf(os.Stderr, "case %d: the worker died or stalled in the batch, the lone re-run completes: not reported\n", h)
				results <- r
				return
			}
			wp.cmd.Process.Kill()
			wp.cmd.Wait()
		}
		confirmed = true
		results <- genTaskResult{Task: genTask{From: h, To: h + 1}, Died: true, VCount: map[string]int{}}
	}
	var wg sync.WaitGroup
	for w := 0; w < numWorkers(); w++ {
		wg.Add(1)
		go func() {
			defer wg.Done()
			wp, err := startWorker("genworker", prop, tier)
			if err != nil {
				rep.HarnessErr = append(rep.HarnessErr, err.Error())
				return
			}
			for t := range tasks {
				if time.Now().After(deadline) {
					expired = true
					continue
				}
				// a worker that dies (fatal error, out of memory, watchdog) costs one case: bisect
				pending := []genTask{t}
				for len(pending) > 0 {
					cur := pending[0]
					pending = pending[1:]
					hungMu.Lock()
					cur.Skip = nil
					for c, n := range hungClasses {
						if n >= 2 {
							cur.Skip = append(cur.Skip, c)
						}
					}
					hungMu.Unlock()
					js, _ := json.Marshal(cur)
					wp.in.Write(append(js, '\n'))
					line, err := wp.out.ReadBytes('\n')
					var r genTaskResult
					if err == nil {
						err = json.Unmarshal(line, &r)
					}
					if err == nil && r.Hung != nil {
						// the worker named the case that hangs: record it, run the rest of the task
						h := *r.Hung
						wp.cmd.Process.Kill()
						wp.cmd.Wait()
						wp, _ = startWorker("genworker", prop, tier)
						confirmDied(h)
						if h > cur.From {
							pending = append(pending, genTask{From: cur.From, To: h})
						}
						if h+1 < cur.To {
							pending = append(pending, genTask{From: h + 1, To: cur.To})
						}
						continue
					}
					if err != nil {
						wp.cmd.Process.Kill()
						wp.cmd.Wait()
						wp, _ = startWorker("genworker", prop, tier)
						if cur.To-cur.From <= 1 {
							confirmDied(cur.From)
						} else {
							mid := (cur.From + cur.To) / 2
							pending = append(pending, genTask{From: cur.From, To: mid}, genTask{From: mid, To: cur.To})
						}
						continue
					}
					results <- r
				}
			}
			wp.in.Close()
			wp.cmd.Wait()
		}()
	}
	go func() { wg.Wait(); close(results) }()
	skip := 0
	for r := range results {
		ok += r.OK
		skip += r.Skip
		nontrivial += r.NT
		units += r.Units
		if r.Died {
			name := fmt.Sprint(r.Task.From)
			if cl.Name != nil {
				name = cl.Name(r.Task.From)
			}
			class := name
			if cl.Class != nil {
				class = cl.Class(r.Task.From)
			}
			rep.add("process-died|"+class, "the worker process hosting the emulator died (fatal error / out of memory / no progress) while running case "+name, map[string]any{"case": r.Task.From, "tier": tier, "name": name})
			continue
		}
		for i, v := range r.Viol {
			rep.add(v.Sig, v.Detail, map[string]any{"case": r.VIdx[i], "tier": tier, "name": cl.Name(r.VIdx[i]), "trace": v.Trace})
			rep.findings[v.Sig].Count += r.VCount[v.Sig] - 1
		}
	}
	rep.Coverage["exhaustive"] = !expired
	rep.Coverage["cases_not_applicable"] = skip
	rep.Coverage["worker_stalls_not_confirmed_by_lone_rerun"] = atomic.LoadInt64(&notConfirmed)
	return
}
