package main

// Generic "enumerate a finite list of cases, run each on a fresh implementation instance"
// driver with worker processes (C01, C13, C19). A case list is identified by (property, tier);
// parent and workers build the identical list.

import (
	"runtime"
	"runtime/debug"
	"bufio"
	"encoding/json"
	"fmt"
	"io"
	"os"
	"runtime/pprof"
	"sync"
	"sync/atomic"
	"time"

	redisemu "github.com/jimsnab/go-redisemu"
)

type caseResult struct {
	Status     string `json:"st"` // ok | violation | skip
	Sig        string `json:"sig,omitempty"`
	Detail     string `json:"d,omitempty"`
	Trace      any    `json:"tr,omitempty"`
	Nontrivial bool   `json:"nt,omitempty"`
	Key        string `json:"k,omitempty"` // identity of the case for distinct counting
	Units      int    `json:"u,omitempty"` // sub-evaluations performed by the case
	NTUnits    int    `json:"ntu,omitempty"` // of which non-trivial
}

type caseList struct {
	N    int
	Run  func(i int) caseResult
	Name func(i int) string
	Class func(i int) string // optional: input class of case i for finding signatures
}

var genLists = map[string]func(tier string) *caseList{}

type genTask struct {
	From int `json:"f"`
	To   int `json:"t"`
	// Skip: input classes in which two cases have already hung a worker; further cases of the class
	// are not run (counted as not applicable) - every one of them would cost a watchdog period
	Skip []string `json:"skip,omitempty"`
}

type genTaskResult struct {
	Task   genTask      `json:"t"`
	OK     int          `json:"ok"`
	Skip   int          `json:"skip"`
	NT     int          `json:"nt"`
	Units  int          `json:"units"`
	Viol   []caseResult `json:"v"`
	VIdx   []int        `json:"vi"`
	VCount map[string]int `json:"vc"`
	Died   bool         `json:"died,omitempty"`
	Hung   *int         `json:"hung,omitempty"` // the worker's watchdog fired while running this case
}

var genProgress int64
var genCurrent atomic.Value

func genWorker(prop, tier string) {
	redisemu.VInit()
	cl := genLists[prop](tier)
	go func() {
		last, since := int64(-1), time.Now()
		for {
			time.Sleep(2 * time.Second)
			cur := atomic.LoadInt64(&genProgress)
			if cur != last {
				last, since = cur, time.Now()
				continue
			}
			if time.Since(since) > 20*time.Second && atomic.LoadInt64(&workerBusy) == 1 {
				fmt.Fprintf(os.Stderr, "WATCHDOG: case %v makes no progress for 20 s; goroutine dump follows\n", genCurrent.Load())
				pprof.Lookup("goroutine").WriteTo(os.Stderr, 2)
				// tell the parent which case it was, so that it does not have to bisect with one
				// watchdog period per step
				if idx, ok := genCurrent.Load().(int); ok {
					fmt.Fprintf(protoOut, "{\"hung\":%d}\n", idx)
				}
				os.Exit(3)
			}
		}
	}()
	dec := json.NewDecoder(bufio.NewReaderSize(os.Stdin, 1<<20))
	w := bufio.NewWriterSize(protoOut, 1<<20)
	enc := json.NewEncoder(w)
	for {
		var t genTask
		if err := dec.Decode(&t); err != nil {
			if err == io.EOF {
				return
			}
			os.Exit(2)
		}
		out := genTaskResult{Task: t, VCount: map[string]int{}}
		atomic.StoreInt64(&workerBusy, 1)
		skip := map[string]bool{}
		for _, c := range t.Skip {
			skip[c] = true
		}
		for i := t.From; i < t.To; i++ {
			genCurrent.Store(i)
			if len(skip) > 0 && cl.Class != nil && skip[cl.Class(i)] {
				atomic.AddInt64(&genProgress, 1)
				out.Skip++
				continue
			}
			r := cl.Run(i)
			atomic.AddInt64(&genProgress, 1)
			// a case may legitimately have allocated hundreds of megabytes (SETBIT k 2147483648 1): give them back
			// before the next case, the worker's address space is limited
			var ms runtime.MemStats
			if i%64 == 0 {
				runtime.ReadMemStats(&ms)
			}
			if ms.HeapIdle-ms.HeapReleased > 1<<30 || ms.HeapAlloc > 2<<30 {
				debug.FreeOSMemory()
			}
			out.Units += r.Units
			switch r.Status {
			case "ok":
				out.OK++
				if r.NTUnits > 0 {
					out.NT += r.NTUnits
				} else if r.Nontrivial {
					out.NT++
				}
			case "skip":
				out.Skip++
			default:
				out.VCount[r.Sig]++
				if out.VCount[r.Sig] == 1 && len(out.Viol) < 40 {
					out.Viol = append(out.Viol, r)
					out.VIdx = append(out.VIdx, i)
				}
			}
		}
		atomic.StoreInt64(&workerBusy, 0)
		enc.Encode(out)
		w.Flush()
	}
}

// runGen runs the case list on the worker pool and fills the report.
func runGen(prop, tier string, chunk int, rep *Report) (ok, nontrivial, units int) {
	cl := genLists[prop](tier)
	var jobs []genTask
	for f := 0; f < cl.N; f += chunk {
		to := f + chunk
		if to > cl.N {
			to = cl.N
		}
		jobs = append(jobs, genTask{From: f, To: to})
	}
	tasks := make(chan genTask, len(jobs))
	for _, j := range jobs {
		tasks <- j
	}
	close(tasks)
	results := make(chan genTaskResult, len(jobs)+4096)
	var hungMu sync.Mutex
	hungClasses := map[string]int{}
	deadline := time.Now().Add(tierBudget(tier))
	expired := false
	var wg sync.WaitGroup
	for w := 0; w < numWorkers(); w++ {
		wg.Add(1)
		go func() {
			defer wg.Done()
			wp, err := startWorker("genworker", prop, tier)
			if err != nil {
				rep.HarnessErr = append(rep.HarnessErr, err.Error())
				return
			}
			for t := range tasks {
				if time.Now().After(deadline) {
					expired = true
					continue
				}
				// a worker that dies (fatal error, out of memory, watchdog) costs one case: bisect
				pending := []genTask{t}
				for len(pending) > 0 {
					cur := pending[0]
					pending = pending[1:]
					hungMu.Lock()
					cur.Skip = nil
					for c, n := range hungClasses {
						if n >= 2 {
							cur.Skip = append(cur.Skip, c)
						}
					}
					hungMu.Unlock()
					js, _ := json.Marshal(cur)
					wp.in.Write(append(js, '\n'))
					line, err := wp.out.ReadBytes('\n')
					var r genTaskResult
					if err == nil {
						err = json.Unmarshal(line, &r)
					}
					if err == nil && r.Hung != nil {
						// the worker named the case that hangs: record it, run the rest of the task
						h := *r.Hung
						if cl.Class != nil {
							hungMu.Lock()
							hungClasses[cl.Class(h)]++
							hungMu.Unlock()
						}
						wp.cmd.Process.Kill()
						wp.cmd.Wait()
						wp, _ = startWorker("genworker", prop, tier)
						results <- genTaskResult{Task: genTask{From: h, To: h + 1}, Died: true, VCount: map[string]int{}}
						if h > cur.From {
							pending = append(pending, genTask{From: cur.From, To: h})
						}
						if h+1 < cur.To {
							pending = append(pending, genTask{From: h + 1, To: cur.To})
						}
						continue
					}
					if err != nil {
						wp.cmd.Process.Kill()
						wp.cmd.Wait()
						wp, _ = startWorker("genworker", prop, tier)
						if cur.To-cur.From <= 1 {
							results <- genTaskResult{Task: cur, Died: true, VCount: map[string]int{}}
						} else {
							mid := (cur.From + cur.To) / 2
							pending = append(pending, genTask{From: cur.From, To: mid}, genTask{From: mid, To: cur.To})
						}
						continue
					}
					results <- r
				}
			}
			wp.in.Close()
			wp.cmd.Wait()
		}()
	}
	go func() { wg.Wait(); close(results) }()
	skip := 0
	for r := range results {
		ok += r.OK
		skip += r.Skip
		nontrivial += r.NT
		units += r.Units
		if r.Died {
			name := fmt.Sprint(r.Task.From)
			if cl.Name != nil {
				name = cl.Name(r.Task.From)
			}
			class := name
			if cl.Class != nil {
				class = cl.Class(r.Task.From)
			}
			rep.add("process-died|"+class, "the worker process hosting the emulator died (fatal error / out of memory / no progress) while running case "+name, map[string]any{"case": r.Task.From, "tier": tier, "name": name})
			continue
		}
		for i, v := range r.Viol {
			rep.add(v.Sig, v.Detail, map[string]any{"case": r.VIdx[i], "tier": tier, "name": cl.Name(r.VIdx[i]), "trace": v.Trace})
			rep.findings[v.Sig].Count += r.VCount[v.Sig] - 1
		}
	}
	rep.Coverage["exhaustive"] = !expired
	rep.Coverage["cases_not_applicable"] = skip
	return
}
