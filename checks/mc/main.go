package main

import (
	"strings"
	"flag"
	"fmt"
	"os"

	redisemu "github.com/jimsnab/go-redisemu"
	vm "github.com/jimsnab/go-redisemu/verifmodel"
	"github.com/jimsnab/go-redisemu/verifrt"
)

// seqSpecsFor returns the explicit-state specifications a property's check consists of.
func seqSpecsFor(id, tier string) []*SeqSpec {
	switch id {
	case "C06":
		return []*SeqSpec{specC06(tier), specC06glob(tier)}
	case "C10":
		return []*SeqSpec{specC10(tier, 0), specC10(tier, 1), specC10(tier, 2)}
	case "C15":
		return []*SeqSpec{specC15hello(tier)}
	case "C18":
		return []*SeqSpec{specC18(tier), specC18long(tier)}
	}
	if sp := seqSpecFor(id, tier); sp != nil {
		return []*SeqSpec{sp}
	}
	return nil
}

func seqSpecFor(id, tier string) *SeqSpec {
	switch id {
	case "C06#glob":
		return specC06glob(tier)
	case "C09":
		return specC09(tier)
	case "C10":
		return specC10(tier, 0)
	case "C10#inmulti":
		return specC10(tier, 1)
	case "C10#db1":
		return specC10(tier, 2)
	case "C14":
		return specC14(tier)
	case "C15#hello":
		return specC15hello(tier)
	case "C18#long":
		return specC18long(tier)
	case "C06":
		return specC06(tier)
	case "C07":
		return specC07(tier)
	case "C02":
		return specC02(tier)
	case "C03":
		return specC03(tier)
	case "C04":
		return specC04(tier)
	case "C05":
		return specC05(tier)
	case "C18":
		return specC18(tier)
	}
	return nil
}

// exploreGroups: schedule-exploration parts of a property (group name -> preemption bounds per tier)
// unboundedPass: scenario groups that are also explored without a preemption bound under the
// sleep-set reduction, and in which tiers
// unboundedIsExtra: the unbounded pass runs in addition to a complete bounded pass; whether it
// finished is then reported on its own and does not change "exhaustive"
var unboundedIsExtra bool

var unboundedPass = map[string]string{
	// additional pass: every schedule without preemption bound under the partial-order reduction
	"C08/lin": "thorough", "C08/tx": "thorough", "C08/hist": "thorough", "C09/tx": "thorough",
	"C11/block": "thorough", "C12/end": "thorough",
}

type exploreGroup struct {
	name           string
	quick, thorough int
}

func exploreGroupsFor(id string) []exploreGroup {
	switch id {
	case "C08":
		// "order": pipelines on one socket connection (C01's scenarios): the commands of one connection take
		// effect and are answered in the order they were sent, whatever its goroutines do
		return []exploreGroup{{"lin", 2, 3}, {"tx", 2, 3}, {"hist", 2, 3}, {"order", 1, 2}}
	case "C09":
		return []exploreGroup{{"tx", 2, 3}}
	}
	return exploreGroupsExtra(id)
}

// exploreScenarios returns the scenario list of a (property, group); parent and workers build
// the identical list.
func exploreScenarios(id, group, tier string) []*Scenario {
	switch id + "/" + group {
	case "C08/lin":
		return linScenarios(tier)
	case "C08/tx", "C09/tx":
		return txScenarios(tier)
	case "C08/hist":
		return histScenarios(tier)
	case "C08/order":
		return orderScenarios(tier)
	case "C08/racepairs":
		// the command pairs of the race check, for C08's companion pass in the race build
		var out []*Scenario
		for _, sc := range raceScenarios(tier) {
			if strings.HasPrefix(sc.Name, "pair/") || strings.HasPrefix(sc.Name, "exec/") {
				out = append(out, sc)
			}
		}
		return out
	}
	return exploreScenariosExtra(id, group, tier)
}

// protoOut is the stream the worker protocol writes to (the process's original stdout)
var protoOut = os.Stdout

var assumptions = map[string][]string{
	"seq": {
		"the reference model transcribes Redis 7 command semantics from the command reference (no Redis server is available offline)",
		"values outside the stated alphabet and sequences longer than depth_completed are not covered",
		"error replies are compared by class (first word), not by message text",
	},
	"explore": {
		"scheduling points are the synchronisation operations (lock, atomic, channel, select, sleep, timer, socket); plain memory accesses between them are covered by the race check C16",
		"schedules with more preemptions than the reported bound are not covered",
	},
	"C17": {"element names are chosen with the dictionary's own hash function so that single insertions / deletions double or halve the table mid-iteration", "at most m mutations per iteration (m in the evidence), tables of 16..128 buckets"},
	"C15": {"the canonical down-conversion is: map / list of pairs -> flat array, set -> array, double / big number / verbatim -> string, boolean -> 0/1, null -> nil", "unordered collections are compared as multisets"},
}

func runCheck(id, tier string) int {
	// whatever the code under test prints goes to stderr; stdout carries the verdict lines only
	os.Stdout = os.Stderr
	redisemu.VInit()
	level := "model_checking"
	if l, ok := levelOverride[id]; ok {
		level = l
	}
	rep := newReport(id, tier, level)
	ran := false
	if os.Getenv("VERIF_RACE_COMPANION") != "" {
		// second pass of bin/verif for this property, in the race build
		rep.MergePrefix = "race_companion_"
		b := 1
		if tier == "thorough" {
			b = 2
		}
		switch id {
		case "C08":
			runRaceCompanion("C08", []string{"hist", "racepairs"}, b, tier, rep)
		default:
			fmt.Fprintln(os.Stderr, "no race companion pass for", id)
			return 2
		}
		return rep.finish()
	}
	if id == "C17" {
		rep.Assume = append(rep.Assume, assumptions["C17"]...)
		runScanCheck(tier, rep)
		ran = true
	}
	if id == "C15" {
		rep.Assume = append(rep.Assume, assumptions["C15"]...)
		runC15(tier, rep)
		ran = true
	}
	if sps := seqSpecsFor(id, tier); sps != nil {
		rep.Assume = append(rep.Assume, assumptions["seq"]...)
		for _, sp := range sps {
			runSeqCheck(sp, tier, rep)
		}
		ran = true
	}
	// the iterator of a family belongs to the family: its iteration histories (C17's engine) are part
	// of the family's check
	if sel, ok := map[string]string{"C04": "hscan/", "C05": "sscan/", "C06": "scan/"}[id]; ok {
		runScanCheckSel(tier, rep, sel, "iteration_")
	}
	if gs := exploreGroupsFor(id); gs != nil {
		rep.Assume = append(rep.Assume, assumptions["explore"]...)
		for _, g := range gs {
			bound := g.quick
			if tier == "thorough" {
				bound = g.thorough
			}
			all := exploreScenarios(id, g.name, tier)
			tiers, unb := unboundedPass[id+"/"+g.name]
			unb = unb && strings.Contains(tiers, tier)
			instead := unb && strings.Contains(tiers, "instead")
			// bounded pass (with "instead": only the scenarios the unbounded pass leaves out)
			nb := 0
			for _, sc := range all {
				if !instead || sc.BoundedOnly {
					nb++
				}
			}
			if nb > 0 {
				runExploreSel(id, g.name, all, bound, tier, rep, func(sc *Scenario) bool { return !instead || sc.BoundedOnly })
			}
			// unbounded pass: every schedule (no preemption bound) modulo commuting steps
			if unb {
				if tier == "thorough" {
					selfTestReduction(g.name, all, func(sc *Scenario) bool { return !sc.BoundedOnly }, 20, rep)
				}
				unboundedIsExtra = !instead
				runExploreSel(id, g.name, all, -1, tier, rep, func(sc *Scenario) bool { return !sc.BoundedOnly })
				unboundedIsExtra = false
			}
		}
		ran = true
	}
	if runExtra(id, tier, rep) {
		ran = true
	}
	if !ran {
		fmt.Fprintln(os.Stderr, "unknown property", id)
		return 2
	}
	return rep.finish()
}

func main() {
	if len(os.Args) < 2 {
		fmt.Fprintln(os.Stderr, "usage: mc check <ID> [--tier quick|thorough] | replay <file> | do CMD...")
		os.Exit(2)
	}
	if len(os.Args) > 1 && (os.Args[1] == "worker" || os.Args[1] == "scanworker" || os.Args[1] == "exploreworker" || os.Args[1] == "genworker") {
		// the worker protocol owns the original stdout; anything the code under test prints
		// (CLIENT KILL has debugging Printlns) goes to stderr instead
		protoOut = os.Stdout
		os.Stdout = os.Stderr
	}
	switch os.Args[1] {
	case "do":
		// mc do CMD args... [-- CMD args...]: run commands on one connection and print the replies
		redisemu.VInit()
		redisemu.VResetGlobals()
		var cmds [][]string
		cur := []string{}
		for _, a := range os.Args[2:] {
			if a == "--" {
				cmds = append(cmds, cur)
				cur = []string{}
				continue
			}
			cur = append(cur, a)
		}
		cmds = append(cmds, cur)
		sch := verifrt.NewSched(nil)
		sch.Run(func() {
			vi := redisemu.VNew("")
			cl := vi.NewClient()
			for _, cm := range cmds {
				raw := cl.Do(cm...)
				r, err := vm.Parse1(raw)
				fmt.Printf("%v => %s %v\n", cm, r, err)
			}
		})
		fmt.Println("terminal:", sch.Term, sch.PanicVal)
		return
	case "scanworker":
		scanWorker(os.Args[2])
		return
	case "genworker":
		limitMemory(12 << 30)
		genWorker(os.Args[2], os.Args[3])
		return
	case "exploreworker":
		exploreWorker(exploreScenarios(os.Args[2], os.Args[3], os.Args[4]))
		return
	case "worker":
		id, tier := os.Args[2], os.Args[3]
		if sp := seqSpecFor(id, tier); sp != nil {
			seqWorker(sp)
			return
		}
		os.Exit(2)
	case "replay":
		os.Exit(runReplay(os.Args[2:]))
	case "check":
		fs := flag.NewFlagSet("check", flag.ExitOnError)
		tier := fs.String("tier", "", "quick|thorough")
		id := os.Args[2]
		fs.Parse(os.Args[3:])
		if *tier == "" {
			*tier = os.Getenv("VERIF_TIER")
		}
		if *tier != "thorough" {
			*tier = "quick"
		}
		os.Exit(runCheck(id, *tier))
	default:
		if extraCommand(os.Args[1:]) {
			return
		}
		fmt.Fprintln(os.Stderr, "unknown command", os.Args[1])
		os.Exit(2)
	}
}
