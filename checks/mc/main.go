package main

import (
	"flag"
	"fmt"
	"os"

	redisemu "github.com/jimsnab/go-redisemu"
	vm "github.com/jimsnab/go-redisemu/verifmodel"
	"github.com/jimsnab/go-redisemu/verifrt"
)

// seqSpecsFor returns the explicit-state specifications a property's check consists of.
func seqSpecsFor(id, tier string) []*SeqSpec {
	switch id {
	case "C06":
		return []*SeqSpec{specC06(tier), specC06glob(tier)}
	case "C10":
		return []*SeqSpec{specC10(tier, 0), specC10(tier, 1), specC10(tier, 2)}
	}
	if sp := seqSpecFor(id, tier); sp != nil {
		return []*SeqSpec{sp}
	}
	return nil
}

func seqSpecFor(id, tier string) *SeqSpec {
	switch id {
	case "C06#glob":
		return specC06glob(tier)
	case "C09":
		return specC09(tier)
	case "C10":
		return specC10(tier, 0)
	case "C10#inmulti":
		return specC10(tier, 1)
	case "C10#db1":
		return specC10(tier, 2)
	case "C14":
		return specC14(tier)
	case "C15#hello":
		return specC15hello(tier)
	case "C06":
		return specC06(tier)
	case "C07":
		return specC07(tier)
	case "C02":
		return specC02(tier)
	case "C03":
		return specC03(tier)
	case "C04":
		return specC04(tier)
	case "C05":
		return specC05(tier)
	case "C18":
		return specC18(tier)
	}
	return nil
}

var levelOf = map[string]string{}

func main() {
	if len(os.Args) < 2 {
		fmt.Fprintln(os.Stderr, "usage: mc check <ID> [--tier quick|thorough] | worker <ID> <tier> | replay <file>")
		os.Exit(2)
	}
	switch os.Args[1] {
	case "do":
		// mc do CMD args... [-- CMD args...]: run commands on one connection and print the replies
		redisemu.VInit()
		redisemu.VResetGlobals()
		var cmds [][]string
		cur := []string{}
		for _, a := range os.Args[2:] {
			if a == "--" {
				cmds = append(cmds, cur)
				cur = []string{}
				continue
			}
			cur = append(cur, a)
		}
		cmds = append(cmds, cur)
		sch := verifrt.NewSched(nil)
		sch.Run(func() {
			vi := redisemu.VNew("")
			cl := vi.NewClient()
			for _, cm := range cmds {
				raw := cl.Do(cm...)
				r, err := vm.Parse1(raw)
				fmt.Printf("%v => %s %v\n", cm, r, err)
			}
		})
		fmt.Println("terminal:", sch.Term, sch.PanicVal)
		return
	case "scanworker":
		scanWorker(os.Args[2])
		return
	case "worker":
		id, tier := os.Args[2], os.Args[3]
		if sp := seqSpecFor(id, tier); sp != nil {
			seqWorker(sp)
			return
		}
		os.Exit(2)
	case "check":
		fs := flag.NewFlagSet("check", flag.ExitOnError)
		tier := fs.String("tier", "quick", "quick|thorough")
		id := os.Args[2]
		fs.Parse(os.Args[3:])
		if t := os.Getenv("VERIF_TIER"); t != "" && len(os.Args) <= 3 {
			*tier = t
		}
		redisemu.VInit()
		if id == "C17" {
			rep := newReport(id, *tier, "model_checking")
			rep.Assume = []string{"element names are chosen with the dictionary's own hash function so that single insertions / deletions double or halve the table mid-iteration", "at most m mutations per iteration (m in the evidence), tables of 16..128 buckets"}
			runScanCheck(*tier, rep)
			os.Exit(rep.finish())
		}
		if id == "C15" {
			rep := newReport(id, *tier, "model_checking")
			rep.Assume = []string{"the canonical down-conversion is: map / list of pairs -> flat array, set -> array, double / big number / verbatim -> string, boolean -> 0/1, null -> nil", "unordered collections are compared as multisets"}
			runC15(*tier, rep)
			runSeqCheck(specC15hello(*tier), *tier, rep)
			os.Exit(rep.finish())
		}
		if sps := seqSpecsFor(id, *tier); sps != nil {
			rep := newReport(id, *tier, "model_checking")
			rep.Assume = []string{
				"the reference model transcribes Redis 7 command semantics from the command reference (no Redis server is available offline)",
				"values outside the stated alphabet and sequences longer than depth_completed are not covered",
				"error replies are compared by class (first word), not by message text",
			}
			for _, sp := range sps {
				runSeqCheck(sp, *tier, rep)
			}
			os.Exit(rep.finish())
		}
		fmt.Fprintln(os.Stderr, "unknown property", id)
		os.Exit(2)
	}
}
