package main

import (
	"math/big"
	"strconv"
)

// C18: bitmaps. Base strings are initial states; everything else is a depth-1 sweep from them
// (plus, in the thorough tier, from the states a few mutators reach).
func specC18(tier string) *SeqSpec {
	s := &SeqSpec{ID: "C18", Sessions: 1, Keys: []string{"k1", "k2", "l1"}, DBs: []int{0}}
	bases := []string{"", "\x00", "\xff", "\xa5\x5a\xc3", "\xff\xff\xff\xff\xff\xff\xff\xff\xff", "\xaa\x55\xaa\x55\xaa\x55\xaa\x55\xaa", "\x00\xff\x0f"}
	s.Inits = append(s.Inits, []Op{c("RPUSH", "l1", "e"), c("SET", "k2", "\x0f\xf0")})
	for _, b := range bases {
		s.Inits = append(s.Inits, []Op{c("RPUSH", "l1", "e"), c("SET", "k2", "\x0f\xf0"), c("SET", "k1", b)})
	}
	thorough := tier == "thorough"
	var S []Op
	// ---- BITFIELD cube
	offsets := []string{"0", "1", "7", "8", "9", "15", "#1"}
	if thorough {
		offsets = nil
		for i := 0; i <= 16; i++ {
			offsets = append(offsets, strconv.Itoa(i))
		}
		offsets = append(offsets, "#0", "#1", "#2")
	}
	one := big.NewInt(1)
	clamp := func(v *big.Int) (string, bool) {
		if v.IsInt64() {
			return v.String(), true
		}
		return "", false
	}
	for signed := 0; signed < 2; signed++ {
		maxW := 64
		pfx := "i"
		if signed == 0 {
			maxW, pfx = 63, "u"
		}
		for w := 1; w <= maxW; w++ {
			typ := pfx + strconv.Itoa(w)
			var min, max *big.Int
			if signed == 1 {
				max = new(big.Int).Sub(new(big.Int).Lsh(one, uint(w-1)), one)
				min = new(big.Int).Neg(new(big.Int).Lsh(one, uint(w-1)))
			} else {
				min = big.NewInt(0)
				max = new(big.Int).Sub(new(big.Int).Lsh(one, uint(w)), one)
			}
			cand := []*big.Int{big.NewInt(1), big.NewInt(-1), max, new(big.Int).Add(max, one)}
			if thorough {
				cand = append(cand, big.NewInt(0), min, new(big.Int).Sub(min, one), big.NewInt(1<<62), big.NewInt(-1<<63), big.NewInt(1<<63-1), big.NewInt(100), big.NewInt(-100))
			}
			var vals []string
			seen := map[string]bool{}
			for _, v := range cand {
				if sv, ok := clamp(v); ok && !seen[sv] {
					seen[sv] = true
					vals = append(vals, sv)
				}
			}
			for oi, off := range offsets {
				if !thorough && (w+oi)%2 == 1 && w > 9 && w < 56 {
					continue
				}
				S = append(S, c("BITFIELD", "k1", "GET", typ, off), c("BITFIELD_RO", "k1", "GET", typ, off))
				for _, ov := range []string{"WRAP", "SAT", "FAIL"} {
					for _, v := range vals {
						S = append(S, c("BITFIELD", "k1", "OVERFLOW", ov, "SET", typ, off, v), c("BITFIELD", "k1", "OVERFLOW", ov, "INCRBY", typ, off, v))
					}
				}
			}
		}
	}
	// default overflow (none given), sticky OVERFLOW across several operations, mixed reads and writes
	S = append(S,
		c("BITFIELD", "k1"), c("BITFIELD_RO", "k1"),
		c("BITFIELD", "k1", "SET", "i8", "0", "200"), c("BITFIELD", "k1", "INCRBY", "i8", "0", "100"), c("BITFIELD", "k1", "INCRBY", "u2", "102", "1"),
		c("BITFIELD", "k1", "INCRBY", "i5", "100", "1", "GET", "u4", "0"),
		c("BITFIELD", "k1", "OVERFLOW", "SAT", "INCRBY", "i8", "0", "100", "INCRBY", "i8", "0", "100", "OVERFLOW", "FAIL", "INCRBY", "u4", "8", "15", "GET", "i8", "0"),
		c("BITFIELD", "k1", "OVERFLOW", "FAIL", "SET", "u4", "0", "16", "OVERFLOW", "WRAP", "SET", "u4", "0", "17", "GET", "u4", "0"),
		c("BITFIELD", "k1", "SET", "u8", "#0", "255", "SET", "u8", "#1", "0", "GET", "u16", "0"),
		c("BITFIELD", "k1", "GET", "u8", "0", "OVERFLOW", "SAT", "GET", "i8", "8"),
		c("BITFIELD", "k1", "OVERFLOW", "SAT", "SET", "i8", "0", "100"), c("BITFIELD", "k1", "OVERFLOW", "SAT", "SET", "i8", "0", "-100"), c("BITFIELD", "k1", "OVERFLOW", "SAT", "SET", "i8", "0", "1000"),
		c("BITFIELD", "k1", "OVERFLOW", "SAT", "INCRBY", "i64", "0", "1"), c("BITFIELD", "k1", "OVERFLOW", "SAT", "INCRBY", "i64", "0", "-1"), c("BITFIELD", "k1", "OVERFLOW", "FAIL", "INCRBY", "i64", "0", "9223372036854775807"),
		c("BITFIELD", "k1", "GET", "u64", "0"), c("BITFIELD", "k1", "GET", "i65", "0"), c("BITFIELD", "k1", "GET", "u0", "0"), c("BITFIELD", "k1", "GET", "x8", "0"), c("BITFIELD", "k1", "GET", "i8", "-1"), c("BITFIELD", "k1", "GET", "i8", "#-1"),
		c("BITFIELD", "k1", "GET", "i8", "4294967296"), c("BITFIELD", "k1", "GET", "i8", "4294967289"), c("BITFIELD", "k1", "OVERFLOW", "BOGUS", "GET", "i8", "0"), c("BITFIELD", "k1", "SET", "i8", "0"), c("BITFIELD", "k1", "SET", "i8", "0", "abc"),
		c("BITFIELD_RO", "k1", "SET", "i8", "0", "1"), c("BITFIELD_RO", "k1", "INCRBY", "i8", "0", "1"), c("BITFIELD_RO", "k1", "GET", "i8", "0", "GET", "u3", "5"),
		c("BITFIELD", "l1", "GET", "i8", "0"), c("BITFIELD", "l1", "SET", "i8", "0", "1"), c("BITFIELD_RO", "l1", "GET", "i8", "0"), c("BITFIELD", "nokey", "GET", "i8", "0"), c("BITFIELD", "nokey", "OVERFLOW", "FAIL", "INCRBY", "u2", "0", "7"), c("BITFIELD", "nokey", "SET", "u8", "16", "0"),
	)
	// ---- SETBIT / GETBIT
	for i := 0; i <= 17; i++ {
		S = append(S, c("GETBIT", "k1", itoa(i)), c("SETBIT", "k1", itoa(i), "0"), c("SETBIT", "k1", itoa(i), "1"))
	}
	for _, o := range []string{"71", "72", "80", "1000", "8388607", "4294967296", "-1", "9223372036854775807", "abc"} {
		S = append(S, c("GETBIT", "k1", o), c("SETBIT", "k1", o, "1"), c("SETBIT", "k1", o, "0"))
	}
	S = append(S, c("GETBIT", "k1", "4294967295"), c("SETBIT", "k1", "0", "2"), c("SETBIT", "k1", "0", "-1"), c("SETBIT", "l1", "0", "1"), c("GETBIT", "l1", "0"), c("GETBIT", "nokey", "5"), c("SETBIT", "nokey", "9", "0"), c("SETBIT", "nokey", "9", "1"))
	// ---- BITCOUNT / BITPOS
	rng := 9
	if thorough {
		rng = 20
	}
	for i := -rng; i <= rng; i++ {
		for j := -rng; j <= rng; j++ {
			if !thorough && (i > 5 || i < -5) && (j > 5 || j < -5) && (i+j)%3 != 0 {
				continue
			}
			for _, unit := range []string{"", "BYTE", "BIT"} {
				a := []string{"BITCOUNT", "k1", itoa(i), itoa(j)}
				p0 := []string{"BITPOS", "k1", "0", itoa(i), itoa(j)}
				p1 := []string{"BITPOS", "k1", "1", itoa(i), itoa(j)}
				if unit != "" {
					a, p0, p1 = append(a, unit), append(p0, unit), append(p1, unit)
				}
				S = append(S, Op{Args: a}, Op{Args: p0}, Op{Args: p1})
			}
		}
		S = append(S, c("BITPOS", "k1", "0", itoa(i)), c("BITPOS", "k1", "1", itoa(i)))
	}
	S = append(S, c("BITCOUNT", "k1"), c("BITCOUNT", "k2"), c("BITCOUNT", "nokey"), c("BITCOUNT", "l1"), c("BITCOUNT", "k1", "0"), c("BITCOUNT", "k1", "0", "1", "NIBBLE"), c("BITCOUNT", "nokey", "0", "-1"), c("BITCOUNT", "k1", "-9223372036854775808", "9223372036854775807"), c("BITCOUNT", "k1", "0", "-1", "bit"),
		c("BITPOS", "k1", "0"), c("BITPOS", "k1", "1"), c("BITPOS", "k2", "0"), c("BITPOS", "k2", "1"), c("BITPOS", "nokey", "0"), c("BITPOS", "nokey", "1"), c("BITPOS", "nokey", "1", "0", "-1"), c("BITPOS", "nokey", "0", "0", "-1", "BIT"), c("BITPOS", "l1", "1"), c("BITPOS", "k1", "2"), c("BITPOS", "k1", "-1"),
		c("BITPOS", "k1", "1", "0", "-1", "NIBBLE"), c("BITPOS", "k1", "0", "-9223372036854775808", "9223372036854775807"), c("BITPOS", "k1", "1", "9223372036854775807"))
	// ---- BITFIELD with three operations of mixed types and overflow modes, a failing one in the middle
	subs := [][]string{{"GET", "u8", "0"}, {"OVERFLOW", "FAIL", "INCRBY", "i4", "8", "100"}, {"INCRBY", "u8", "16", "100"}, {"OVERFLOW", "WRAP", "INCRBY", "u8", "16", "200"}, {"SET", "i8", "0", "-128"}, {"OVERFLOW", "SAT", "INCRBY", "i8", "0", "-100"},
		{"OVERFLOW", "FAIL", "SET", "u4", "4", "15"}, {"OVERFLOW", "FAIL", "INCRBY", "u4", "4", "1"}, {"GET", "i4", "8"}, {"INCRBY", "i16", "#1", "30000"}}
	for i, a := range subs {
		for j, b := range subs {
			for k, c3 := range subs {
				if !thorough && (i+j*3+k*7)%3 != 0 {
					continue
				}
				args := append(append(append([]string{"BITFIELD", "k1"}, a...), b...), c3...)
				// the same overflow clause twice in a row is refused by the emulator's grammar (open finding class): skip
				S = append(S, Op{Args: args})
			}
		}
	}
	// ---- BITOP
	srcSets := [][]string{{"k1"}, {"k2"}, {"nokey"}, {"k1", "k2"}, {"k2", "k1"}, {"k1", "nokey"}, {"nokey", "k1"}, {"nokey", "nokey2"}, {"k1", "k1"}, {"k1", "k2", "nokey"}, {"k1", "l1"}, {"l1"}, {"nokey", "l1"}}
	for _, op := range []string{"AND", "OR", "XOR", "NOT", "and", "Not"} {
		for _, dst := range []string{"k1", "k2", "d1", "l1"} {
			for _, src := range srcSets {
				S = append(S, Op{Args: append([]string{"BITOP", op, dst}, src...)})
			}
		}
	}
	S = append(S, c("BITOP", "NAND", "d1", "k1", "k2"), c("BITOP", "NOT", "d1"))
	s.Sweep = S
	s.Depth = 0
	if thorough {
		s.Alphabet = []Op{c("SETBIT", "k1", "3", "1"), c("SETBIT", "k1", "77", "1"), c("BITFIELD", "k1", "SET", "i13", "5", "-1234"), c("APPEND", "k1", "\x81"), c("BITOP", "NOT", "k1", "k1"), c("BITOP", "XOR", "k1", "k1", "k2"), c("PEXPIRE", "k1", "50000")}
		s.Depth = 1
		s.TTL = true
	}
	return s
}

// C18, long operands: strings whose lengths sit around every block size an implementation may
// process at a time (8, 16, 32, 64 bytes), in pairs and triples of different lengths - BITOP,
// BITCOUNT, BITPOS and BITFIELD GET must give the bit-array answer whatever the length (a seeded
// change of wave 5 combined whole 32-byte blocks and forgot the bytes between the last whole block
// and the end of the shortest operand).
func specC18long(tier string) *SeqSpec {
	s := &SeqSpec{ID: "C18#long", Sessions: 1, Keys: []string{"k1", "k2", "k3", "d1"}, DBs: []int{0}}
	pat := func(n, seed int) string {
		b := make([]byte, n)
		for i := range b {
			b[i] = byte((i*37+seed*101+11)&0xff) ^ byte(i>>3)
		}
		return string(b)
	}
	lens := []int{7, 8, 9, 15, 16, 17, 31, 32, 33, 40, 63, 64, 65, 96, 100, 129}
	if tier != "thorough" {
		lens = []int{8, 17, 31, 32, 33, 40, 64, 65, 100}
	}
	for i, l1 := range lens {
		for _, l2 := range []int{lens[(i+1)%len(lens)], lens[(i+4)%len(lens)], l1} {
			s.Inits = append(s.Inits, []Op{c("SET", "k1", pat(l1, 1)), c("SET", "k2", pat(l2, 2)), c("SET", "k3", pat(lens[(i+2)%len(lens)], 3))})
		}
		// all ones / all zeroes with a single exception near the end (BITPOS has to walk the whole string)
		ones, zeroes := []byte(string(make([]byte, l1))), make([]byte, l1)
		for j := range ones {
			ones[j] = 0xff
		}
		ones[l1-2] = 0xfb
		zeroes[l1-1] = 0x10
		s.Inits = append(s.Inits, []Op{c("SET", "k1", string(ones)), c("SET", "k2", string(zeroes)), c("SET", "k3", pat(l1, 4))})
	}
	var S []Op
	for _, op := range []string{"AND", "OR", "XOR"} {
		for _, src := range [][]string{{"k1", "k2"}, {"k2", "k1"}, {"k1", "k2", "k3"}, {"k3", "k1", "k2"}, {"k1", "k1"}, {"k1", "nokey"}, {"k1", "k2", "nokey"}, {"k1"}} {
			for _, dst := range []string{"d1", "k1", "k2"} {
				S = append(S, Op{Args: append([]string{"BITOP", op, dst}, src...)})
			}
		}
	}
	S = append(S, c("BITOP", "NOT", "d1", "k1"), c("BITOP", "NOT", "k1", "k1"), c("BITOP", "NOT", "d1", "k2"))
	edges := []string{"0", "1", "7", "8", "9", "15", "16", "17", "31", "32", "33", "63", "64", "65", "-1", "-2", "-8", "-9", "-33"}
	for _, k := range []string{"k1", "k2"} {
		S = append(S, c("BITCOUNT", k), c("BITPOS", k, "0"), c("BITPOS", k, "1"))
		for _, a := range edges {
			S = append(S, c("BITCOUNT", k, a, "-1"), c("BITCOUNT", k, "0", a), c("BITPOS", k, "0", a), c("BITPOS", k, "1", a), c("BITPOS", k, "1", a, "-1", "BIT"), c("BITPOS", k, "0", a, "-2", "BIT"), c("BITCOUNT", k, a, "-3", "BIT"))
			S = append(S, c("GETRANGE", k, a, "-1"), c("BITFIELD", k, "GET", "u63", a), c("BITFIELD", k, "GET", "i64", "#"+a))
		}
		for _, bit := range []string{"63", "64", "255", "256", "257", "511", "512", "799", "800", "1031", "1032"} {
			S = append(S, c("GETBIT", k, bit), c("SETBIT", k, bit, "1"), c("SETBIT", k, bit, "0"), c("BITFIELD", k, "SET", "u8", bit, "165"), c("BITFIELD", k, "INCRBY", "i16", bit, "-3"))
		}
	}
	s.Sweep = S
	// a read of one key, then a write that makes ANOTHER (or the same) key longer: the new bytes are zero,
	// whatever the read looked at (a seeded change of wave 6 kept the read's copy as a scratch buffer)
	for _, r := range [][]string{{"BITFIELD_RO", "k1", "GET", "u8", "0"}, {"BITFIELD", "k1", "GET", "u8", "8", "GET", "i16", "3"}, {"BITFIELD", "k3", "GET", "u4", "0"}, {"BITCOUNT", "k1"}, {"BITPOS", "k1", "1"}, {"GETRANGE", "k1", "0", "-1"}, {"BITOP", "NOT", "d1", "k1"}, {"BITFIELD", "k1", "INCRBY", "u8", "0", "1"}} {
		for _, w := range [][]string{{"SETBIT", "k2", "100", "1"}, {"SETBIT", "k2", "300", "1"}, {"SETBIT", "k2", "700", "0"}, {"SETBIT", "k3", "520", "1"}, {"BITFIELD", "k2", "SET", "u8", "#20", "165"}, {"BITFIELD", "k2", "OVERFLOW", "SAT", "INCRBY", "u8", "#45", "7", "GET", "u8", "#43"}, {"BITFIELD", "k2", "INCRBY", "i16", "777", "-3"}, {"SETBIT", "k2", "1100", "1"}, {"SETBIT", "k2", "4000", "1"}, {"SETBIT", "k1", "2000", "1"}, {"BITFIELD", "k2", "SET", "u8", "#140", "165"}, {"BITFIELD", "k2", "OVERFLOW", "SAT", "INCRBY", "u8", "#150", "7", "GET", "u8", "#148"}, {"BITFIELD", "k3", "INCRBY", "i16", "2000", "-3"},
			{"SETRANGE", "k2", "200", "x"}, {"BITFIELD", "newkey", "SET", "u8", "#20", "1"}, {"SETBIT", "newkey", "300", "1"}} {
			s.InitSweep = append(s.InitSweep, Op{Args: r, Then: []Op{{Args: w}, c("GET", "newkey")}})
		}
	}
	s.Keys = append(s.Keys, "newkey")
	s.Depth = 0
	return s
}
