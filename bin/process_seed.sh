#!/bin/bash
# process_seed.sh <dir with patch.diff, *_test.go, meta.agent.json> <name, e.g. C07_w3> [note]
# confirms the seeded change on /repo HEAD, keeps it under seeded/<name>/, runs the property's quick check
# on it in isolation and writes meta.json
HERE="$(cd "$(dirname "$0")" && pwd)"; . "$HERE/env.sh"
SRC="$1"; NAME="$2"; NOTE="$3"; ID=${NAME%%_*}
cp "$SRC/meta.agent.json" "$SRC/meta.json" 2>/dev/null
R=$(bash "$HERE/verify_seed.sh" "$SRC" "$NAME" 2>&1 | grep "^RESULT\|KEPT\|DOES NOT APPLY\|BUILD FAILS" | tr '\n' ' ')
echo "$NAME $R"
[ -d "/verif/seeded/$NAME" ] || exit 1
OUT=$(bash "$HERE/try_seed_isolated.sh" "/verif/seeded/$NAME/patch.diff" "$ID" 2>&1)
echo "$OUT" > "/verif/seeded/$NAME/result.txt"
echo "   detect: $(echo "$OUT" | grep -m1 '^exit=') $(echo "$OUT" | grep -m1 violation | cut -c1-220)"
python3 /verif/tools/seed_meta.py "$NAME" "$NOTE" >/dev/null
rm -f "/verif/seeded/$NAME/result.txt"
