#!/bin/bash
# build.sh [variant]  : regenerate the overlay from /repo's working tree and build the checker
# variant: plain (default) | race
set -e
HERE="$(cd "$(dirname "$0")" && pwd)"; . "$HERE/env.sh"
V="${1:-plain}"
OUT="$VERIF_ROOT/.build/$V"
mkdir -p "$OUT"
if [ ! -x "$VERIF_ROOT/.build/instr" ] || [ "$VERIF_ROOT/tools/instr/main.go" -nt "$VERIF_ROOT/.build/instr" ]; then
  (cd "$VERIF_ROOT/tools/instr" && go build -o "$VERIF_ROOT/.build/instr" .) >&2
fi
"$VERIF_ROOT/.build/instr" -repo "$REPO_ROOT" -verif "$VERIF_ROOT" -out "$OUT" >&2
FLAGS=""
if [ "$V" = race ]; then FLAGS="-race"; fi
if ! (cd "$REPO_ROOT" && go build $FLAGS -tags "verif verifdeep" -overlay "$OUT/overlay.json" -o "$OUT/mc" ./verifcmd/mc) 2>"$OUT/build_deep.err"; then
  # private-state introspection no longer compiles against this tree: build without it
  (cd "$REPO_ROOT" && go build $FLAGS -tags verif -overlay "$OUT/overlay.json" -o "$OUT/mc" ./verifcmd/mc) >&2
fi
echo "$OUT/mc"
