#!/bin/bash
# One-time set-up after a fresh restore (offline): build the instrumenter and warm the Go build
# cache for the instrumented variants, so that the first check does not pay the cold build.
HERE="$(cd "$(dirname "$0")" && pwd)"; . "$HERE/env.sh"
set -e
mkdir -p "$VERIF_ROOT/.build" "$VERIF_ROOT/evidence"
(cd "$VERIF_ROOT/tools/instr" && go build -o "$VERIF_ROOT/.build/instr" .)
"$HERE/build.sh" plain >/dev/null
if [ -f "$VERIF_ROOT/rt/race_on.go" ]; then "$HERE/build.sh" race >/dev/null || true; fi
echo "setup ok"
