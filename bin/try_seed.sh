#!/bin/bash
# try_seed.sh <patch.diff> <property> [tier]: apply a seeded change to /repo, run the check, undo.
HERE="$(cd "$(dirname "$0")" && pwd)"; . "$HERE/env.sh"
P="$1"; ID="$2"; TIER="${3:-quick}"
cd /repo || exit 2
if ! git diff --quiet; then echo "repo dirty" >&2; exit 2; fi
if ! git apply --3way "$P" >/dev/null 2>&1; then
  git checkout -- . ; git reset -q --hard HEAD
  if ! patch -p1 --fuzz=3 -s < "$P"; then echo "PATCH DOES NOT APPLY" >&2; git checkout -- .; rm -f *.orig *.rej; git clean -fdq -e '*.orig' -e '*.rej'; exit 3; fi
fi
git reset -q   # unstage whatever --3way staged
cd /verif && bash bin/verif check "$ID" --tier "$TIER" > /tmp/try_seed.out 2>/tmp/try_seed.err; rc=$?
git -C /repo checkout -- . ; rm -f /repo/*.orig /repo/*.rej
bash "$HERE/build.sh" plain >/dev/null 2>&1   # never leave a binary of the seeded tree behind
echo "exit=$rc"; grep -c '^VIOLATION' /tmp/try_seed.out; grep '^VIOLATION' /tmp/try_seed.out | head -3; grep 'violation' /tmp/try_seed.err | head -5
