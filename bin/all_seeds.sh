#!/bin/bash
# all_seeds.sh: apply every seeded change in turn, run the property's quick check, record the verdict
# in seeded/<id>/result.txt (used to write meta.json). /repo is restored after every change.
HERE="$(cd "$(dirname "$0")" && pwd)"; . "$HERE/env.sh"
for d in /verif/seeded/C*/; do
  name=$(basename "$d"); id=${name%%_*}
  [ -n "$1" ] && [ "$1" != "$name" ] && continue
  out=$(bash "$HERE/try_seed.sh" "$d/patch.diff" "$id" quick 2>&1)
  echo "$out" > "$d/result.txt"
  echo "$name: $(echo "$out" | grep -m1 '^exit=') violations=$(echo "$out" | sed -n 2p)"
done
