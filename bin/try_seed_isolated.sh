#!/bin/bash
# try_seed_isolated.sh <patch.diff> <property> [tier]: like try_seed.sh, but touches neither /repo's
# working tree nor /verif: the change is applied in a scratch worktree of /repo HEAD and the check runs
# from a scratch copy of /verif (both removed afterwards). Safe while other checks are running.
HERE="$(cd "$(dirname "$0")" && pwd)"; . "$HERE/env.sh"
P="$(readlink -f "$1" 2>/dev/null)"; ID="$2"; TIER="${3:-quick}"
TAG="$ID.$$"
WT=/tmp/try_wt.$TAG; VR=/tmp/try_verif.$TAG
cleanup() { git -C /repo worktree remove --force "$WT" >/dev/null 2>&1; rm -rf "$WT" "$VR"; git -C /repo worktree prune; }
trap cleanup EXIT
git -C /repo worktree add --detach "$WT" HEAD >/dev/null 2>&1 || { echo "cannot create worktree"; exit 2; }
[ "$1" = none ] || (cd "$WT" && git apply "$P") || { echo "PATCH DOES NOT APPLY"; exit 3; }
mkdir -p "$VR" && rsync -a --exclude .build --exclude .git --exclude replays /verif/ "$VR/"
export VERIF_ROOT="$VR" REPO_ROOT="$WT"
(cd "$VR" && bash bin/verif check "$ID" --tier "$TIER") > /tmp/try_iso.$TAG.out 2>/tmp/try_iso.$TAG.err; rc=$?
echo "exit=$rc"; grep -c '^VIOLATION' /tmp/try_iso.$TAG.out; grep 'violation' /tmp/try_iso.$TAG.err | head -4 | cut -c1-400
grep -h "HARNESS" /tmp/try_iso.$TAG.err | head -3 | cut -c1-400; rm -f /tmp/try_iso.$TAG.out /tmp/try_iso.$TAG.err
