#!/bin/bash
# verify_seed.sh <seed-dir> <name>
# Confirms a seeded change in a scratch worktree of /repo's HEAD: applies, builds, baseline passes,
# demonstration fails with the change and passes without it. On success stores the (rebased) patch,
# the demonstration and meta.json under /verif/seeded/<name>/.
HERE="$(cd "$(dirname "$0")" && pwd)"; . "$HERE/env.sh"
SRC="$1"; NAME="$2"
WT=/tmp/wt/verify_$NAME
rm -rf "$WT"; git -C /repo worktree prune; git -C /repo worktree add --detach "$WT" HEAD >/dev/null 2>&1 || { echo "cannot create worktree"; exit 2; }
cleanup() { git -C /repo worktree remove --force "$WT" >/dev/null 2>&1; rm -rf "$WT"; }
trap cleanup EXIT
cd "$WT"
DEMO=$(ls "$SRC"/*_test.go 2>/dev/null | head -1)
[ -n "$DEMO" ] || { echo "no demo test"; exit 2; }
TESTS=$(grep -o 'func Test[A-Za-z0-9_]*' "$DEMO" | sed 's/func //' | paste -sd'|')
cp "$DEMO" "$WT/"
echo "-- demo without the change"
go test -vet=off -count=1 -timeout 300s -run "^($TESTS)\$" . > /tmp/verify_clean.log 2>&1; RC_CLEAN=$?
tail -3 /tmp/verify_clean.log
if ! git apply --3way "$SRC/patch.diff" >/dev/null 2>&1; then
  git checkout -q -- . 2>/dev/null; git reset -q --hard HEAD
  patch -p1 --fuzz=3 -s < "$SRC/patch.diff" || { echo "PATCH DOES NOT APPLY"; exit 3; }
fi
git reset -q
rm -f *.orig *.rej
go build ./... || { echo "BUILD FAILS"; exit 3; }
echo "-- baseline with the change"
bash "$HERE/baseline.sh" "$WT" > /tmp/verify_base.log 2>&1; RC_BASE=$?
NPASS=$(grep -c '^--- PASS' /tmp/verify_base.log); NFAIL=$(grep -c '^--- FAIL' /tmp/verify_base.log)
echo "baseline rc=$RC_BASE pass=$NPASS fail=$NFAIL"
echo "-- demo with the change"
go test -vet=off -count=1 -timeout 300s -run "^($TESTS)\$" . > /tmp/verify_mut.log 2>&1; RC_MUT=$?
tail -3 /tmp/verify_mut.log
echo "RESULT clean_rc=$RC_CLEAN base_rc=$RC_BASE pass=$NPASS mutated_rc=$RC_MUT"
if [ $RC_CLEAN -eq 0 ] && [ $RC_BASE -eq 0 ] && [ "$NPASS" = 68 ] && [ $RC_MUT -ne 0 ]; then
  mkdir -p "$VERIF_ROOT/seeded/$NAME"
  git diff -- . ':!*_test.go' > "$VERIF_ROOT/seeded/$NAME/patch.diff"
  cp "$DEMO" "$VERIF_ROOT/seeded/$NAME/"
  [ -f "$SRC/meta.json" ] && cp "$SRC/meta.json" "$VERIF_ROOT/seeded/$NAME/meta.agent.json"
  echo "KEPT $NAME"
else
  echo "NOT KEPT $NAME"
fi
