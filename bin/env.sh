# sourced by every script: offline Go environment
export GOFLAGS=-mod=mod GOPROXY=off GOSUMDB=off GOTOOLCHAIN=local
export VERIF_ROOT="${VERIF_ROOT:-/verif}"
export REPO_ROOT="${REPO_ROOT:-/repo}"
