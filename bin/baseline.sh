#!/bin/bash
# Runs the 68 pinned baseline tests of go-redisemu (guard off, untouched tree) by explicit -run regexp.
# usage: baseline.sh [repo-dir]   (default /repo)
export GOFLAGS=-mod=mod GOPROXY=off GOSUMDB=off GOTOOLCHAIN=local
HERE="$(cd "$(dirname "$0")" && pwd)"
DIR="${1:-/repo}"
cd "$DIR" && go test -vet=off -count=1 -timeout 10m -v -run "$(cat "$HERE/baseline_regex.txt")" . 
